/-
  Dirk.Gen.Kernels — GENERATED — do not edit.  Regenerated on every run by /verif/factx (kernels.go) from the
  Go source of the decision kernels (rules/standard, services/checker/static, services/process/standard,
  util/scatter.go, services/api/grpc/handlers/receiver, services/peers/static, slashingprotection.go,
  services/signer/standard: the batch signing loop and the pre-check, with core/result.go and rules/service.go for the
  enumerator values; services/ruler/golang/runner.go: RunRules and the head of runRules, with services/ruler/service.go
  for the action constants; services/lister/standard/listaccounts.go; services/api/grpc/handlers/signer: the batch paths of
  SignBeaconAttestations and Multisign; services/ruler/golang/runner.go again: the per-entry dispatch of runRules and the
  batch shortcut runRulesForMultipleBeaconAttestations);
  Dirk/Props/KernelsEq.lean proves each definition
  equal to the hand-written model function.  A kernel outside the translatable fragment appears as
  `kernelUntranslatable_<name>` instead, and KernelsEq.lean does not build.
-/
import Dirk.Model.Rules
import Dirk.Model.Checker

set_option linter.unusedVariables false

namespace Dirk.Gen

/-- Go `int` arithmetic (64-bit two's complement): the result of `+ - * /` reduced to the representable range
    (fixed text, not translated from any source). -/
def wrapI64 (x : Int) : Int := (x + 9223372036854775808) % 18446744073709551616 - 9223372036854775808

/-- `runSignBeaconAttestationChecks` (rules/standard/signbeaconattestations.go), translated statement by statement; model counterpart: `Dirk.attChecks`. -/
def attChecksGen (domain : Bytes) (src : Nat) (tgt : Nat) (stSrc : Int) (stTgt : Int) : Verdict × (Int × Int) :=
  if ¬ (prefix4 domain = domAttester) then (.denied, (stSrc, stTgt))
  else if ((src ≠ 0) ∨ (tgt ≠ 0)) ∧ (tgt ≤ src) then (.denied, (stSrc, stTgt))
  else if (src > maxI64) ∨ (tgt > maxI64) then (.denied, (stSrc, stTgt))
  else if (stTgt ≥ 0) ∧ (tgt ≤ (u64 stTgt)) then (.denied, (stSrc, stTgt))
  else if (stSrc ≥ 0) ∧ (src < (u64 stSrc)) then (.denied, (stSrc, stTgt))
  else (.approved, (i64 src, i64 tgt))

/-- the guards of `runSignBeaconAttestationChecks`, as written in the source, in order -/
def attChecksGuards : List String := [
  "!bytes.Equal(req.Domain[0:4], e2types.DomainBeaconAttester[:]) => return rules.DENIED",
  "(sourceEpoch != 0 || targetEpoch != 0) && (targetEpoch <= sourceEpoch) => return rules.DENIED",
  "sourceEpoch > math.MaxInt64 || targetEpoch > math.MaxInt64 => return rules.DENIED",
  "state.TargetEpoch >= 0 && targetEpoch <= uint64(state.TargetEpoch) => return rules.DENIED",
  "state.SourceEpoch >= 0 && sourceEpoch < uint64(state.SourceEpoch) => return rules.DENIED",
  "return rules.APPROVED"
]

/-- `OnSignBeaconProposal` (rules/standard/signbeaconproposal.go), translated statement by statement; model counterpart: `Dirk.onPropose`.
    `fetched` = result of `fetchSignBeaconProposalState` (`none` = error), `storeOk` = `storeSignBeaconProposalState` returned no error;
    second component = the state handed to the store, if it was called. -/
def propChecksGen (domain : Bytes) (slot : Nat) (fetched : Option Int) (storeOk : Bool) : Verdict × Option Int :=
  if ¬ (prefix4 domain = domProposer) then (.denied, none)
  else if slot > maxI64 then (.denied, none)
  else match fetched with
  | none => (.failed, none)
  | some stSlot =>
    if (stSlot ≥ 0) ∧ (slot ≤ (u64 stSlot)) then (.denied, none)
    else if storeOk = false then (.failed, some (i64 slot))
    else (.approved, some (i64 slot))

/-- the guards of `OnSignBeaconProposal`, as written in the source, in order -/
def propChecksGuards : List String := [
  "!bytes.Equal(req.Domain[0:4], e2types.DomainBeaconProposer[:]) => return rules.DENIED",
  "req.Slot > math.MaxInt64 => return rules.DENIED",
  "fetch s.fetchSignBeaconProposalState(metadata.PubKey); err != nil => return rules.FAILED",
  "state.Slot >= 0 && slot <= uint64(state.Slot) => return rules.DENIED",
  "store s.storeSignBeaconProposalState(metadata.PubKey, state); err != nil => return rules.FAILED",
  "return rules.APPROVED"
]

/-- `OnSign` (rules/standard/sign.go), translated statement by statement; model counterpart: `Dirk.onSign`. -/
def onSignGen (metadataNil : Bool) (adminIPs : List String) (ip : String) (domain : Bytes) : Verdict :=
  if metadataNil = true then .failed
  else if prefix4 domain = domAttester then .denied
  else if prefix4 domain = domProposer then .denied
  else if (prefix4 domain = domExit) ∧ (ip = "") then .denied
  else if (prefix4 domain = domExit) ∧ (¬ (adminIPs.contains ip)) then .denied
  else .approved

/-- the guards of `OnSign`, as written in the source, in order -/
def onSignGuards : List String := [
  "metadata == nil => return rules.FAILED",
  "bytes.Equal(req.Domain[0:4], e2types.DomainBeaconAttester[:]) => return rules.DENIED",
  "bytes.Equal(req.Domain[0:4], e2types.DomainBeaconProposer[:]) => return rules.DENIED",
  "bytes.Equal(req.Domain[0:4], e2types.DomainVoluntaryExit[:]) && metadata.IP == \"\" => return rules.DENIED",
  "validIP := (metadata.IP ∈ s.adminIPs)  [for-range membership loop]",
  "bytes.Equal(req.Domain[0:4], e2types.DomainVoluntaryExit[:]) && !validIP => return rules.DENIED",
  "return rules.APPROVED"
]

/-- `regexify` (services/checker/static/parameters.go), the string handed to `regexp.Compile`, as a function of the parameter; model counterpart: `Dirk.regexify`. -/
def regexifyGen (name : String) : String :=
  "(?i)^(?:" ++ (if name = "" then ".*" else name) ++ ")$"

/-- the guards of `regexify`, as written in the source, in order -/
def regexifyGuards : List String := [
  "if name == \"\" { name = \".*\" }",
  "name = fmt.Sprintf(\"(?i)^(?:%s)$\", name)",
  "return regexp.Compile(name)"
]

/-- `Check` (services/checker/static/service.go), inner loop over one matching path's operations: `some b` = `return b`, `none` = the loop ends without a verdict; model counterpart: `Dirk.check / Dirk.scanPaths / Dirk.scanOps`. -/
def checkOpsGen (op : String) : List String → Option Bool
  | [] => none
  | o :: os =>
    if (equalFold o "none") ∨ (equalFold o ("~" ++ op)) then some false
    else if (equalFold o "all") ∨ (equalFold o op) then some true
    else checkOpsGen op os

/-- `Check` (services/checker/static/service.go), outer loop; each path is given as (did the wallet and the account regex both match?, its operations); model counterpart: `Dirk.check / Dirk.scanPaths / Dirk.scanOps`. -/
def checkLoopGen (op : String) : List (Bool × List String) → Bool
  | [] => false
  | p :: ps =>
    if p.1 then
      match checkOpsGen op p.2 with
      | some b => b
      | none => checkLoopGen op ps
    else checkLoopGen op ps

/-- `Check` (services/checker/static/service.go), the guards before the loops: `some b` = `return b`, `none` = go on to the loops.
    `credsNil`: credentials == nil; `client`: credentials.Client; `pathOk`: WalletAndAccountNames returned no error;
    `wallet`: the wallet name it returned; `known`: the client has an entry in the access map; model counterpart: `Dirk.check / Dirk.scanPaths / Dirk.scanOps`. -/
def checkGuardsGen (credsNil : Bool) (client : String) (pathOk : Bool) (wallet : String) (known : Bool) : Option Bool :=
  if credsNil = true then some false
  else if client = "" then some false
  else if pathOk = false then some false
  else if wallet = "" then some false
  else if ¬ known then some false
  else none

/-- the guards of `Check`, as written in the source, in order -/
def checkGuards : List String := [
  "credentials == nil => return false",
  "credentials.Client == \"\" => return false",
  "walletName, accountName, err := e2wallet.WalletAndAccountNames(account); err != nil => return false",
  "walletName == \"\" => return false",
  "paths, exists := s.access[credentials.Client]  [map lookup: exists ↦ known]",
  "!exists => return false",
  "antiOperation := fmt.Sprintf(\"~%s\", operation)",
  "for _, path := range paths { if path.wallet.MatchString(walletName) && path.account.MatchString(accountName) { for … range path.operations {",
  "  strings.EqualFold(path.operations[i], \"none\") || strings.EqualFold(path.operations[i], antiOperation) => return false",
  "  strings.EqualFold(path.operations[i], \"all\") || strings.EqualFold(path.operations[i], operation) => return true",
  "} } }",
  "return false"
]

/-- `OnGenerate` (services/process/standard/generate.go), the parameter checks at the top (uint32 arithmetic), `true` = none of them refuses; model counterpart: `Dirk.Dkg.generateAccepts`. -/
def generateAcceptsGen (n : Nat) (t : Nat) : Bool :=
  if n = 0 then false
  else if t > n then false
  else if t ≤ (n / 2) then false
  else true

/-- the guards of `OnGenerate`, as written in the source, in order -/
def generateAcceptsGuards : List String := [
  "numParticipants == 0 => refuse",
  "signingThreshold > numParticipants => refuse",
  "signingThreshold <= numParticipants/2 => refuse",
  "[translation stops at: walletName, accountName, err := e2wallet.WalletAndAccountNames(account)]"
]

/-- `OnContribute` (services/process/standard/service.go), the conditions between the lookup of the generation and the storing of the contribution, `true` = stored.
    `valid`: verifyContribution(generation.id, secret, vVec); `vlen`: len(vVec); `threshold`: generation.threshold;
    `listed`: the sender id is the ID of one of generation.participants; model counterpart: `Dirk.Dkg.fixedAccepts`. -/
def fixedAcceptsGen (valid : Bool) (vlen : Nat) (threshold : Nat) (listed : Bool) : Bool :=
  if ¬ listed then false
  else if vlen ≠ threshold then false
  else if ¬ valid then false
  else true

/-- the guards of `OnContribute`, as written in the source, in order -/
def fixedAcceptsGuards : List String := [
  "isParticipant := (senderID ∈ IDs of generation.participants)  [for-range membership loop]",
  "!isParticipant => refuse",
  "len(vVec) != int(generation.threshold) => refuse",
  "!verifyContribution(generation.id, secret, vVec) => refuse",
  "accept: the contribution is stored (2 assignments), return …, nil"
]

/-- `calculateExtentSize` (util/scatter.go), Go `int` arithmetic statement by statement (`/` = Int.tdiv, `%` = Int.tmod, results kept in the int64 range by wrapI64).
    `items`: the parameter; `procs`: runtime.GOMAXPROCS(0) (the runtime guarantees >= 1); `none` = integer divide by zero (panic); model counterpart: `Dirk.extentSize`. -/
def extentSizeGen (items procs : Int) : Option Int :=
  if procs = 0 then none else  -- integer divide by zero: run-time panic
  let extentSize : Int := wrapI64 (Int.tdiv items procs)
  if extentSize = 0 then some 1 else
  if extentSize = 0 then none else  -- integer divide by zero: run-time panic
  let extentSize : Int := if (Int.tmod items extentSize) > 0 then wrapI64 (extentSize + 1) else extentSize
  some extentSize

/-- the guards of `calculateExtentSize`, as written in the source, in order -/
def extentSizeGuards : List String := [
  "extentSize := items / runtime.GOMAXPROCS(0)",
  "extentSize == 0 => return 1",
  "items%extentSize > 0 => extentSize++",
  "return extentSize"
]

/-- `senderID` (services/api/grpc/handlers/receiver/helpers.go), the loop over the map h.peers.All(): entries (id, name) in ITERATION order (unspecified in Go), `acc` = the result variable so far; model counterpart: `Dirk.Dkg.senderId (the name → id resolution it presupposes)`. -/
def senderIdLoopGen (caller : String) (acc : Nat) : List (Nat × String) → Nat
  | [] => acc
  | p :: ps => if p.2 = caller then p.1 else senderIdLoopGen caller acc ps

/-- `senderID` (services/api/grpc/handlers/receiver/helpers.go), for a context that carries the client name `caller`; the result variable starts as 0 (`var senderID uint64`); model counterpart: `Dirk.Dkg.senderId (the name → id resolution it presupposes)`. -/
def senderIdGen (peers : List (Nat × String)) (caller : String) : Nat :=
  senderIdLoopGen caller 0 peers

/-- `senderID` (services/api/grpc/handlers/receiver/helpers.go), the whole function; `client` = ctx.Value(&interceptors.ClientName{}) if it is a string (`none`: the loop is skipped); model counterpart: `Dirk.Dkg.senderId (the name → id resolution it presupposes)`. -/
def senderIdCtxGen (client : Option String) (peers : List (Nat × String)) : Nat :=
  match client with
  | none => 0
  | some caller => senderIdGen peers caller

/-- the guards of `senderID`, as written in the source, in order -/
def senderIdGuards : List String := [
  "var senderID uint64",
  "client, ok := ctx.Value(&interceptors.ClientName{}).(string); ok =>",
  "  for id, peer := range h.peers.All() {  [map: iteration order unspecified]",
  "    peer.Name == client => senderID = id; break",
  "  }",
  "return senderID"
]

/-- `OnCommit` (services/process/standard/service.go), the loop over generation.participants: `false` = some iteration refuses; model counterpart: `Dirk.Dkg.onCommit`. -/
def commitListedGen : List (Bool × Bool) → Bool
  | [] => true
  | p :: ps =>
    if (¬ p.1) ∨ (¬ p.2) then false
    else commitListedGen ps

/-- `OnCommit` (services/process/standard/service.go), the conditions between the lookup of the generation and the key aggregation, `true` = none of them refuses.
    `nSecrets`: len(generation.sharedSecrets); `nVvecs`: len(generation.sharedVVecs); `nParticipants`: len(generation.participants);
    `listed`: per listed participant, in order, (its ID is a key of sharedSecrets, its ID is a key of sharedVVecs); model counterpart: `Dirk.Dkg.onCommit`. -/
def commitAcceptsGen (nSecrets nVvecs nParticipants : Nat) (listed : List (Bool × Bool)) : Bool :=
  if nSecrets ≠ nParticipants then false
  else if nVvecs ≠ nParticipants then false
  else if ¬ commitListedGen listed then false
  else true

/-- the guards of `OnCommit`, as written in the source, in order -/
def commitAcceptsGuards : List String := [
  "generation, err := s.getGeneration(ctx, account); errors.Is(err, ErrNotFound) => refuse  [getGeneration returns (nil, ErrNotFound) or (generation, nil)]",
  "len(generation.sharedSecrets) != len(generation.participants) => refuse",
  "len(generation.sharedVVecs) != len(generation.participants) => refuse",
  "for _, participant := range generation.participants {",
  "  _, haveSecret := generation.sharedSecrets[participant.ID]",
  "  _, haveVVec := generation.sharedVVecs[participant.ID]",
  "  !haveSecret || !haveVVec => refuse",
  "}",
  "[translation stops at: privateKey := bls.SecretKey{}]"
]

/-- `getGeneration` (services/process/standard/generation.go), the one guard that reads the clock.  `now - started`: time.Since(generation.processStarted) (monotonic clock: never negative,
    so the truncated subtraction of Nat is exact); `timeout`: s.generationTimeout (a Duration; the comparison is between Durations); model counterpart: `Dirk.Dkg.active`. -/
def generationExpiredGen (now started timeout : Nat) : Bool :=
  decide ((now - started) > timeout)

/-- `getGeneration` (services/process/standard/generation.go), the whole function: (a generation is returned, the map entry is deleted); `present`: the account has an entry in s.generations; model counterpart: `Dirk.Dkg.active`. -/
def getGenerationGen (present : Bool) (now started timeout : Nat) : Bool × Bool :=
  if ¬ present then (false, false)
  else if (now - started) > timeout then (false, true)
  else (true, false)

/-- the guards of `getGeneration`, as written in the source, in order -/
def generationExpiredGuards : List String := [
  "generator, exists := s.generations[account]  [map lookup: exists ↦ present]",
  "!exists => return nil, ErrNotFound",
  "time.Since(generator.processStarted) > s.generationTimeout => delete(s.generations, account); return nil, ErrNotFound",
  "return generator, nil"
]

/-- `Suitable` (services/peers/static/service.go), the guards before the first allocation, `true` = one of them refuses.
    `threshold`: the uint32 parameter; `npeers`: len(s.peers); model counterpart: `Dirk.suitableAlloc`. -/
def suitableRefusesGen (threshold npeers : Nat) : Bool :=
  if threshold > npeers then true
  else false

/-- `Suitable` (services/peers/static/service.go), … and the size of the first allocation (`make`) if none of them does: `none` = refused before anything is allocated; model counterpart: `Dirk.suitableAlloc`. -/
def suitableAllocGen (threshold npeers : Nat) : Option Nat :=
  if suitableRefusesGen threshold npeers then none else some threshold

/-- the guards of `Suitable`, as written in the source, in order -/
def suitableRefusesGuards : List String := [
  "uint64(threshold) > uint64(len(s.peers)) => refuse",
  "[skipped local: suitable := uint32(0)]",
  "[first allocation: res := make([]*core.Endpoint, threshold)]"
]

/-- `storeSlashingProtection` (slashingprotection.go), the record the merge of one file entry starts from, as (slot, source, target).
    `fromFile`: the record already in the map being built (the key was seen earlier in this file); `fromStore`: the key's record in
    the export of the existing store; model counterpart: `Dirk.mergeEntries (the start record)`. -/
def importStartGen (fromFile fromStore : Option (Int × Int × Int)) : Int × Int × Int :=
  match fromFile with
  | some kp => kp
  | none =>
    let curSlot : Int := (-1)
    let curSrc : Int := (-1)
    let curTgt : Int := (-1)
    match fromStore with
    | none => (curSlot, curSrc, curTgt)
    | some ex =>
      let curSrc : Int := ex.2.1
      let curTgt : Int := ex.2.2
      let curSlot : Int := ex.1
      (curSlot, curSrc, curTgt)

/-- the guards of `storeSlashingProtection`, as written in the source, in order -/
def importStartGuards : List String := [
  "[key] bytes, err := hex.DecodeString(strings.TrimPrefix(protection.Data[i].PublicKey, \"0x\")); err != nil => refuse",
  "[key] var key [48]byte",
  "[key] copy(key[:], bytes)",
  "keyProtection, exists := protectionMap[key]  [map lookup: the record ↦ fromFile]",
  "!exists => {",
  "  keyProtection = &rules.SlashingProtection{ HighestAttestedSourceEpoch: -1, HighestAttestedTargetEpoch: -1, HighestProposedSlot: -1, }",
  "  [existingProtection, err := rulesSvc.ExportSlashingProtection(ctx)]",
  "  existingKeyProtection, exists := existingProtection[key]; exists => {  [map lookup: the record ↦ fromStore]",
  "    keyProtection.HighestAttestedSourceEpoch = existingKeyProtection.HighestAttestedSourceEpoch",
  "    keyProtection.HighestAttestedTargetEpoch = existingKeyProtection.HighestAttestedTargetEpoch",
  "    keyProtection.HighestProposedSlot = existingKeyProtection.HighestProposedSlot",
  "  }",
  "}",
  "[loops over the entry: attestations;blocks;]",
  "protectionMap[key] = keyProtection"
]

/-- `storeSlashingProtection` (slashingprotection.go), one iteration of the loop over the entry's signed attestations.  `curSrc`, `curTgt`: the record's HighestAttestedSourceEpoch / …TargetEpoch;
    `src`, `tgt`: strconv.ParseInt(attestation.SourceEpoch / .TargetEpoch, 10, 64) (`none` = it returned an error);
    result `none` = the function returns an error, else the two fields after the iteration; model counterpart: `Dirk.foldAtts (one element)`. -/
def importAttStepGen (curSrc curTgt : Int) (src tgt : Option Int) : Option (Int × Int) :=
  match src with
  | none => none
  | some v_sourceEpoch =>
    if v_sourceEpoch < 0 then none else
    let curSrc : Int := if v_sourceEpoch > curSrc then v_sourceEpoch else curSrc
    match tgt with
    | none => none
    | some v_targetEpoch =>
      if v_targetEpoch < 0 then none else
      let curTgt : Int := if v_targetEpoch > curTgt then v_targetEpoch else curTgt
      some (curSrc, curTgt)

/-- the guards of `storeSlashingProtection`, as written in the source, in order -/
def importAttStepGuards : List String := [
  "for _, attestation := range protection.Data[i].SignedAttestations {",
  "  sourceEpoch, err := strconv.ParseInt(attestation.SourceEpoch, 10, 64); err != nil => refuse  [strconv.ParseInt(attestation.SourceEpoch, 10, 64) ↦ src]",
  "  sourceEpoch < 0 => refuse",
  "  sourceEpoch > keyProtection.HighestAttestedSourceEpoch => keyProtection.HighestAttestedSourceEpoch = sourceEpoch",
  "  targetEpoch, err := strconv.ParseInt(attestation.TargetEpoch, 10, 64); err != nil => refuse  [strconv.ParseInt(attestation.TargetEpoch, 10, 64) ↦ tgt]",
  "  targetEpoch < 0 => refuse",
  "  targetEpoch > keyProtection.HighestAttestedTargetEpoch => keyProtection.HighestAttestedTargetEpoch = targetEpoch",
  "}"
]

/-- `storeSlashingProtection` (slashingprotection.go), one iteration of the loop over the entry's signed blocks.  `curSlot`: the record's HighestProposedSlot;
    `slot`: strconv.ParseInt(proposal.Slot, 10, 64) (`none` = it returned an error);
    result `none` = the function returns an error, else the field after the iteration; model counterpart: `Dirk.foldBlocks (one element)`. -/
def importBlockStepGen (curSlot : Int) (slot : Option Int) : Option Int :=
  match slot with
  | none => none
  | some v_slot =>
    if v_slot < 0 then none else
    let curSlot : Int := if v_slot > curSlot then v_slot else curSlot
    some curSlot

/-- the guards of `storeSlashingProtection`, as written in the source, in order -/
def importBlockStepGuards : List String := [
  "for _, proposal := range protection.Data[i].SignedBlocks {",
  "  slot, err := strconv.ParseInt(proposal.Slot, 10, 64); err != nil => refuse  [strconv.ParseInt(proposal.Slot, 10, 64) ↦ slot]",
  "  slot < 0 => refuse",
  "  slot > keyProtection.HighestProposedSlot => keyProtection.HighestProposedSlot = slot",
  "}"
]

/-- rules/service.go: the enumerators of `rules.Result` with the values their iota block gives them, in declaration order -/
def rulesResultValuesGen : List (String × Nat) := [("UNKNOWN", 0), ("APPROVED", 1), ("DENIED", 2), ("FAILED", 3)]

/-- core/result.go: the enumerators of `core.Result` with the values their iota block gives them, in declaration order -/
def coreResultValuesGen : List (String × Nat) := [("ResultUnknown", 0), ("ResultSucceeded", 1), ("ResultDenied", 2), ("ResultFailed", 3)]

/-- the zero value of `core.Result` (what `make([]core.Result, n)` fills the slice with) is the enumerator ResultUnknown -/
def coreResultZeroIsUnknownGen : Bool := true

/-- `SignBeaconAttestations` (services/signer/standard/signbeaconattestations.go), ONE visited position of the final (signing) loop: the `core.Result` value written to `results[i]` and whether `signatures[i]` is assigned.
    `verdict`: the value of `rulesResults[i]` (a `rules.Result`; a value no arm names falls out of the switch, as in Go);
    rootErr, signingRootErr, signErr: the allow-listed calls HashTreeRoot, generateSigningRoot, signRoot returned an error, in source order; model counterpart: `Dirk.signEvs (one element)`. -/
def signLoopPosAttGen (verdict : Nat) (rootErr signingRootErr signErr : Bool) : Nat × Bool :=
  if verdict = 0 then (3, false)
  else if verdict = 2 then (2, false)
  else if verdict = 3 then (3, false)
  else if verdict = 1 then
    if rootErr then (3, false)
    else if signingRootErr then (3, false)
    else if signErr then (3, false)
    else (1, true)
  else
    if rootErr then (3, false)
    else if signingRootErr then (3, false)
    else if signErr then (3, false)
    else (1, true)

/-- the guards of `SignBeaconAttestations`, as written in the source, in order -/
def signLoopPosAttGuards : List String := [
  "switch rulesResults[i]",
  "case rules.UNKNOWN: results[i] = core.ResultFailed; continue",
  "case rules.DENIED: results[i] = core.ResultDenied; continue",
  "case rules.FAILED: results[i] = core.ResultFailed; continue",
  "case rules.APPROVED: (nothing: falls out of the switch)",
  "attestation := &spec.AttestationData{…}",
  "copy(attestation.BeaconBlockRoot[:], data[i].BeaconBlockRoot)",
  "copy(attestation.Source.Root[:], data[i].Source.Root)",
  "copy(attestation.Target.Root[:], data[i].Target.Root)",
  "dataRoot, err := attestation.HashTreeRoot()",
  "if err != nil { results[i] = core.ResultFailed; continue }",
  "signingRoot, err := generateSigningRoot(ctx, dataRoot[:], data[i].Domain)",
  "if err != nil { results[i] = core.ResultFailed; continue }",
  "signature, err := signRoot(ctx, accounts[i], signingRoot[:])",
  "if err != nil { results[i] = core.ResultFailed; continue }",
  "results[i] = core.ResultSucceeded",
  "signatures[i] = signature"
]

/-- `Multisign` (services/signer/standard/multisign.go), ONE visited position of the final (signing) loop: the `core.Result` value written to `results[i]` and whether `signatures[i]` is assigned.
    `verdict`: the value of `rulesResults[i]` (a `rules.Result`; a value no arm names falls out of the switch, as in Go);
    signingRootErr, signErr: the allow-listed calls generateSigningRoot, signRoot returned an error, in source order; model counterpart: `Dirk.signGenerics (one element)`. -/
def signLoopPosMultiGen (verdict : Nat) (signingRootErr signErr : Bool) : Nat × Bool :=
  if verdict = 0 then (3, false)
  else if verdict = 2 then (2, false)
  else if verdict = 3 then (3, false)
  else if verdict = 1 then
    if signingRootErr then (3, false)
    else if signErr then (3, false)
    else (1, true)
  else
    if signingRootErr then (3, false)
    else if signErr then (3, false)
    else (1, true)

/-- the guards of `Multisign`, as written in the source, in order -/
def signLoopPosMultiGuards : List String := [
  "switch rulesResults[i]",
  "case rules.UNKNOWN: results[i] = core.ResultFailed; continue",
  "case rules.DENIED: results[i] = core.ResultDenied; continue",
  "case rules.FAILED: results[i] = core.ResultFailed; continue",
  "case rules.APPROVED: (nothing: falls out of the switch)",
  "signingRoot, err := generateSigningRoot(ctx, data[i].Data, data[i].Domain)",
  "if err != nil { results[i] = core.ResultFailed; continue }",
  "signature, err := signRoot(ctx, accounts[i], signingRoot[:])",
  "if err != nil { results[i] = core.ResultFailed; continue }",
  "results[i] = core.ResultSucceeded",
  "signatures[i] = signature"
]

/-- `SignBeaconAttestations` (services/signer/standard/signbeaconattestations.go), the length handed to util.Scatter for the final (signing) loop, as written; model counterpart: `Dirk.finishKeyedShort (the `take k`, `padUnknown`)`. -/
def signLoopBoundAttGen : String := "len(rulesResults)"

/-- … the header of the `for` loop inside its closure (`func(offset int, entries int, _ *sync.RWMutex) (any, error)`) -/
def signLoopIndexAttGen : String := "i := offset; i < offset+entries; i++"

/-- … the tag of the switch in its body, and the statement that defines the variable it reads -/
def signLoopSwitchTagAttGen : String := "rulesResults[i]"
def signLoopVerdictsAttGen : String := "rulesResults := s.ruler.RunRules(ctx, credentials, ruler.ActionSignBeaconAttestation, rulesData)"

/-- … how the returned result slice is created, the fill loops directly after that, and how the returned signature slice is created -/
def signLoopInitAttGen : String := "results := make([]core.Result, len(data))"
def signLoopInitFillAttGen : List String := ["for i := range results { results[i] = core.ResultUnknown }"]
def signLoopSigInitAttGen : String := "signatures := make([][]byte, len(data))"

/-- the guards of `SignBeaconAttestations`, as written in the source, in order -/
def signLoopBoundAttGuards : List String := [
  "results := make([]core.Result, len(data))",
  "for i := range results { results[i] = core.ResultUnknown }",
  "signatures := make([][]byte, len(data))",
  "rulesResults := s.ruler.RunRules(ctx, credentials, ruler.ActionSignBeaconAttestation, rulesData)",
  "util.Scatter(len(rulesResults), func(offset int, entries int, _ *sync.RWMutex) (any, error) { for i := offset; i < offset+entries; i++ { switch rulesResults[i] … } })",
  "return results, signatures"
]

/-- `Multisign` (services/signer/standard/multisign.go), the length handed to util.Scatter for the final (signing) loop, as written; model counterpart: `Dirk.multisignShort (the `take k`, `padUnknown`)`. -/
def signLoopBoundMultiGen : String := "len(rulesResults)"

/-- … the header of the `for` loop inside its closure (`func(offset int, entries int, _ *sync.RWMutex) (any, error)`) -/
def signLoopIndexMultiGen : String := "i := offset; i < offset+entries; i++"

/-- … the tag of the switch in its body, and the statement that defines the variable it reads -/
def signLoopSwitchTagMultiGen : String := "rulesResults[i]"
def signLoopVerdictsMultiGen : String := "rulesResults := s.ruler.RunRules(ctx, credentials, ruler.ActionSign, rulesData)"

/-- … how the returned result slice is created, the fill loops directly after that, and how the returned signature slice is created -/
def signLoopInitMultiGen : String := "results := make([]core.Result, len(data))"
def signLoopInitFillMultiGen : List String := ["for i := range results { results[i] = core.ResultUnknown }"]
def signLoopSigInitMultiGen : String := "signatures := make([][]byte, len(data))"

/-- the guards of `Multisign`, as written in the source, in order -/
def signLoopBoundMultiGuards : List String := [
  "results := make([]core.Result, len(data))",
  "for i := range results { results[i] = core.ResultUnknown }",
  "signatures := make([][]byte, len(data))",
  "rulesResults := s.ruler.RunRules(ctx, credentials, ruler.ActionSign, rulesData)",
  "util.Scatter(len(rulesResults), func(offset int, entries int, _ *sync.RWMutex) (any, error) { for i := offset; i < offset+entries; i++ { switch rulesResults[i] … } })",
  "return results, signatures"
]

/-- `fetchAccount` (services/signer/standard/helpers.go), the `core.Result` value returned and WHICH fetch was made on the way (0 none, 1 `FetchAccount(name)`, 2 `FetchAccountByKey(pubKey)`).
    nameEmpty: `name == ""`; keyNil: `pubKey == nil`; fetchByNameErr / fetchByKeyErr: that call returned an error; model counterpart: `Dirk.fetchAccount`. -/
def fetchAccountGen (nameEmpty keyNil fetchByNameErr fetchByKeyErr : Bool) : Nat × Nat :=
  if nameEmpty && keyNil then (2, 0)
  else if keyNil then
    if fetchByNameErr then (2, 1)
    else (1, 1)
  else if fetchByKeyErr then (2, 2)
  else (1, 2)

/-- the guards of `fetchAccount`, as written in the source, in order -/
def fetchAccountGuards : List String := [
  "if name == \"\" && pubKey == nil { return nil, nil, core.ResultDenied }",
  "var wallet e2wtypes.Wallet",
  "var account e2wtypes.Account",
  "var err error",
  "if pubKey == nil { wallet, account, err = s.fetcher.FetchAccount(ctx, name) } else { wallet, account, err = s.fetcher.FetchAccountByKey(ctx, pubKey) }",
  "if err != nil { return nil, nil, core.ResultDenied }",
  "return wallet, account, core.ResultSucceeded"
]

/-- `checkAccess` (services/signer/standard/helpers.go), the `core.Result` value returned.  checkerSaysYes: the result of `s.checker.Check(ctx, credentials, accountName, action)` (the function's own parameters, in this order); model counterpart: `Dirk.preCheck (the permission check)`. -/
def checkAccessGen (checkerSaysYes : Bool) : Nat :=
  if checkerSaysYes then 1
  else 2

/-- the guards of `checkAccess`, as written in the source, in order -/
def checkAccessGuards : List String := [
  "if s.checker.Check(ctx, credentials, accountName, action) { return core.ResultSucceeded }",
  "return core.ResultDenied"
]

/-- `unlockAccount` (services/signer/standard/helpers.go), the `core.Result` value returned.  walletNil / accountNil: the parameter is nil; isLocker: `account.(e2wtypes.AccountLocker)` holds;
    isUnlockedErr, isUnlocked: what `locker.IsUnlocked(ctx)` returned (error?, value); unlockErr, unlockOk: what
    `s.unlocker.UnlockAccount(ctx, wallet, account)` returned (error?, value); model counterpart: `Dirk.preCheck (its tail: `lockStateFail`, `acct.unlockable`)`. -/
def unlockAccountGen (walletNil accountNil isLocker isUnlockedErr isUnlocked unlockErr unlockOk : Bool) : Nat :=
  if walletNil then 2
  else if accountNil then 2
  else if !isLocker then 1
  else if isUnlockedErr then 3
  else if isUnlocked then 1
  else if unlockErr then 3
  else if !unlockOk then 2
  else 1

/-- the guards of `unlockAccount`, as written in the source, in order -/
def unlockAccountGuards : List String := [
  "if wallet == nil { return core.ResultDenied }",
  "if account == nil { return core.ResultDenied }",
  "locker, isLocker := account.(e2wtypes.AccountLocker)",
  "if !isLocker { return core.ResultSucceeded }",
  "unlocked, err := locker.IsUnlocked(ctx)",
  "if err != nil { return core.ResultFailed }",
  "if unlocked { return core.ResultSucceeded }",
  "unlocked, err = s.unlocker.UnlockAccount(ctx, wallet, account)",
  "if err != nil { return core.ResultFailed }",
  "if !unlocked { return core.ResultDenied }",
  "return core.ResultSucceeded"
]

/-- `preCheck` (services/signer/standard/helpers.go), the composition: the `core.Result` value returned, given what the three callees returned (as `core.Result` values).
    fetchRes / checkRes / unlockRes: the result of `s.fetchAccount(ctx, name, pubKey)` / `s.checkAccess(ctx, credentials, <preCheckCheckedNameGen>, action)` /
    `s.unlockAccount(ctx, wallet, account)` with wallet, account the values the fetchAccount call returned; model counterpart: `Dirk.preCheck`. -/
def preCheckGen (fetchRes checkRes unlockRes : Nat) : Nat :=
  if (fetchRes != 1) then fetchRes
  else if (checkRes != 1) then checkRes
  else if (unlockRes != 1) then unlockRes
  else 1

/-- … the expression handed to `checkAccess` as the account name, every local printed as its role (wallet, account = what the fetchAccount call returned) -/
def preCheckCheckedNameGen : String := "fmt.Sprintf(\"%s/%s\", wallet.Name(), account.Name())"

/-- … the same expression as a function of `wallet.Name()`, `account.Name()` and preCheck's string parameters -/
def preCheckCheckedNameFnGen (walletName accountName name action : String) : String :=
  walletName ++ "/" ++ accountName

/-- … the callees, in call order (each is a top-level statement of the body, made at most once) -/
def preCheckOrderGen : List String := ["fetchAccount", "checkAccess", "unlockAccount"]

/-- the guards of `preCheck`, as written in the source, in order -/
def preCheckGuards : List String := [
  "wallet, account, result := s.fetchAccount(ctx, name, pubKey)",
  "if result != core.ResultSucceeded { return nil, nil, result }",
  "accountName := fmt.Sprintf(\"%s/%s\", wallet.Name(), account.Name())",
  "result = s.checkAccess(ctx, credentials, accountName, action)",
  "if result != core.ResultSucceeded { return nil, nil, result }",
  "result = s.unlockAccount(ctx, wallet, account)",
  "if result != core.ResultSucceeded { return nil, nil, result }",
  "return wallet, account, core.ResultSucceeded"
]

/-- (fixed text, not translated from any source) what a Go loop `for i := range xs { if C₁(i) { r[i] = v₁; return r }; …; if Cₘ(i) { r[i] = vₘ; return r } }`
    does, given for each guard IN SOURCE ORDER the first index at which its condition holds (`none`: at no index) and
    the value it writes: it returns at the SMALLEST of these indices, through the guard that comes first in the source
    among those whose condition holds there; `none`: the loop runs to its end.  (Dirk/Props/KernelsEq.lean,
    `scanExit_eq_run`, proves this against a step-by-step execution of such a loop.) -/
def scanExitGen : List (Option Nat × Nat) → Option (Nat × Nat)
  | [] => none
  | (none, _) :: rest => scanExitGen rest
  | (some i, v) :: rest =>
    match scanExitGen rest with
    | some (j, w) => if j < i then some (j, w) else some (i, v)
    | none => some (i, v)

/-- (fixed text) `var key [w]byte; copy(key[:], pubKey)`: the first w bytes of pubKey, zero padded -/
def keyOfWidthGen (w : Nat) (pubKey : Bytes) : Bytes := (pubKey ++ List.replicate w 0).take w

/-- `RunRules` (services/ruler/golang/runner.go), the checks made before any lock is taken.  `none`: they pass (the locks are taken if `locking`, and `runRules` is called);
    `some l`: the list returned early, as `rules.Result` enumerator values (`rulesResultValuesGen`).
    n = `len(rulesData)`; locking = the condition of the locking `if` (`runRulesIsLockingGen action`).  Each `first…` parameter is the
    least i < n at which the corresponding condition, read as a predicate of the index i alone, holds (`none`: at no i < n):
    firstNil: `rulesData[i] == nil`; firstNilData: `rulesData[i].Data == nil`; firstEmptyKey: `len(rulesData[i].PubKey) == 0`;
    firstDupKey: `pubKeyMap[key]` exists, i.e. the key of entry i (`runRulesKeyGen`) equals the key of an entry j < i — the map is
    created empty before the loop and entry j's key is inserted at the end of iteration j, the only writes to it.
    Where the Go cannot evaluate a condition (a guard before it returns first, or an earlier loop has returned) its value is
    irrelevant: `scanExitGen` only looks at the smallest index, ties going to the guard that comes first in the source.
    One `match scanExitGen […]` per Go loop, in source order, the guards of a loop in source order; model counterpart: `Dirk.firstDup / the refusals of Dirk.signAtts, Dirk.multisign before the rules`. -/
def runRulesValidateGen (n : Nat) (firstNil firstNilData : Option Nat) (locking : Bool) (firstEmptyKey firstDupKey : Option Nat) : Option (List Nat) :=
  if n = 0 then some [3]
  else match scanExitGen [(firstNil, 3), (firstNilData, 3)] with
  | some (i, v) => some ((List.replicate n 0).set i v)
  | none =>
    if locking then
      (match scanExitGen [(firstEmptyKey, 3), (firstDupKey, 3)] with
       | some (i, v) => some ((List.replicate n 0).set i v)
       | none =>
         none)
    else
      none

/-- … the actions for which the checks on the keys are made and the locks are taken: the names compared with in the condition of the
    locking `if` (`action == ruler.ActionSign || action == ruler.ActionSignBeaconProposal || action == ruler.ActionSignBeaconAttestation`), by VALUE (services/ruler/service.go: declared with a string literal, and — being variables — assigned to nowhere in the
    repository's non-test files), in source order -/
def runRulesLockingActionsGen : List String := ["Sign", "Sign beacon proposal", "Sign beacon attestation"]

/-- … that condition itself -/
def runRulesIsLockingGen (action : String) : Bool :=
  action == "Sign" || action == "Sign beacon proposal" || action == "Sign beacon attestation"

/-- … how the key of the duplicate check's map is built (locals printed as their roles), its width in bytes, and the same as a function -/
def runRulesDupKeyExprGen : String := "var key [48]byte; copy(key[:], rulesData[i].PubKey)"
def runRulesKeyWidthGen : Nat := 48
def runRulesKeyGen (pubKey : Bytes) : Bytes := keyOfWidthGen 48 pubKey

/-- the guards of `RunRules`, as written in the source, in order -/
def runRulesValidateGuards : List String := [
  "if len(rulesData) == 0 { return []rules.Result{rules.FAILED} }",
  "results := make([]rules.Result, len(rulesData))",
  "for i := range rulesData { results[i] = rules.UNKNOWN }",
  "for i := range rulesData { if rulesData[i] == nil { results[i] = rules.FAILED; return results }; if rulesData[i].Data == nil { results[i] = rules.FAILED; return results } }",
  "if action == ruler.ActionSign || action == ruler.ActionSignBeaconProposal || action == ruler.ActionSignBeaconAttestation {",
  "pubKeyMap := make(map[[48]byte]bool)",
  "for i := range rulesData { var key [48]byte; if len(rulesData[i].PubKey) == 0 { results[i] = rules.FAILED; return results }; copy(key[:], rulesData[i].PubKey); if _, exists := pubKeyMap[key]; exists { results[i] = rules.FAILED; return results }; pubKeyMap[key] = true }",
  "}",
  "return s.runRules(ctx, credentials, action, rulesData)"
]

/-- `RunRules` (services/ruler/golang/runner.go), the locker calls and the rules call of the locking actions, in source order, loops made explicit, locals printed as
    their roles (`keyW(PubKey)` = `var key [W]byte; copy(key[:], rulesData[i].PubKey)`).  Nothing else in the function touches the locker,
    there is no `go` statement, no return between the first and the last of them except the one shown, every loop is `for i := range rulesData`; model counterpart: `Dirk.lockWrap (Model/LockTrace.lean), the thread program of Model/Conc.lean`. -/
def runRulesLockProtocolGen : List String := ["PreLock", "for-each-in-order: Lock(key48(PubKey)); defer Unlock(key48(PubKey))", "PostLock", "return runRules"]

/-- … the width of the key handed to `Lock` -/
def runRulesLockKeyWidthGen : Nat := 48

/-- … the calls this makes for the concrete public keys `keys` (in request order) when the rules call makes the calls `inner`,
    DERIVED from the list above: a `for i := range` loop visits the keys in order; a `defer` registered in such a loop runs when the
    function returns — after the rules call — last registered first, hence `keys.reverse` -/
def lockCallsTokGen {τ : Type} (pre post : τ) (lock unlock : Bytes → τ) (keys : List Bytes) (inner : List τ) : List τ :=
  [pre] ++ keys.map (fun k => lock (keyOfWidthGen 48 k)) ++ [post] ++ inner ++ keys.reverse.map (fun k => unlock (keyOfWidthGen 48 k))

/-- … the same with strings as tokens -/
def lockTokGen (k : Bytes) : String := "lock " ++ toString k
def unlockTokGen (k : Bytes) : String := "unlock " ++ toString k
def lockCallsGen (keys : List Bytes) (inner : List String) : List String :=
  lockCallsTokGen "pre" "post" lockTokGen unlockTokGen keys inner

/-- the guards of `RunRules`, as written in the source, in order -/
def runRulesLockProtocolGuards : List String := [
  "if action == ruler.ActionSign || action == ruler.ActionSignBeaconProposal || action == ruler.ActionSignBeaconAttestation {",
  "s.locker.PreLock()",
  "for i := range rulesData { var key [48]byte; copy(key[:], rulesData[i].PubKey); s.locker.Lock(key); defer s.locker.Unlock(key) }",
  "s.locker.PostLock()",
  "}",
  "return s.runRules(ctx, credentials, action, rulesData)"
]

/-- `runRules` (services/ruler/golang/runner.go), its first statement, the choice of the path: 1 = the batch path (`return s.runRulesForMultipleBeaconAttestations(ctx, credentials, rulesData)`),
    0 = the per-entry path (the rest of the function).  n = `len(rulesData)`; isAttestation: `action == ruler.ActionSignBeaconAttestation`; model counterpart: `Dirk.rulesKeyed (single rule vs. Dirk.onAttestBatch)`. -/
def runRulesPathGen (n : Nat) (isAttestation : Bool) : Nat :=
  if decide (n > 1) && isAttestation then 1
  else 0

/-- … the value of `ruler.ActionSignBeaconAttestation` (services/ruler/service.go) -/
def runRulesAttestationActionGen : String := "Sign beacon attestation"

/-- the guards of `runRules`, as written in the source, in order -/
def runRulesPathGuards : List String := [
  "if len(rulesData) > 1 && action == ruler.ActionSignBeaconAttestation { return s.runRulesForMultipleBeaconAttestations(ctx, credentials, rulesData) }",
  "(the per-entry path)"
]

/-- `ListAccounts` (services/lister/standard/listaccounts.go), the string handed to `regexp.Compile`, as a function of the account part of the path (the second result of `e2wallet.WalletAndAccountNames(path)`):
    every assignment to that local between the call that produced it and `regexp.Compile`, in source order, as one `let` each
    (`if C { x = e }` ↦ `if C then e else x`; `strings.HasPrefix` / `HasSuffix` ↦ `String.startsWith` / `endsWith`; `fmt.Sprintf` of `%s` verbs ↦ `++`); model counterpart: `Dirk.listerAnchor`. -/
def listAnchorGen (accountPath : String) : String :=
  let p1 := if !(String.startsWith accountPath "^") then "^" ++ accountPath else accountPath
  let p2 := if !(String.endsWith p1 "$") then p1 ++ "$" else p1
  p2

/-- the guards of `ListAccounts`, as written in the source, in order -/
def listAnchorGuards : List String := [
  "if !strings.HasPrefix(accountPath, \"^\") { accountPath = fmt.Sprintf(\"^%s\", accountPath) }",
  "if !strings.HasSuffix(accountPath, \"$\") { accountPath = fmt.Sprintf(\"%s$\", accountPath) }",
  "accountRegex, err = regexp.Compile(accountPath)"
]

/-- `ListAccounts` (services/lister/standard/listaccounts.go), the body of the path loop up to the account loop, for ONE path: 0 = the path is skipped (`continue`, or the account loop is not reached),
    1 = the account loop is reached with the regular expression nil (every account of the wallet is a candidate), 2 = it is reached with a compiled
    expression (the candidates are the accounts it matches).  namesErr: `e2wallet.WalletAndAccountNames(path)` returned an error; walletEmpty / accountEmpty:
    its first / second result is "" (the second: as returned, before the anchoring); compileErr: `regexp.Compile(listAnchorGen …)` returned an error (then
    the expression is nil); fetchWalletErr / fetchAccountsErr: `s.fetcher.FetchWallet(ctx, path)` / `s.fetcher.FetchAccounts(ctx, wallet.Name())` returned an error.
    An input is only read where the Go has made the call.  `break`, `return`, labels are refused; model counterpart: `Dirk.listerPath`. -/
def listPathGen (namesErr walletEmpty accountEmpty compileErr fetchWalletErr fetchAccountsErr : Bool) : Nat :=
  if namesErr then 0
  else if walletEmpty then 0
  else if !accountEmpty then
    if compileErr then 0
    else if fetchWalletErr then 0
    else if fetchAccountsErr then 0
    else 2
  else if fetchWalletErr then 0
  else if fetchAccountsErr then 0
  else 1

/-- the guards of `ListAccounts`, as written in the source, in order -/
def listPathGuards : List String := [
  "walletName, accountPath, err := e2wallet.WalletAndAccountNames(path)",
  "if err != nil { continue }",
  "if walletName == \"\" { continue }",
  "var accountRegex *regexp.Regexp",
  "if accountPath != \"\" { if !strings.HasPrefix(accountPath, \"^\") { accountPath = fmt.Sprintf(\"^%s\", accountPath) }; if !strings.HasSuffix(accountPath, \"$\") { accountPath = fmt.Sprintf(\"%s$\", accountPath) }; accountRegex, err = regexp.Compile(accountPath); if err != nil { continue } }",
  "wallet, err := s.fetcher.FetchWallet(ctx, path)",
  "if err != nil { continue }",
  "walletAccounts, err := s.fetcher.FetchAccounts(ctx, wallet.Name())",
  "if err != nil { continue }",
  "for _, walletAccount := range walletAccounts { … }"
]

/-- `ListAccounts` (services/lister/standard/listaccounts.go), the body of the account loop, for ONE account of the wallet: is `accounts = append(accounts, walletAccount)` executed?  hasRegex: the regular
    expression is not nil (`listPathGen … = 2`); regexMatches: `MatchString(<listShapeGen: regex matched against>)` (only called where the expression is known
    to be non-nil); accessOk: `s.checkAccess(ctx, credentials, <checkAccess name>, <checkAccess action>)` returned `core.ResultSucceeded`; hasPubKey: the type
    assertion `walletAccount.(e2wtypes.AccountPublicKeyProvider)` holds; rulesApproved: `s.ruler.RunRules(ctx, credentials, <RunRules action>, <RunRules data>)[0]`
    is `rules.APPROVED`.  An input is only read where the Go has made the call.  `break`, `return`, a second append are refused; model counterpart: `Dirk.listAccounts (the filter predicate)`. -/
def listAccountGen (hasRegex regexMatches accessOk hasPubKey rulesApproved : Bool) : Bool :=
  if !hasRegex || regexMatches then
    if !accessOk then false
    else if !hasPubKey then false
    else if rulesApproved then true
    else false
  else false

/-- … the name handed to `checkAccess`, as a function of `wallet.Name()` and `walletAccount.Name()` -/
def listCheckedNameFnGen (walletName accountName : String) : String :=
  walletName ++ "/" ++ accountName

/-- … the action handed to `checkAccess`, by value (services/ruler/service.go) -/
def listActionGen : String := "Access account"

/-- the guards of `ListAccounts`, as written in the source, in order -/
def listAccountGuards : List String := [
  "if accountRegex == nil || accountRegex.MatchString(walletAccount.Name()) { accountName := fmt.Sprintf(\"%s/%s\", wallet.Name(), walletAccount.Name()); checkRes := s.checkAccess(ctx, credentials, accountName, ruler.ActionAccessAccount); if checkRes != core.ResultSucceeded { continue }; var pubKey []byte; pubKeyProvider, isProvider := walletAccount.(e2wtypes.AccountPublicKeyProvider); if !isProvider { continue }; pubKey = pubKeyProvider.PublicKey().Marshal(); if compositePubKeyProvider, isProvider := walletAccount.(e2wtypes.AccountCompositePublicKeyProvider); isProvider { pubKey = compositePubKeyProvider.CompositePublicKey().Marshal() }; data := &rules.AccessAccountData{ Paths: paths, }; rulesData := []*ruler.RulesData{ { WalletName: wallet.Name(), AccountName: walletAccount.Name(), PubKey: pubKey, Data: data, }, }; results := s.ruler.RunRules(ctx, credentials, ruler.ActionAccessAccount, rulesData); if results[0] == rules.APPROVED { accounts = append(accounts, walletAccount) } }"
]

/-- `ListAccounts` (services/lister/standard/listaccounts.go), canonical facts, every local printed as its ROLE (path = the path loop's variable; walletName, accountPath = the results of WalletAndAccountNames; wallet = what
    FetchWallet returned; walletAccounts = what FetchAccounts returned; walletAccount = the account loop's variable; accounts = the slice returned), string and data
    locals inlined, `ruler.ActionX` by value (services/ruler/service.go).  Both loops are plain `for _, x := range` loops (in order); the only write to `accounts`
    is the append shown, so the result is the concatenation over the paths, in path order, of the appended accounts in the order FetchAccounts gave them; model counterpart: `Dirk.listAccounts (what is handed to which call; flatMap over the paths, filter over the accounts)`. -/
def listShapeGen : List String := [
  "nil credentials: return core.ResultFailed, nil",
  "result slice: accounts := make([]e2wtypes.Account, 0), before the path loop",
  "path loop: for _, path := range paths",
  "names: e2wallet.WalletAndAccountNames(path)",
  "wallet: FetchWallet(ctx, path)",
  "accounts of: FetchAccounts(ctx, wallet.Name())",
  "account loop: for _, walletAccount := range walletAccounts",
  "regex matched against: walletAccount.Name()",
  "checkAccess name: fmt.Sprintf(\"%s/%s\", wallet.Name(), walletAccount.Name())",
  "checkAccess action: Access account",
  "RunRules action: Access account",
  "RunRules data: []*ruler.RulesData{{WalletName: wallet.Name(), AccountName: walletAccount.Name(), PubKey: pubKey, Data: &rules.AccessAccountData{Paths: paths}}}",
  "append: accounts = append(accounts, walletAccount)",
  "finally: return core.ResultSucceeded, accounts"
]

/-- the guards of `ListAccounts`, as written in the source, in order -/
def listShapeGuards : List String := [
  "if credentials == nil { return core.ResultFailed, nil }",
  "accounts := make([]e2wtypes.Account, 0)",
  "for _, path := range paths { … }",
  "return core.ResultSucceeded, accounts"
]

/-- `validateSignBeaconAttestationsRequests` (services/api/grpc/handlers/signer/signbeaconattestations.go), the function `SignBeaconAttestations` calls on the request: the guards of its loop `for i, request := range req.GetRequests()`
    applied to ONE entry, in source order.  `some s`: the guard writes `pb.ResponseState_s` into `res.Responses[i].State` and the function
    RETURNS (later entries are not looked at); `none`: the entry passes every guard.  Inputs: entryNil: `request == nil`; accountEmpty: `request.GetAccount() == ""`; keyNil: `request.GetPublicKey() == nil`; nameHasSlash: `strings.Contains(request.GetAccount(), "/")`; dataNil: `request.GetData() == nil`; sourceNil: `request.GetData().GetSource() == nil`; targetNil: `request.GetData().GetTarget() == nil`
    (generated getters: nil-safe); model counterpart: `Dirk.handlerRejects (inside Dirk.firstRejected)`. -/
def attsEntryVerdictGen (entryNil accountEmpty keyNil nameHasSlash dataNil sourceNil targetNil : Bool) : Option String :=
  if entryNil then some "FAILED"
  else if accountEmpty && keyNil then some "DENIED"
  else if !accountEmpty && !nameHasSlash then some "DENIED"
  else if dataNil then some "DENIED"
  else if sourceNil then some "DENIED"
  else if targetNil then some "DENIED"
  else none

/-- the statements of `validateSignBeaconAttestationsRequests`'s loop the definitions above were translated from, locals printed as their roles, in order -/
def attsEntryVerdictGuards : List String := [
  "if request == nil { res.Responses[i].State = pb.ResponseState_FAILED; return }",
  "if request.GetAccount() == \"\" && request.GetPublicKey() == nil { res.Responses[i].State = pb.ResponseState_DENIED; return }",
  "if request.GetAccount() != \"\" && !strings.Contains(request.GetAccount(), \"/\") { res.Responses[i].State = pb.ResponseState_DENIED; return }",
  "if request.GetData() == nil { res.Responses[i].State = pb.ResponseState_DENIED; return }",
  "if request.GetData().GetSource() == nil { res.Responses[i].State = pb.ResponseState_DENIED; return }",
  "if request.GetData().GetTarget() == nil { res.Responses[i].State = pb.ResponseState_DENIED; return }"
]

/-- `validateMultisignRequests` (services/api/grpc/handlers/signer/multisign.go), the function `Multisign` calls on the request: the guards of its loop `for i, request := range req.GetRequests()`
    applied to ONE entry, in source order.  `some s`: the guard writes `pb.ResponseState_s` into `res.Responses[i].State` and the function
    RETURNS (later entries are not looked at); `none`: the entry passes every guard.  Inputs: entryNil: `request == nil`; accountEmpty: `request.GetAccount() == ""`; keyNil: `request.GetPublicKey() == nil`; nameHasSlash: `strings.Contains(request.GetAccount(), "/")`; dataNil: `request.GetData() == nil`; domainNil: `request.GetDomain() == nil`
    (generated getters: nil-safe); model counterpart: `the predicate of Dirk.firstRejectedSign`. -/
def msignEntryVerdictGen (entryNil accountEmpty keyNil nameHasSlash dataNil domainNil : Bool) : Option String :=
  if entryNil then some "FAILED"
  else if accountEmpty && keyNil then some "DENIED"
  else if !accountEmpty && !nameHasSlash then some "DENIED"
  else if dataNil then some "DENIED"
  else if domainNil then some "DENIED"
  else none

/-- the statements of `validateMultisignRequests`'s loop the definitions above were translated from, locals printed as their roles, in order -/
def msignEntryVerdictGuards : List String := [
  "if request == nil { res.Responses[i].State = pb.ResponseState_FAILED; return }",
  "if request.GetAccount() == \"\" && request.GetPublicKey() == nil { res.Responses[i].State = pb.ResponseState_DENIED; return }",
  "if request.GetAccount() != \"\" && !strings.Contains(request.GetAccount(), \"/\") { res.Responses[i].State = pb.ResponseState_DENIED; return }",
  "if request.GetData() == nil { res.Responses[i].State = pb.ResponseState_DENIED; return }",
  "if request.GetDomain() == nil { res.Responses[i].State = pb.ResponseState_DENIED; return }"
]

/-- the enumerators of `pb.ResponseState` (github.com/wealdtech/eth2-signer-api v1.7.2, pb/v1/responsestate.pb.go, found in the vendor directory or the module cache) with their values,
    `ResponseState_` stripped; `none` when the module's source cannot be located.  The kernels below name states by these NAMES. -/
def pbResponseStateValuesGen : Option (List (String × Nat)) := some [("UNKNOWN", 0), ("SUCCEEDED", 1), ("DENIED", 2), ("FAILED", 3)]

/-- (fixed text, not translated from any source) what a Go loop `for i, e := range xs { if C₁(e) { r[i].State = v₁; return }; …; if Cₘ(e) { r[i].State = vₘ; return } }`
    does, given for every entry IN ORDER the verdict of its guards (`some v`: a guard holds, the first that does writes v; `none`: no guard
    holds): it stops at the FIRST entry whose verdict is `some v`, having written v at that index and nothing anywhere else. -/
def firstBadGen : List (Option String) → Option (Nat × String)
  | [] => none
  | some v :: _ => some (0, v)
  | none :: rest => (firstBadGen rest).map (fun p => (p.1 + 1, p.2))

/-- the handlers' exits before any per-entry response exists, in source order: `some l` = the states of the responses returned, `none` = the handler goes on.
    reqNil: `req == nil`; n: `len(req.GetRequests())` (0 for a nil request: the getter is nil-safe); model counterpart: `the `items.isEmpty` branch of Dirk.hSignAtts / Dirk.hMultisign`.
    (`SignBeaconAttestations` and `Multisign` give the same definition: the `if`s before `res.Responses = make(…, len(req.GetRequests()))`) -/
def batchEarlyGen (reqNil : Bool) (n : Nat) : Option (List String) :=
  if reqNil then some ["DENIED"]
  else if (n == 0) then some ["DENIED"]
  else none

/-- … the two handlers were translated separately and the results are textually identical -/
def batchEarlySameInBothGen : Bool := true

/-- the statements of the two handlers the definitions above were translated from, locals printed as their roles, in order -/
def batchEarlyGuards : List String := [
  "SignBeaconAttestations: if req == nil { res.Responses = make([]*pb.SignResponse, 1); res.Responses[0] = &pb.SignResponse{State: pb.ResponseState_DENIED}; return res, nil }",
  "SignBeaconAttestations: if len(req.GetRequests()) == 0 { res.Responses = make([]*pb.SignResponse, 1); res.Responses[0] = &pb.SignResponse{State: pb.ResponseState_DENIED}; return res, nil }",
  "Multisign: if req == nil { res.Responses = make([]*pb.SignResponse, 1); res.Responses[0] = &pb.SignResponse{State: pb.ResponseState_DENIED}; return res, nil }",
  "Multisign: if len(req.GetRequests()) == 0 { res.Responses = make([]*pb.SignResponse, 1); res.Responses[0] = &pb.SignResponse{State: pb.ResponseState_DENIED}; return res, nil }"
]

/-- what the handlers return right after the validation: the n = `len(req.GetRequests())` responses are created in the state shown by `List.replicate`,
    the validation writes at most one of them — firstBad = `some (i, v)`: it stopped at entry i and wrote v there, CONTRACT: i is the least index < n whose
    entry verdict (`attsEntryVerdictGen` / `msignEntryVerdictGen`) is `some v`, i.e. `firstBadGen` of the entries' verdicts; `none`: every entry passed —
    and the loop after it returns the responses as soon as ONE of them is in a state of the test shown; `none`: it does not, the signer is called;
    model counterpart: `the `firstRejected … = some i` branch of Dirk.hSignAtts / Dirk.hMultisign`.
    (`SignBeaconAttestations` and `Multisign` give the same definition: creation state, early-return test) -/
def batchAfterValidateGen (n : Nat) (firstBad : Option (Nat × String)) : Option (List String) :=
  let responses := match firstBad with
    | some (i, v) => (List.replicate n "UNKNOWN").set i v
    | none => List.replicate n "UNKNOWN"
  if responses.any (fun s => s == "DENIED" || s == "FAILED") then some responses else none

/-- … the two handlers were translated separately and the results are textually identical -/
def batchAfterValidateSameInBothGen : Bool := true

/-- the statements of the two handlers the definitions above were translated from, locals printed as their roles, in order -/
def batchAfterValidateGuards : List String := [
  "SignBeaconAttestations: res.Responses = make([]*pb.SignResponse, len(req.GetRequests()))",
  "SignBeaconAttestations: for i := range req.GetRequests() { res.Responses[i] = &pb.SignResponse{State: pb.ResponseState_UNKNOWN} }",
  "SignBeaconAttestations: validateSignBeaconAttestationsRequests(ctx, req, res)",
  "SignBeaconAttestations: validateSignBeaconAttestationsRequests: for i, request := range req.GetRequests() { if request == nil { res.Responses[i].State = pb.ResponseState_FAILED; return }; if request.GetAccount() == \"\" && request.GetPublicKey() == nil { res.Responses[i].State = pb.ResponseState_DENIED; return }; if request.GetAccount() != \"\" && !strings.Contains(request.GetAccount(), \"/\") { res.Responses[i].State = pb.ResponseState_DENIED; return }; if request.GetData() == nil { res.Responses[i].State = pb.ResponseState_DENIED; return }; if request.GetData().GetSource() == nil { res.Responses[i].State = pb.ResponseState_DENIED; return }; if request.GetData().GetTarget() == nil { res.Responses[i].State = pb.ResponseState_DENIED; return } }",
  "SignBeaconAttestations: for i := range req.GetRequests() { if res.Responses[i].State == pb.ResponseState_DENIED || res.Responses[i].State == pb.ResponseState_FAILED { return res, nil } }",
  "Multisign: res.Responses = make([]*pb.SignResponse, len(req.GetRequests()))",
  "Multisign: for i := range req.GetRequests() { res.Responses[i] = &pb.SignResponse{State: pb.ResponseState_UNKNOWN} }",
  "Multisign: validateMultisignRequests(ctx, req, res)",
  "Multisign: validateMultisignRequests: for i, request := range req.GetRequests() { if request == nil { res.Responses[i].State = pb.ResponseState_FAILED; return }; if request.GetAccount() == \"\" && request.GetPublicKey() == nil { res.Responses[i].State = pb.ResponseState_DENIED; return }; if request.GetAccount() != \"\" && !strings.Contains(request.GetAccount(), \"/\") { res.Responses[i].State = pb.ResponseState_DENIED; return }; if request.GetData() == nil { res.Responses[i].State = pb.ResponseState_DENIED; return }; if request.GetDomain() == nil { res.Responses[i].State = pb.ResponseState_DENIED; return } }",
  "Multisign: for i := range req.GetRequests() { if res.Responses[i].State == pb.ResponseState_DENIED || res.Responses[i].State == pb.ResponseState_FAILED { return res, nil } }"
]

/-- the `switch results[i]` that ends the handlers, arm by arm in source order, on `core.Result` VALUES (`coreResultValuesGen`): the state response i ends in and whether
    `res.Responses[i].Signature = signatures[i]` is executed.  A value no arm names (last line) leaves the response as it was created — every response is still in
    its creation state when the signer is called, every state the validation writes being caught by the early-return test; model counterpart: `Dirk.respond`.
    (`SignBeaconAttestations` and `Multisign` give the same definition: arms, states, signature copies) -/
def resultToStateGen (coreResult : Nat) : String × Bool :=
  if coreResult = 1 then ("SUCCEEDED", true)
  else if coreResult = 2 then ("DENIED", false)
  else if coreResult = 3 then ("FAILED", false)
  else if coreResult = 0 then ("UNKNOWN", false)
  else ("UNKNOWN", false)

/-- … the two handlers were translated separately and the results are textually identical -/
def resultToStateSameInBothGen : Bool := true

/-- the statements of the two handlers the definitions above were translated from, locals printed as their roles, in order -/
def resultToStateGuards : List String := [
  "SignBeaconAttestations: case core.ResultSucceeded: res.Responses[i].State = pb.ResponseState_SUCCEEDED; res.Responses[i].Signature = signatures[i]",
  "SignBeaconAttestations: case core.ResultDenied: res.Responses[i].State = pb.ResponseState_DENIED",
  "SignBeaconAttestations: case core.ResultFailed: res.Responses[i].State = pb.ResponseState_FAILED",
  "SignBeaconAttestations: case core.ResultUnknown: res.Responses[i].State = pb.ResponseState_UNKNOWN",
  "Multisign: case core.ResultSucceeded: res.Responses[i].State = pb.ResponseState_SUCCEEDED; res.Responses[i].Signature = signatures[i]",
  "Multisign: case core.ResultDenied: res.Responses[i].State = pb.ResponseState_DENIED",
  "Multisign: case core.ResultFailed: res.Responses[i].State = pb.ResponseState_FAILED",
  "Multisign: case core.ResultUnknown: res.Responses[i].State = pb.ResponseState_UNKNOWN"
]

/-- `SignBeaconAttestations` and `Multisign` (services/api/grpc/handlers/signer/*.go), canonical facts about the batch path, locals printed as their roles; a fact that reads the same
    in both handlers is listed once, the others once per handler.  The handlers' bodies consist of exactly the statements of `handlerShapeGuards` (and log calls); model counterpart: `Dirk.hSignAtts / Dirk.hMultisign (one response per entry, validation before the signer, `respond` after it)`. -/
def handlerShapeGen : List String := [
  "responses: res.Responses = make([]*pb.SignResponse, len(req.GetRequests())); for i := range req.GetRequests() { res.Responses[i] = &pb.SignResponse{State: pb.ResponseState_UNKNOWN} }",
  "validation [SignBeaconAttestations]: validateSignBeaconAttestationsRequests(ctx, req, res) is called after the responses are created and before the signer",
  "validation [Multisign]: validateMultisignRequests(ctx, req, res) is called after the responses are created and before the signer",
  "early return: for i := range req.GetRequests() { if res.Responses[i].State == pb.ResponseState_DENIED || res.Responses[i].State == pb.ResponseState_FAILED { return res, nil } }",
  "accountNames: accountNames := make([]string, len(req.GetRequests())); for i, request := range req.GetRequests(): accountNames[i] = request.GetAccount()",
  "pubKeys: pubKeys := make([][]byte, len(req.GetRequests())); for i, request := range req.GetRequests(): pubKeys[i] = request.GetPublicKey()",
  "reqData [SignBeaconAttestations]: reqData := make([]*rules.SignBeaconAttestationData, len(req.GetRequests())); for i, request := range req.GetRequests(): reqData[i] = &rules.SignBeaconAttestationData{Domain: request.GetDomain(), Slot: request.GetData().GetSlot(), CommitteeIndex: request.GetData().GetCommitteeIndex(), BeaconBlockRoot: request.GetData().GetBeaconBlockRoot(), Source: &rules.Checkpoint{Epoch: request.GetData().GetSource().GetEpoch(), Root: request.GetData().GetSource().GetRoot()}, Target: &rules.Checkpoint{Epoch: request.GetData().GetTarget().GetEpoch(), Root: request.GetData().GetTarget().GetRoot()}}",
  "reqData [Multisign]: reqData := make([]*rules.SignData, len(req.GetRequests())); for i, request := range req.GetRequests(): reqData[i] = &rules.SignData{Domain: request.GetDomain(), Data: request.GetData()}",
  "signer call [SignBeaconAttestations]: results, signatures := h.signer.SignBeaconAttestations(ctx, handlers.GenerateCredentials(ctx), accountNames, pubKeys, reqData) (the only call of the signer, after the early-return loop)",
  "signer call [Multisign]: results, signatures := h.signer.Multisign(ctx, handlers.GenerateCredentials(ctx), accountNames, pubKeys, reqData) (the only call of the signer, after the early-return loop)",
  "result loop: for i := range results { switch results[i] { … } }: response i takes the state and the signature the arm of results[i] gives it",
  "return: return res, nil"
]

/-- the statements of the two handlers the definitions above were translated from, locals printed as their roles, in order -/
def handlerShapeGuards : List String := [
  "SignBeaconAttestations: res := &pb.MultisignResponse{}",
  "SignBeaconAttestations: if req == nil { res.Responses = make([]*pb.SignResponse, 1); res.Responses[0] = &pb.SignResponse{State: pb.ResponseState_DENIED}; return res, nil }",
  "SignBeaconAttestations: if len(req.GetRequests()) == 0 { res.Responses = make([]*pb.SignResponse, 1); res.Responses[0] = &pb.SignResponse{State: pb.ResponseState_DENIED}; return res, nil }",
  "SignBeaconAttestations: res.Responses = make([]*pb.SignResponse, len(req.GetRequests()))",
  "SignBeaconAttestations: for i := range req.GetRequests() { res.Responses[i] = &pb.SignResponse{State: pb.ResponseState_UNKNOWN} }",
  "SignBeaconAttestations: validateSignBeaconAttestationsRequests(ctx, req, res)",
  "SignBeaconAttestations: validateSignBeaconAttestationsRequests: for i, request := range req.GetRequests() { if request == nil { res.Responses[i].State = pb.ResponseState_FAILED; return }; if request.GetAccount() == \"\" && request.GetPublicKey() == nil { res.Responses[i].State = pb.ResponseState_DENIED; return }; if request.GetAccount() != \"\" && !strings.Contains(request.GetAccount(), \"/\") { res.Responses[i].State = pb.ResponseState_DENIED; return }; if request.GetData() == nil { res.Responses[i].State = pb.ResponseState_DENIED; return }; if request.GetData().GetSource() == nil { res.Responses[i].State = pb.ResponseState_DENIED; return }; if request.GetData().GetTarget() == nil { res.Responses[i].State = pb.ResponseState_DENIED; return } }",
  "SignBeaconAttestations: for i := range req.GetRequests() { if res.Responses[i].State == pb.ResponseState_DENIED || res.Responses[i].State == pb.ResponseState_FAILED { return res, nil } }",
  "SignBeaconAttestations: accountNames := make([]string, len(req.GetRequests()))",
  "SignBeaconAttestations: pubKeys := make([][]byte, len(req.GetRequests()))",
  "SignBeaconAttestations: reqData := make([]*rules.SignBeaconAttestationData, len(req.GetRequests()))",
  "SignBeaconAttestations: for i, request := range req.GetRequests() { accountNames[i] = request.GetAccount(); pubKeys[i] = request.GetPublicKey(); reqData[i] = &rules.SignBeaconAttestationData{Domain: request.GetDomain(), Slot: request.GetData().GetSlot(), CommitteeIndex: request.GetData().GetCommitteeIndex(), BeaconBlockRoot: request.GetData().GetBeaconBlockRoot(), Source: &rules.Checkpoint{Epoch: request.GetData().GetSource().GetEpoch(), Root: request.GetData().GetSource().GetRoot()}, Target: &rules.Checkpoint{Epoch: request.GetData().GetTarget().GetEpoch(), Root: request.GetData().GetTarget().GetRoot()}} }",
  "SignBeaconAttestations: results, signatures := h.signer.SignBeaconAttestations(ctx, handlers.GenerateCredentials(ctx), accountNames, pubKeys, reqData)",
  "SignBeaconAttestations: for i := range results { switch results[i] { case core.ResultSucceeded: res.Responses[i].State = pb.ResponseState_SUCCEEDED; res.Responses[i].Signature = signatures[i] case core.ResultDenied: res.Responses[i].State = pb.ResponseState_DENIED case core.ResultFailed: res.Responses[i].State = pb.ResponseState_FAILED case core.ResultUnknown: res.Responses[i].State = pb.ResponseState_UNKNOWN } }",
  "SignBeaconAttestations: return res, nil",
  "Multisign: res := &pb.MultisignResponse{}",
  "Multisign: if req == nil { res.Responses = make([]*pb.SignResponse, 1); res.Responses[0] = &pb.SignResponse{State: pb.ResponseState_DENIED}; return res, nil }",
  "Multisign: if len(req.GetRequests()) == 0 { res.Responses = make([]*pb.SignResponse, 1); res.Responses[0] = &pb.SignResponse{State: pb.ResponseState_DENIED}; return res, nil }",
  "Multisign: res.Responses = make([]*pb.SignResponse, len(req.GetRequests()))",
  "Multisign: for i := range req.GetRequests() { res.Responses[i] = &pb.SignResponse{State: pb.ResponseState_UNKNOWN} }",
  "Multisign: validateMultisignRequests(ctx, req, res)",
  "Multisign: validateMultisignRequests: for i, request := range req.GetRequests() { if request == nil { res.Responses[i].State = pb.ResponseState_FAILED; return }; if request.GetAccount() == \"\" && request.GetPublicKey() == nil { res.Responses[i].State = pb.ResponseState_DENIED; return }; if request.GetAccount() != \"\" && !strings.Contains(request.GetAccount(), \"/\") { res.Responses[i].State = pb.ResponseState_DENIED; return }; if request.GetData() == nil { res.Responses[i].State = pb.ResponseState_DENIED; return }; if request.GetDomain() == nil { res.Responses[i].State = pb.ResponseState_DENIED; return } }",
  "Multisign: for i := range req.GetRequests() { if res.Responses[i].State == pb.ResponseState_DENIED || res.Responses[i].State == pb.ResponseState_FAILED { return res, nil } }",
  "Multisign: accountNames := make([]string, len(req.GetRequests()))",
  "Multisign: pubKeys := make([][]byte, len(req.GetRequests()))",
  "Multisign: reqData := make([]*rules.SignData, len(req.GetRequests()))",
  "Multisign: for i, request := range req.GetRequests() { accountNames[i] = request.GetAccount(); pubKeys[i] = request.GetPublicKey(); reqData[i] = &rules.SignData{Domain: request.GetDomain(), Data: request.GetData()} }",
  "Multisign: results, signatures := h.signer.Multisign(ctx, handlers.GenerateCredentials(ctx), accountNames, pubKeys, reqData)",
  "Multisign: for i := range results { switch results[i] { case core.ResultSucceeded: res.Responses[i].State = pb.ResponseState_SUCCEEDED; res.Responses[i].Signature = signatures[i] case core.ResultDenied: res.Responses[i].State = pb.ResponseState_DENIED case core.ResultFailed: res.Responses[i].State = pb.ResponseState_FAILED case core.ResultUnknown: res.Responses[i].State = pb.ResponseState_UNKNOWN } }",
  "Multisign: return res, nil"
]

/-- `runRules` (services/ruler/golang/runner.go), the `switch action` of the per-entry path, one line per `case` IN SOURCE ORDER: the VALUE of the action constant compared with
    (services/ruler/service.go: declared with a string literal and assigned to nowhere in the repository's non-test files), the type `rulesData[i].Data` is
    asserted to have, as written, and the method of `s.rules` whose answer becomes `results[i]`.  Every arm makes at most one assertion (of
    `rulesData[i].Data`), calls at most one method, of `s.rules`, with `(ctx, metadata, <the asserted value>)`, and does not fall through;
    `s.rules` is mentioned nowhere else in the function; model counterpart: `which of Dirk.onSign / onPropose / onAttest the endpoints Dirk.signGeneric, multisign / signProp / signAtt consult; Dirk.verdictRes`. -/
def dispatchTableGen : List (String × String × String) := [
  ("Sign", "*rules.SignData", "OnSign"),
  ("Sign beacon proposal", "*rules.SignBeaconProposalData", "OnSignBeaconProposal"),
  ("Sign beacon attestation", "*rules.SignBeaconAttestationData", "OnSignBeaconAttestation"),
  ("Access account", "*rules.AccessAccountData", "OnListAccounts"),
  ("Lock wallet", "*rules.LockWalletData", "OnLockWallet"),
  ("Unlock wallet", "*rules.UnlockWalletData", "OnUnlockWallet"),
  ("Lock account", "*rules.LockAccountData", "OnLockAccount"),
  ("Unlock account", "*rules.UnlockAccountData", "OnUnlockAccount"),
  ("Create account", "*rules.CreateAccountData", "OnCreateAccount")]

/-- … the arms themselves: the value `results[i]` has when the arm is left, and whether it is left by `continue` (`true`: the statements after
    the switch are skipped).  `some k`: the k-th line of `dispatchTableGen`; anything else: the `default` arm.
    typeOk: the arm's type assertion holds; ruleVerdict: what the arm's rules method returns (`rulesResultValuesGen`) -/
def dispatchArmGen (actionIdx : Option Nat) (typeOk : Bool) (ruleVerdict : Nat) : Nat × Bool :=
  match actionIdx with
  | some 0 => if !typeOk then (3, true) else (ruleVerdict, false)
  | some 1 => if !typeOk then (3, true) else (ruleVerdict, false)
  | some 2 => if !typeOk then (3, true) else (ruleVerdict, false)
  | some 3 => if !typeOk then (3, true) else (ruleVerdict, false)
  | some 4 => if !typeOk then (3, true) else (ruleVerdict, false)
  | some 5 => if !typeOk then (3, true) else (ruleVerdict, false)
  | some 6 => if !typeOk then (3, true) else (ruleVerdict, false)
  | some 7 => if !typeOk then (3, true) else (ruleVerdict, false)
  | some 8 => if !typeOk then (3, true) else (ruleVerdict, false)
  | _ => (3, false)

/-- … the `rules.Result` value (`rulesResultValuesGen`) position i of the returned list holds, for ONE entry; the list is created with every
    position 0 and each position is visited once (`util.Scatter` over `len(rulesData)`, extents `for i := offset; i < offset+entries; i++`).
    entryNil: `rulesData[i] == nil`; metadataErr: `s.assembleMetadata(…)` returns an error; the conversion after the switch: `if results[i] == rules.UNKNOWN { results[i] = rules.FAILED }`.  Tests in source order -/
def dispatchEntryGen (entryNil metadataErr : Bool) (actionIdx : Option Nat) (typeOk : Bool) (ruleVerdict : Nat) : Nat :=
  if entryNil then 0
  else if metadataErr then 3
  else
    match dispatchArmGen actionIdx typeOk ruleVerdict with
    | (v, true) => v
    | (v, false) => if v = 0 then 3 else v

/-- the guards of `runRules`, as written in the source, in order -/
def dispatchEntryGuards : List String := [
  "if rulesData[i] == nil { continue }",
  "metadata, err := s.assembleMetadata(…); if err != nil { results[i] = rules.FAILED; continue }",
  "switch action",
  "case ruler.ActionSign: data, ok := rulesData[i].Data.(*rules.SignData); if !ok { results[i] = rules.FAILED; continue }; results[i] = s.rules.OnSign(ctx, metadata, data)",
  "case ruler.ActionSignBeaconProposal: data, ok := rulesData[i].Data.(*rules.SignBeaconProposalData); if !ok { results[i] = rules.FAILED; continue }; results[i] = s.rules.OnSignBeaconProposal(ctx, metadata, data)",
  "case ruler.ActionSignBeaconAttestation: data, ok := rulesData[i].Data.(*rules.SignBeaconAttestationData); if !ok { results[i] = rules.FAILED; continue }; results[i] = s.rules.OnSignBeaconAttestation(ctx, metadata, data)",
  "case ruler.ActionAccessAccount: data, ok := rulesData[i].Data.(*rules.AccessAccountData); if !ok { results[i] = rules.FAILED; continue }; results[i] = s.rules.OnListAccounts(ctx, metadata, data)",
  "case ruler.ActionLockWallet: data, ok := rulesData[i].Data.(*rules.LockWalletData); if !ok { results[i] = rules.FAILED; continue }; results[i] = s.rules.OnLockWallet(ctx, metadata, data)",
  "case ruler.ActionUnlockWallet: data, ok := rulesData[i].Data.(*rules.UnlockWalletData); if !ok { results[i] = rules.FAILED; continue }; results[i] = s.rules.OnUnlockWallet(ctx, metadata, data)",
  "case ruler.ActionLockAccount: data, ok := rulesData[i].Data.(*rules.LockAccountData); if !ok { results[i] = rules.FAILED; continue }; results[i] = s.rules.OnLockAccount(ctx, metadata, data)",
  "case ruler.ActionUnlockAccount: data, ok := rulesData[i].Data.(*rules.UnlockAccountData); if !ok { results[i] = rules.FAILED; continue }; results[i] = s.rules.OnUnlockAccount(ctx, metadata, data)",
  "case ruler.ActionCreateAccount: data, ok := rulesData[i].Data.(*rules.CreateAccountData); if !ok { results[i] = rules.FAILED; continue }; results[i] = s.rules.OnCreateAccount(ctx, metadata, data)",
  "default: results[i] = rules.FAILED",
  "if results[i] == rules.UNKNOWN { results[i] = rules.FAILED }"
]

/-- `runRulesForMultipleBeaconAttestations` (services/ruler/golang/runner.go), what the batch shortcut does, as canonical facts (locals printed as their roles): how the result list starts, what each refusal in the
    preparation loop writes and how it leaves, what is handed to which method of `s.rules` (the only mention of `s.rules`), and what is done with its answer; model counterpart: `Dirk.onAttestBatch as consulted by Dirk.rulesKeyed / Dirk.signAtts`. -/
def dispatchBatchGen : List String := [
  "results: created len(rulesData) long, every position rules.UNKNOWN",
  "missing account: if rulesData[i].AccountName == \"\" { results[i] = rules.FAILED; break }",
  "metadata error: metadatas[i], err = s.assembleMetadata(…); if err != nil { results[i] = rules.FAILED; break }",
  "type mismatch: data, ok := rulesData[i].Data.(*rules.SignBeaconAttestationData); if !ok { results[i] = rules.FAILED; break }",
  "data: reqData := make([]*rules.SignBeaconAttestationData, len(rulesData)); reqData[i] = data (the value asserted to be *rules.SignBeaconAttestationData)",
  "break: leaves the loop over the extent — the later entries of that extent are not examined and keep rules.UNKNOWN",
  "early return: for i := range results { if results[i] == rules.FAILED { return results } } (the rule is not called; the other positions are returned as they are)",
  "rule: return s.rules.OnSignBeaconAttestations(ctx, metadatas, reqData)",
  "unknown: the list the rule returns is returned as it is — rules.UNKNOWN in it is NOT converted"
]

/-- the guards of `runRulesForMultipleBeaconAttestations`, as written in the source, in order -/
def dispatchBatchGuards : List String := [
  "missing account: if rulesData[i].AccountName == \"\" { results[i] = rules.FAILED; break }",
  "metadata error: metadatas[i], err = s.assembleMetadata(…); if err != nil { results[i] = rules.FAILED; break }",
  "type mismatch: data, ok := rulesData[i].Data.(*rules.SignBeaconAttestationData); if !ok { results[i] = rules.FAILED; break }",
  "reqData[i] = data",
  "early return: for i := range results { if results[i] == rules.FAILED { return results } } (the rule is not called; the other positions are returned as they are)",
  "rule: return s.rules.OnSignBeaconAttestations(ctx, metadatas, reqData)"
]

end Dirk.Gen
