/-
  Dirk.Gen.Kernels — GENERATED — do not edit.  Regenerated on every run by /verif/factx (kernels.go) from the
  Go source of the decision kernels (rules/standard, services/checker/static, services/process/standard);
  Dirk/Props/KernelsEq.lean proves each definition
  equal to the hand-written model function.  A kernel outside the translatable fragment appears as
  `kernelUntranslatable_<name>` instead, and KernelsEq.lean does not build.
-/
import Dirk.Model.Rules
import Dirk.Model.Checker

set_option linter.unusedVariables false

namespace Dirk.Gen

/-- `runSignBeaconAttestationChecks` (rules/standard/signbeaconattestations.go), translated statement by statement; model counterpart: `Dirk.attChecks`. -/
def attChecksGen (domain : Bytes) (src : Nat) (tgt : Nat) (stSrc : Int) (stTgt : Int) : Verdict × (Int × Int) :=
  if ¬ (prefix4 domain = domAttester) then (.denied, (stSrc, stTgt))
  else if ((src ≠ 0) ∨ (tgt ≠ 0)) ∧ (tgt ≤ src) then (.denied, (stSrc, stTgt))
  else if (src > maxI64) ∨ (tgt > maxI64) then (.denied, (stSrc, stTgt))
  else if (stTgt ≥ 0) ∧ (tgt ≤ (u64 stTgt)) then (.denied, (stSrc, stTgt))
  else if (stSrc ≥ 0) ∧ (src < (u64 stSrc)) then (.denied, (stSrc, stTgt))
  else (.approved, (i64 src, i64 tgt))

/-- the guards of `runSignBeaconAttestationChecks`, as written in the source, in order -/
def attChecksGuards : List String := [
  "!bytes.Equal(req.Domain[0:4], e2types.DomainBeaconAttester[:]) => return rules.DENIED",
  "(sourceEpoch != 0 || targetEpoch != 0) && (targetEpoch <= sourceEpoch) => return rules.DENIED",
  "sourceEpoch > math.MaxInt64 || targetEpoch > math.MaxInt64 => return rules.DENIED",
  "state.TargetEpoch >= 0 && targetEpoch <= uint64(state.TargetEpoch) => return rules.DENIED",
  "state.SourceEpoch >= 0 && sourceEpoch < uint64(state.SourceEpoch) => return rules.DENIED",
  "return rules.APPROVED"
]

/-- `OnSignBeaconProposal` (rules/standard/signbeaconproposal.go), translated statement by statement; model counterpart: `Dirk.onPropose`.
    `fetched` = result of `fetchSignBeaconProposalState` (`none` = error), `storeOk` = `storeSignBeaconProposalState` returned no error;
    second component = the state handed to the store, if it was called. -/
def propChecksGen (domain : Bytes) (slot : Nat) (fetched : Option Int) (storeOk : Bool) : Verdict × Option Int :=
  if ¬ (prefix4 domain = domProposer) then (.denied, none)
  else if slot > maxI64 then (.denied, none)
  else match fetched with
  | none => (.failed, none)
  | some stSlot =>
    if (stSlot ≥ 0) ∧ (slot ≤ (u64 stSlot)) then (.denied, none)
    else if storeOk = false then (.failed, some (i64 slot))
    else (.approved, some (i64 slot))

/-- the guards of `OnSignBeaconProposal`, as written in the source, in order -/
def propChecksGuards : List String := [
  "!bytes.Equal(req.Domain[0:4], e2types.DomainBeaconProposer[:]) => return rules.DENIED",
  "req.Slot > math.MaxInt64 => return rules.DENIED",
  "fetch s.fetchSignBeaconProposalState(metadata.PubKey); err != nil => return rules.FAILED",
  "state.Slot >= 0 && slot <= uint64(state.Slot) => return rules.DENIED",
  "store s.storeSignBeaconProposalState(metadata.PubKey, state); err != nil => return rules.FAILED",
  "return rules.APPROVED"
]

/-- `OnSign` (rules/standard/sign.go), translated statement by statement; model counterpart: `Dirk.onSign`. -/
def onSignGen (metadataNil : Bool) (adminIPs : List String) (ip : String) (domain : Bytes) : Verdict :=
  if metadataNil = true then .failed
  else if prefix4 domain = domAttester then .denied
  else if prefix4 domain = domProposer then .denied
  else if (prefix4 domain = domExit) ∧ (ip = "") then .denied
  else if (prefix4 domain = domExit) ∧ (¬ (adminIPs.contains ip)) then .denied
  else .approved

/-- the guards of `OnSign`, as written in the source, in order -/
def onSignGuards : List String := [
  "metadata == nil => return rules.FAILED",
  "bytes.Equal(req.Domain[0:4], e2types.DomainBeaconAttester[:]) => return rules.DENIED",
  "bytes.Equal(req.Domain[0:4], e2types.DomainBeaconProposer[:]) => return rules.DENIED",
  "bytes.Equal(req.Domain[0:4], e2types.DomainVoluntaryExit[:]) && metadata.IP == \"\" => return rules.DENIED",
  "validIP := (metadata.IP ∈ s.adminIPs)  [for-range membership loop]",
  "bytes.Equal(req.Domain[0:4], e2types.DomainVoluntaryExit[:]) && !validIP => return rules.DENIED",
  "return rules.APPROVED"
]

/-- `regexify` (services/checker/static/parameters.go), the string handed to `regexp.Compile`, as a function of the parameter; model counterpart: `Dirk.regexify`. -/
def regexifyGen (name : String) : String :=
  "(?i)^(?:" ++ (if name = "" then ".*" else name) ++ ")$"

/-- the guards of `regexify`, as written in the source, in order -/
def regexifyGuards : List String := [
  "if name == \"\" { name = \".*\" }",
  "name = fmt.Sprintf(\"(?i)^(?:%s)$\", name)",
  "return regexp.Compile(name)"
]

/-- `Check` (services/checker/static/service.go), inner loop over one matching path's operations: `some b` = `return b`, `none` = the loop ends without a verdict; model counterpart: `Dirk.check / Dirk.scanPaths / Dirk.scanOps`. -/
def checkOpsGen (op : String) : List String → Option Bool
  | [] => none
  | o :: os =>
    if (equalFold o "none") ∨ (equalFold o ("~" ++ op)) then some false
    else if (equalFold o "all") ∨ (equalFold o op) then some true
    else checkOpsGen op os

/-- `Check` (services/checker/static/service.go), outer loop; each path is given as (did the wallet and the account regex both match?, its operations); model counterpart: `Dirk.check / Dirk.scanPaths / Dirk.scanOps`. -/
def checkLoopGen (op : String) : List (Bool × List String) → Bool
  | [] => false
  | p :: ps =>
    if p.1 then
      match checkOpsGen op p.2 with
      | some b => b
      | none => checkLoopGen op ps
    else checkLoopGen op ps

/-- `Check` (services/checker/static/service.go), the guards before the loops: `some b` = `return b`, `none` = go on to the loops.
    `credsNil`: credentials == nil; `client`: credentials.Client; `pathOk`: WalletAndAccountNames returned no error;
    `wallet`: the wallet name it returned; `known`: the client has an entry in the access map; model counterpart: `Dirk.check / Dirk.scanPaths / Dirk.scanOps`. -/
def checkGuardsGen (credsNil : Bool) (client : String) (pathOk : Bool) (wallet : String) (known : Bool) : Option Bool :=
  if credsNil = true then some false
  else if client = "" then some false
  else if pathOk = false then some false
  else if wallet = "" then some false
  else if ¬ known then some false
  else none

/-- the guards of `Check`, as written in the source, in order -/
def checkGuards : List String := [
  "credentials == nil => return false",
  "credentials.Client == \"\" => return false",
  "walletName, accountName, err := e2wallet.WalletAndAccountNames(account); err != nil => return false",
  "walletName == \"\" => return false",
  "paths, exists := s.access[credentials.Client]  [map lookup: exists ↦ known]",
  "!exists => return false",
  "antiOperation := fmt.Sprintf(\"~%s\", operation)",
  "for _, path := range paths { if path.wallet.MatchString(walletName) && path.account.MatchString(accountName) { for … range path.operations {",
  "  strings.EqualFold(path.operations[i], \"none\") || strings.EqualFold(path.operations[i], antiOperation) => return false",
  "  strings.EqualFold(path.operations[i], \"all\") || strings.EqualFold(path.operations[i], operation) => return true",
  "} } }",
  "return false"
]

/-- `OnGenerate` (services/process/standard/generate.go), the parameter checks at the top (uint32 arithmetic), `true` = none of them refuses; model counterpart: `Dirk.Dkg.generateAccepts`. -/
def generateAcceptsGen (n : Nat) (t : Nat) : Bool :=
  if n = 0 then false
  else if t > n then false
  else if t ≤ (n / 2) then false
  else true

/-- the guards of `OnGenerate`, as written in the source, in order -/
def generateAcceptsGuards : List String := [
  "numParticipants == 0 => refuse",
  "signingThreshold > numParticipants => refuse",
  "signingThreshold <= numParticipants/2 => refuse",
  "[translation stops at: walletName, accountName, err := e2wallet.WalletAndAccountNames(account)]"
]

/-- `OnContribute` (services/process/standard/service.go), the conditions between the lookup of the generation and the storing of the contribution, `true` = stored.
    `valid`: verifyContribution(generation.id, secret, vVec); `vlen`: len(vVec); `threshold`: generation.threshold;
    `listed`: the sender id is the ID of one of generation.participants; model counterpart: `Dirk.Dkg.fixedAccepts`. -/
def fixedAcceptsGen (valid : Bool) (vlen : Nat) (threshold : Nat) (listed : Bool) : Bool :=
  if ¬ listed then false
  else if vlen ≠ threshold then false
  else if ¬ valid then false
  else true

/-- the guards of `OnContribute`, as written in the source, in order -/
def fixedAcceptsGuards : List String := [
  "isParticipant := (senderID ∈ IDs of generation.participants)  [for-range membership loop]",
  "!isParticipant => refuse",
  "len(vVec) != int(generation.threshold) => refuse",
  "!verifyContribution(generation.id, secret, vVec) => refuse",
  "accept: the contribution is stored (2 assignments), return …, nil"
]

end Dirk.Gen
