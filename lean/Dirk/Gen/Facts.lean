/-
  Dirk.Gen.Facts — REGENERATED on every run by /verif/factx from /repo's current source. Do not edit.
-/
namespace Dirk.Gen

/-- rules/standard/storage.go, NewStore: the value assigned to the SyncWrites option -/
def storeSyncWrites : Option String := some "true"

/-- NewStore: every badger option it sets -/
def storeOptionsSet : List String := ["Logger", "SyncWrites", "TableLoadingMode", "ValueLogLoadingMode"]

/-- createServer: all fields set on the server's tls.Config, and all methods called on it -/
def tlsConfigFields : List String := ["Certificates", "ClientAuth", "ClientCAs", "MinVersion"]
def tlsConfigCalls : List String := []
/-- rules/service.go: the enumerators of rules.Result; and every switch over them outside package rules: (where, enumerators named, has a default) -/
def rulesResults : List String := ["UNKNOWN", "APPROVED", "DENIED", "FAILED"]
def resultSwitches : List (String × List String × Bool) := [("services/accountmanager/standard/generate.go:Generate", ["APPROVED", "DENIED", "FAILED", "UNKNOWN"], false), ("services/accountmanager/standard/lock.go:Lock", ["APPROVED", "DENIED", "FAILED", "UNKNOWN"], false), ("services/accountmanager/standard/unlock.go:Unlock", ["APPROVED", "DENIED", "FAILED", "UNKNOWN"], false), ("services/signer/standard/multisign.go:Multisign", ["APPROVED", "DENIED", "FAILED", "UNKNOWN"], false), ("services/signer/standard/signbeaconattestation.go:SignBeaconAttestation", ["APPROVED", "DENIED", "FAILED", "UNKNOWN"], false), ("services/signer/standard/signbeaconattestations.go:SignBeaconAttestations", ["APPROVED", "DENIED", "FAILED", "UNKNOWN"], false), ("services/signer/standard/signbeaconproposal.go:SignBeaconProposal", ["APPROVED", "DENIED", "FAILED", "UNKNOWN"], false), ("services/signer/standard/signgeneric.go:SignGeneric", ["APPROVED", "DENIED", "FAILED", "UNKNOWN"], false), ("services/walletmanager/standard/lock.go:Lock", ["APPROVED", "DENIED", "FAILED", "UNKNOWN"], false), ("services/walletmanager/standard/unlock.go:Unlock", ["APPROVED", "DENIED", "FAILED", "UNKNOWN"], false)]

/-- services/api/grpc/service.go, createServer: fields of the server's tls.Config -/
def tlsClientAuth : Option String := some "tls.RequireAndVerifyClientCert"
def tlsMinVersion : Option String := some "tls.VersionTLS13"
def tlsClientCAsSet : Bool := true
/-- the TLS credentials are appended to the options handed to the one and only grpc.NewServer -/
def grpcCredsInstalled : Bool := true
def grpcNewServerCalls : Nat := 1
def otherGrpcServers : List String := []
def registeredServices : List String := ["WalletManager", "AccountManager", "Lister", "Signer", "DKG"]
def interceptorChain : List String := ["grpcctxtags.UnaryServerInterceptor", "interceptors.RequestIDInterceptor", "interceptors.SourceIPInterceptor", "interceptors.ClientInfoInterceptor"]

/-- services/api/grpc/interceptors/clientinfo.go: the expression stored as the client name, and where the certificate comes from -/
def clientNameExpr : Option String := some "peerCert.Subject.CommonName"
def clientCertSource : Option String := some "peerCerts := authState.PeerCertificates; peerCert := peerCerts[0]"

/-- rules/standard/service.go: record-key action bytes -/
def actionBytes : List String := ["actionSignBeaconAttestation=[]byte{0x02}", "actionSignBeaconProposal=[]byte{0x03}"]

/-- syntactic inventory of panic-capable constructs (explicit panic, unchecked type assertion, slicing with
    constant bounds of a request-supplied byte field, allocation sized by a request field) in the packages that
    client requests reach -/
def panicSites : List String := [
  "rules/standard/sign.go:Service.OnSign:slice:req.Domain[0:4]",
  "rules/standard/sign.go:Service.OnSign:slice:req.Domain[0:4]",
  "rules/standard/sign.go:Service.OnSign:slice:req.Domain[0:4]",
  "rules/standard/signbeaconattestation.go:signBeaconAttestationState.Decode:slice:data[1:9]",
  "rules/standard/signbeaconattestation.go:signBeaconAttestationState.Decode:slice:data[9:17]",
  "rules/standard/signbeaconattestation.go:signBeaconAttestationState.Encode:make:make([]byte, 1+8+8)",
  "rules/standard/signbeaconattestation.go:signBeaconAttestationState.Encode:slice:data[1:9]",
  "rules/standard/signbeaconattestation.go:signBeaconAttestationState.Encode:slice:data[9:17]",
  "rules/standard/signbeaconattestations.go:Service.runSignBeaconAttestationChecks:slice:req.Domain[0:4]",
  "rules/standard/signbeaconproposal.go:Service.OnSignBeaconProposal:slice:req.Domain[0:4]",
  "rules/standard/signbeaconproposal.go:signBeaconProposalState.Decode:slice:data[1:9]",
  "rules/standard/signbeaconproposal.go:signBeaconProposalState.Encode:make:make([]byte, 1+8)",
  "rules/standard/signbeaconproposal.go:signBeaconProposalState.Encode:slice:data[1:9]",
  "services/api/grpc/interceptors/clientinfo.go:ClientInfoInterceptor:assert:grpcPeer.AuthInfo.(credentials.TLSInfo)",
  "services/locker/syncmap/service.go:Service.Lock:assert:lock.(*sync.Mutex)",
  "services/locker/syncmap/service.go:Service.Unlock:assert:lock.(*sync.Mutex)",
  "services/locker/syncmap/service.go:Service.Unlock:panic:panic(\"Attempt to unlock an unknown lock\")",
  "services/peers/static/service.go:Service.Suitable:make:make([]*core.Endpoint, threshold)",
  "services/process/standard/crypto.go:Service.contribution:make:make([]bls.PublicKey, threshold)",
  "services/process/standard/crypto.go:Service.contribution:make:make([]bls.SecretKey, threshold)",
  "services/process/standard/generate.go:Service.generate:assert:wallet.(e2wtypes.WalletAccountCreator)",
  "services/process/standard/generate.go:Service.generateDistributed:make:make([]bls.ID, signingThreshold)",
  "services/process/standard/generate.go:Service.generateDistributed:make:make([]bls.Sign, signingThreshold)",
  "services/process/standard/service.go:Service.OnCommit:make:make([]bls.PublicKey, generation.threshold)",
  "services/process/standard/service.go:Service.storeDistributedKey:assert:wallet.(e2wtypes.WalletDistributedAccountImporter)",
  "services/signer/standard/multisign.go:Service.Multisign:make:make([]*ruler.RulesData, entries)",
  "services/signer/standard/multisign.go:Service.Multisign:make:make([]e2wtypes.Account, entries)",
  "services/signer/standard/signbeaconattestations.go:Service.SignBeaconAttestations:make:make([]*ruler.RulesData, entries)",
  "services/signer/standard/signbeaconattestations.go:Service.SignBeaconAttestations:make:make([]e2wtypes.Account, entries)",
  "services/signer/standard/signingroot_encoding.go:SigningRoot.UnmarshalSSZ:slice:buf[0:32]",
  "services/signer/standard/signingroot_encoding.go:SigningRoot.UnmarshalSSZ:slice:buf[0:32]",
  "services/signer/standard/signingroot_encoding.go:SigningRoot.UnmarshalSSZ:slice:buf[32:64]",
  "services/signer/standard/signingroot_encoding.go:SigningRoot.UnmarshalSSZ:slice:buf[32:64]",
  "util/bls.go:BLSID:panic:panic(err)",
  "util/path.go:ResolvePath:panic:panic(\"could not determine a home directory\")",
  "util/scatter.go:Scatter:make:make([]*ScatterResult, workers)",
  "util/scatter.go:Scatter:make:make(chan *ScatterResult, workers)",
  "util/scatter.go:Scatter:make:make(chan error, workers)"
]

end Dirk.Gen
