#!/usr/bin/env python3
"""seeded_matrix.py [ids...] — for every confirmed seeded change: apply it to /repo, run the quick check of its property,
undo it straight afterwards; writes seeded/MATRIX.md (which check reports what)."""
import json, os, subprocess, sys, glob
os.environ["VERIF_SCRATCH"] = "1"     # runs against changed trees do not overwrite the evidence of record
V = "/verif"
ids = sys.argv[1:] or sorted(os.path.basename(d) for d in glob.glob(V + "/seeded/C*"))
rows = []
for sid in ids:
    d = os.path.join(V, "seeded", sid)
    meta = json.load(open(os.path.join(d, "meta.json")))
    prop = meta["property"]
    assert subprocess.run(["git", "-C", "/repo", "status", "--short"], capture_output=True, text=True).stdout.strip() == "", "/repo not clean"
    rc = subprocess.run(["git", "-C", "/repo", "apply", os.path.join(d, "patch.diff")]).returncode
    if rc != 0:
        rows.append((sid, prop, "PATCH DOES NOT APPLY", "")); continue
    try:
        p = subprocess.run(["./check", prop, "--tier", "quick"], cwd=V, capture_output=True, text=True, timeout=3000)
        vio = [l for l in p.stdout.splitlines() if l.startswith("VIOLATION")]
        kinds = []
        for l in vio:
            rp = l.split("replay=")[1].split()[0]
            k = os.path.basename(rp)[len(prop) + 1:].rsplit("-", 1)[0]
            kinds.append(k + (" (no-failing-input-found)" if l.rstrip().endswith("no-failing-input-found") else ""))
        rows.append((sid, prop, "exit %d" % p.returncode, "; ".join(kinds) or "NOT DETECTED"))
    finally:
        subprocess.run(["git", "-C", "/repo", "checkout", "--", "."])
        # files the patch ADDED are untracked: remove them too
        for l in open(os.path.join(d, "patch.diff")):
            if l.startswith("+++ b/"):
                nf = l[6:].strip()
                if subprocess.run(["git", "-C", "/repo", "ls-files", "--error-unmatch", nf], capture_output=True).returncode != 0:
                    try:
                        os.remove(os.path.join("/repo", nf))
                    except OSError:
                        pass
    print(rows[-1], flush=True)
subprocess.run([os.path.join(V, ".work", "factx-bin"), "/repo", os.path.join(V, "lean/Dirk/Gen/Facts.lean")])   # facts back to the unchanged tree
with open(os.path.join(V, "seeded", "MATRIX.md"), "w") as f:
    f.write("# Seeded changes × the quick check of their property (regenerate: tools/seeded_matrix.py)\n\n| seeded change | property | check exit | violations reported |\n|---|---|---|---|\n")
    for r in rows:
        f.write("| %s | %s | %s | %s |\n" % r)
