#!/bin/bash
# try_seeded.sh <patch.diff> <Cxx> [Cxx...]   — apply a seeded change to /repo, run the checks, undo it straight afterwards
p=$1; shift
export VERIF_SCRATCH=1
git -C /repo apply "$p" || exit 2
trap 'git -C /repo apply -R "$p" 2>/dev/null || git -C /repo checkout -- . ; git -C /repo checkout -- . ; for nf in $(grep -A1 "^new file mode" "$p" >/dev/null 2>&1; grep "^+++ b/" "$p" | sed "s|^+++ b/||"); do git -C /repo ls-files --error-unmatch "$nf" >/dev/null 2>&1 || rm -f "/repo/$nf"; done; git -C /repo status --short; /verif/.work/factx-bin /repo /verif/lean/Dirk/Gen/Facts.lean' EXIT
for c in "$@"; do
  ( cd /verif && timeout 3000 ./check $c --tier ${TIER:-quick} 2>&1 | grep -E "VIOLATION|KNOWN|^C[0-9]+|held|broken|wall" | head -20; echo "exit=${PIPESTATUS[0]}" )
done
