#!/usr/bin/env python3
"""rec.py <seeded-id> <key>=<value> ...   — record which checks catch a seeded change in its meta.json (under "checks")"""
import json, sys
p = "/verif/seeded/%s/meta.json" % sys.argv[1]
d = json.load(open(p)); c = d.setdefault("checks", {})
for kv in sys.argv[2:]:
    k, v = kv.split("=", 1); c[k] = v
json.dump(d, open(p, "w"), indent=1)
