#!/usr/bin/env python3
"""Regenerates MANIFEST.json from the table below (kept in one place so it stays valid)."""
import json
import os
import sys

V = os.path.dirname(os.path.dirname(os.path.abspath(__file__)))
sys.path.insert(0, os.path.join(V, "lib"))

CLAIMED = {
    "C01": dict(
        technique="Lean 4 theorem (invariant by induction over operation histories) + differential correspondence (hist engine) + Lean-spec judge",
        text="Theorems C01_monotone / C01 (Dirk/Props/C01.lean): for every configuration, pre-existing store, finite history of "
             "signing operations (single/batch, by name/key, duplicate keys, any epochs/domains, fetch/store/sign faults with the "
             "failed write landed or not, restarts) and key, released attestations are strictly increasing in target and "
             "non-decreasing in source, hence pairwise non-slashable. Proved for all inputs by Lean's kernel. The model is tied to "
             "/repo on every run by executing the same generated histories on the real signer+ruler+rules(badger) stack and on "
             "the model and diffing verdicts and exports; released signatures are judged by the Lean Slashable predicate.",
        note="Trusted: Lean kernel, propext/Classical.choice/Quot.sound; the correspondence check (harness, generators, driver); "
             "badger atomicity of Update/WriteBatch; BLS/wallet libraries. Modelled not verified: Go runtime, badger, wallets.",
        ref="DESIGN.md §6 C01"),
    "C02": dict(
        technique="Lean 4 theorem (invariant by induction over operation histories) + differential correspondence (hist engine) + Lean-spec judge",
        text="Theorems C02_increasing / C02 (Dirk/Props/C02.lean): for every configuration, store, history and key the slots of "
             "released proposal signatures are strictly increasing, so no two proposals share a slot. Kernel-checked for all "
             "inputs; model tied to /repo by the hist-engine correspondence and judged on the implementation's own output.",
        note="Trusted: Lean kernel and the three standard axioms; correspondence check; badger Update atomicity.",
        ref="DESIGN.md §6 C02"),
    "C05": dict(
        technique="Lean 4 theorems (decision logic of the three rule functions lifted to signer operations and to all reachable logs) + differential correspondence + Lean-predicate judge",
        text="Theorems C05_generic_single/_multi (no generic signature under attester/proposer domain types; exit type only for a "
             "listed non-empty source), C05_attest_only_attester / C05_propose_only_proposer (other domain types refused, store "
             "untouched) and C05_logs (in every reachable state every released attestation/proposal signature carries its own "
             "domain type), for all domains, data, admin lists and sources. Tied to /repo by domain-focused histories through the "
             "real signer; every released signature is judged by the Lean predicate.",
        note="Trusted: Lean kernel + 3 standard axioms; correspondence check; domain-type constants come from go-eth2-types and are validated by the engine, not regenerated.",
        ref="DESIGN.md §6 C05"),
    "C06": dict(
        technique="Lean 4 theorems (case analysis over result enums, induction over batch positions, arbitrary fault plans) + enumerated single-fault injection through verif hooks + differential correspondence",
        text="Theorems C06_att/_prop/_sign/_atts/_msign: for every fault plan, request and configuration a response position has a "
             "signature iff its state is SUCCEEDED; C06_*_fault: a failing read/write (landed or not)/signing call leaves no "
             "signature; C06_batch_*: a failing read or write anywhere fails the whole batch; C06_shape_*: one position per request. "
             "Tied to /repo by enumerating every single fault at every hook site for every request kind and batch position, "
             "undecodable records on disk, and seeded multi-fault histories; positions judged by the Lean biconditional.",
        note="Trusted: Lean kernel + 3 axioms; fault injection points are the verif hooks (Store.Fetch/Store/BatchStore entry, after-store, signRoot); handler-level mapping is covered by C20's wire engine.",
        ref="DESIGN.md §6 C06"),
    "C07": dict(
        technique="Lean 4 theorems (nested-loop Check == first-bearing-item specification; refused requests are no-ops) + differential correspondence against checker/static with a regex model + Lean-spec judge",
        text="Theorem C07_scan_eq_spec: Check's loops with early return equal 'first bearing item of the flattened operation lists of "
             "matching entries, default deny' for all compiled configurations; C07_unknown_client/_no_identity/_default_deny; "
             "C07_refused_no_effect_*: a refused signing request returns no signature and leaves store and logs untouched; "
             "C07_resolved_account: the decision is taken on the canonical name of the resolved account. The whole-name, "
             "case-insensitive matching of patterns (regexify + Go regexp) is modelled (RE2 fragment, derivative matcher) and tied "
             "by ~15k generated (configuration, probe) decisions per quick run, each judged by the Lean specification firstBearing.",
        note="Partial for one link: 'anchored search == whole-name match' is carried by the correspondence and judge, not by a theorem. Go regexp outside the modelled fragment and Unicode folding are not covered. main.go's map-ordered entry list is out of scope (the ordered list given to the checker is what is modelled).",
        ref="DESIGN.md §6 C07"),
}


def main():
    props = [json.loads(l) for l in open(os.path.join(V, "properties.jsonl"))]
    na_reasons = {}
    p = os.path.join(V, "tools", "not_applicable.json")
    if os.path.exists(p):
        na_reasons = json.load(open(p))
    checks = []
    for pr in props:
        pid = pr["id"]
        if pid not in CLAIMED:
            continue
        c = CLAIMED[pid]
        checks.append({
            "property_id": pid,
            "quick_cmd": "./check %s --tier quick" % pid,
            "thorough_cmd": "./check %s --tier thorough" % pid,
            "evidence_file": "/verif/evidence/%s.json" % pid,
            "replay_cmd_template": "./check %s --replay {path}" % pid,
            "engine": c.get("engine", "lean+hist"),
            "level_claimed": {"category": "proof", "text": c["text"], "design_ref": c["ref"]},
            "level_note": c["note"],
            "technique": c["technique"],
        })
    m = {
        "version": 1,
        "setup_cmd": "./setup.sh",
        "hooks": {
            "guard": "verif",
            "enable": "go build -tags verif (the harness in /verif/harness is built with this tag against /repo's working tree)",
            "baseline_off_cmd": "cd /repo && GOFLAGS=-mod=mod GOPROXY=off GOSUMDB=off GOTOOLCHAIN=local go test -json -vet=off -count=1 -timeout 25m ./...",
            "source_commits": ["7d36b19"],
            "add_only": True,
        },
        "engines": [
            {"name": "lean", "path": "lean/", "serves_properties": sorted(CLAIMED), "kind_free_text": "Lean 4 model, specs, lemmas, property theorems, compiled model driver (dirkmodel)"},
            {"name": "dh", "path": "harness/", "serves_properties": sorted(CLAIMED), "kind_free_text": "Go harness wiring real dirk services (built with -tags verif from /repo's working tree); line protocol shared with the Lean driver"},
            {"name": "check", "path": "check", "serves_properties": sorted(CLAIMED), "kind_free_text": "Python orchestration: build, generate, run both sides, diff, judge, shrink, evidence"},
        ],
        "checks": checks,
        "not_applicable": [{"property_id": pr["id"], "reason": na_reasons.get(pr["id"], "check not built yet (work in progress; planned, see DESIGN.md)")}
                           for pr in props if pr["id"] not in CLAIMED],
        "notes": "One technique family: machine-checked proof in Lean 4 over a hand-written executable model, tied to /repo by a differential correspondence check on every run. See DESIGN.md.",
    }
    json.dump(m, open(os.path.join(V, "MANIFEST.json"), "w"), indent=1)
    print("claimed:", sorted(CLAIMED))


if __name__ == "__main__":
    main()
