#!/usr/bin/env python3
"""Regenerates MANIFEST.json from the table below (kept in one place so it stays valid)."""
import json
import os
import sys

V = os.path.dirname(os.path.dirname(os.path.abspath(__file__)))
sys.path.insert(0, os.path.join(V, "lib"))

CLAIMED = {
    "C01": dict(
        technique="Lean 4 theorem (invariant by induction over operation histories) + check kernel regenerated from the Go source by a translator and proved equal to the model + differential correspondence (hist engine, concurrent cross-soak) + Lean-spec judge",
        text="Theorems C01_monotone / C01 (Dirk/Props/C01.lean): for every configuration, pre-existing store, finite history of "
             "signing operations (single/batch, by name/key, duplicate keys, any epochs/domains, fetch/store/sign faults with the "
             "failed write landed or not, restarts) and key, released attestations are strictly increasing in target and "
             "non-decreasing in source, hence pairwise non-slashable. Proved for all inputs by Lean's kernel. The model is tied to "
             "/repo on every run by executing the same generated histories on the real signer+ruler+rules(badger) stack and on "
             "the model and diffing verdicts and exports; released signatures are judged by the Lean Slashable predicate. "
             "C01_kernel_is_source: the model's check function equals, for all inputs, the Lean function factx translates on every "
             "run from the current Go source of runSignBeaconAttestationChecks."
             " Histories also hold import commands, account creation, lock/unlock operations (theorems stated for all histories without raw store-level imports, generalised in C01_with_imports), stores carried over in the legacy record format, a second service opened on a live store (must be refused), and rules-level batches of 10^5 synthetic validator keys.",
        note="Trusted: Lean kernel, propext/Classical.choice/Quot.sound; the correspondence check (harness, generators, driver); "
             "badger atomicity of Update/WriteBatch; BLS/wallet libraries. Modelled not verified: Go runtime, badger, wallets.",
        ref="DESIGN.md §6 C01"),
    "C02": dict(
        technique="Lean 4 theorem (invariant by induction over operation histories) + rule kernel regenerated from the Go source by a translator and proved equal to the model + differential correspondence (hist engine, concurrent cross-soak) + Lean-spec judge",
        text="Theorems C02_increasing / C02 (Dirk/Props/C02.lean): for every configuration, store, history and key the slots of "
             "released proposal signatures are strictly increasing, so no two proposals share a slot. Kernel-checked for all "
             "inputs; model tied to /repo by the hist-engine correspondence and judged on the implementation's own output. "
             "C02_kernel_is_source: onPropose equals the function translated on every run from the Go source of OnSignBeaconProposal, applied to the model store."
             " Same enlarged histories as C01; legacy gob records holding slot 0; facts_store_options (NewStore sets no option that switches off the directory lock). Start-up stage (signing while the service starts on a store with old-format records) as in C03/C04. Generic-cross histories: no generic signature may verify over another entry's proposer-domain root.",
        note="Trusted: Lean kernel and the three standard axioms; correspondence check; badger Update atomicity.",
        ref="DESIGN.md §6 C02"),
    "C05": dict(
        technique="Lean 4 theorems (decision logic of the three rule functions lifted to signer operations and to all reachable logs) + differential correspondence + Lean-predicate judge",
        text="Theorems C05_generic_single/_multi (no generic signature under attester/proposer domain types; exit type only for a "
             "listed non-empty source), C05_attest_only_attester / C05_propose_only_proposer (other domain types refused, store "
             "untouched) and C05_logs (in every reachable state every released attestation/proposal signature carries its own "
             "domain type), for all domains, data, admin lists and sources. Tied to /repo by domain-focused histories through the "
             "real signer; every released signature is judged by the Lean predicate, BLS-verified over the model's signing root for its own "
             "domain and required not to verify under attester/proposer-typed domains. C05_kernel_is_source: onSign equals the function "
             "translated on every run from the Go source of OnSign."
             " gRPC-routed requests come from several loopback source addresses (client socket bound to 127.0.0.2/.3) against admin lists over them: the source is the REMOTE end of the connection. C05_dispatch_is_source: the ruler's action dispatch (which rule answers which action) is translated from the source on every run; each signing rule is reachable through exactly one action.",
        note="Trusted: Lean kernel + 3 standard axioms; correspondence check; domain-type constants come from go-eth2-types and are validated by the engine, not regenerated.",
        ref="DESIGN.md §6 C05"),
    "C06": dict(
        technique="Lean 4 theorems (case analysis over result enums, induction over batch positions, arbitrary fault plans) + enumerated single-fault injection through verif hooks + differential correspondence",
        text="Theorems C06_att/_prop/_sign/_atts/_msign: for every fault plan, request and configuration a response position has a "
             "signature iff its state is SUCCEEDED; C06_*_fault: a failing read/write (landed or not)/signing call leaves no "
             "signature; C06_batch_*: a failing read or write anywhere fails the whole batch; C06_shape_*: one position per request. "
             "Tied to /repo by enumerating every single fault at every hook site for every request kind and batch position, "
             "undecodable records on disk, and seeded multi-fault histories; positions judged by the Lean biconditional."
             " Also faults raised by badger itself: its write-refusal state (ErrBlockedWrites, reads still served) for the duration of a request, and a real shutdown beginning while a request stands at its write. Fact obligations facts_rules_results / facts_result_switches_total on the regenerated enumerators and switches."
             " Fault u: the accounts of a request cannot say whether they are unlocked. The permission judge (every signature must be granted by the specification) runs here too. Fault r<k>: the ruler hands the signer fewer verdicts than requests (Model/ShortRules.lean; C06_unruled_atts/_msign/_is_prefix: positions nobody ruled on are never signed). C06_kernel_is_source: the signing loop of SignBeaconAttestations / Multisign (verdict switch, error checks, loop bound len(rulesResults)) is translated from the source on every run and proved equal to the model's signing pass.",
        note="Trusted: Lean kernel + 3 axioms; fault injection points are the verif hooks (Store.Fetch/Store/BatchStore entry, after-store, signRoot); handler-level mapping is covered by C20's wire engine.",
        ref="DESIGN.md §6 C06"),
    "C07": dict(
        technique="Lean 4 refinement theorem (Check == specification firstBearing for every accepted configuration and request, incl. a verified derivative regex matcher and the anchoring lemma) + regexify/Check kernels regenerated from the Go source and proved equal to the model + differential correspondence against checker/static + Lean-spec judge",
        text="Theorem C07_check_refines_spec (Dirk/Props/C07Refine.lean): for every configuration checker/static accepts and every client, account and "
             "operation, Check answers exactly Spec.firstBearing (entries in order, whole-name case-insensitive matching, first bearing item decides, default "
             "deny); it rests on Re.matchFrom_iff / Re.search_anchored (the derivative matcher is correct w.r.t. a positional semantics and a search for "
             "^(?:p)$ is a whole-name match of p). Theorem C07_scan_eq_spec: Check's loops with early return equal 'first bearing item of the flattened operation lists of "
             "matching entries, default deny' for all compiled configurations; C07_unknown_client/_no_identity/_default_deny; "
             "C07_refused_no_effect_*: a refused signing request returns no signature and leaves store and logs untouched; "
             "C07_resolved_account: the decision is taken on the canonical name of the resolved account. The whole-name, "
             "case-insensitive matching of patterns (regexify + Go regexp) is modelled (RE2 fragment, derivative matcher) and tied "
             "by ~15k generated (configuration, probe) decisions per quick run, each judged by the Lean specification firstBearing."
             " Also: account-manager Lock/Unlock requests; a listing stage; and the path from the configuration FILE to the checker (the built binary's --show-permissions must print every operation list in the order written). Identity variants of every configured client (case, blanks, look-alikes, extensions) through the real gRPC API. Creation stage: the specification must grant Create for the name the account now has. C07_precheck_is_source: the signer's preCheck / fetchAccount / checkAccess / unlockAccount are translated from the source on every run and proved equal to the model's preCheck.",
        note="One hypothesis about the string-level regex parser (regexify's output parses to the anchored shape around the parse of the pattern, ShapeOK) is not proved; the driver evaluates it for every pattern in use. Go regexp outside the modelled fragment and Unicode folding are not covered. main.go's map-ordered entry list is out of scope (the ordered list given to the checker is what is modelled).",
        ref="DESIGN.md §6 C07"),
    "C08": dict(
        technique="Lean 4 theorems (batch alignment, what-is-signed, injectivity of SSZ chunks) + real BLS verification of real signatures against the Lean model's SHA-256/SSZ signing roots",
        text="Partial (crypto assumed). Theorems C08_batch_pointwise (response position i carries the signing root of request i's own "
             "data; the rules call preserves order and payload), C08_signed_root (single endpoints sign the root of exactly the "
             "submitted data under the resolved account's key), C08_leaves_injective / C08_header_leaves_injective (SSZ chunks "
             "determine well-formed data). Tie: every signature the implementation returns (batches of 1..65, thorough 300, "
             "GOMAXPROCS 1,2,3,16) is verified by the real BLS library under the addressed account's key over the root computed "
             "by the Lean model's own SHA-256/merkleisation; neighbouring positions' roots must be rejected."
             " Every released signature is judged against the signing root of ITS OWN entry's data (Lean aroot/proot/sroot) even where the model signs nothing; batches with an entry failing before the rules at front/middle/end."
             " Runs with trace-level logging; distributed accounts addressed by composite and by share keys; all-by-name / all-by-key batches. Account names containing a slash beside an account named by their first element. Failed-then-retried requests (signing / write faults between successes).",
        note="Assumed: SHA-256 collision resistance, herumi BLS. The model's SHA-256/SSZ are re-implementations tied by the verification itself.",
        ref="DESIGN.md §6 C08"),
    "C09": dict(
        technique="Lean 4 theorems (rule-level liveness, batch = sequence by induction with distinct keys, scatter partition for all n,p; history-level liveness via the exact-record invariant) + twin-instance differential + exhaustive scatter grid + Lean judge",
        text="Theorems C09_live_att_rule/_prop_rule (a well-formed request above the record and below 2^63 is approved and "
             "recorded), C09_batch_eq_seq (for distinct keys with decodable records the batch path returns, position by position, "
             "the verdicts of its entries one at a time), C09_scatter_partition (Scatter's extents tile [0,n) for every n,p>0). "
             "Tie: util.Scatter vs the Lean extents on the full grid n<=600 x 9 GOMAXPROCS values; clean histories judged for "
             "liveness by the Lean predicate; each history's last batch re-run entry by entry on a twin instance."
             " Wide batches over validators with different histories. Batches of thousands of distinct keys; a request not answered within the watchdog time is reported with its history. Transient-fault histories: the same duty again after a store call that failed without effect must be signed.",
        note="Liveness at history level assumes fault-free, import-free histories (stated in the property). Trusted: Lean kernel + 3 axioms; correspondence check.",
        ref="DESIGN.md §6 C09"),
    "C10": dict(
        technique="Lean 4 theorems over a model of the command-level import (parse, merge, write) + differential correspondence against the built dirk binary + Lean-spec judge on observed exports",
        text="Theorems C10_never_lowers, C10_protects (every number in the file is covered afterwards), C10_sequence_never_lowers / C10_sequence_protects (stated over ANY list of files run one after the other, accepted or refused: nothing ends lower, every accepted file stays covered to the end), C10_sequence_refuses_prop/_att (end to end: on the store left by the whole list, a proposal at or below a slot, or a vote at or below a target / below a source, that an accepted file states is refused under every fault plan), C10_composes (range invariant "
             "preserved, so any sequence of imports), C10_refuses_after_prop/_att, C10_bad_metadata, C10_parse_error_no_change; "
             "for all prior stores in int64 range, files and flags. Tie: the dirk binary itself is built from /repo and driven "
             "through import/export on real badger directories (prior stores, repeated keys, mixed-age fields, malformed numbers "
             "and keys, bad metadata, sequences), exports and rule probes diffed with the model, each import judged by the Lean "
             "predicate importProtects on the before/after exports."
             " C10_kernel_is_source: the merge is the fold of the step translated from storeSlashingProtection; C10_import_command_keeps_invariants; the import command run while an instance holds the store must be refused. Number-spelling corpus (leading zeros, 0x/0o/0b, signs, blanks, underscores).",
        note="encoding/json and viper are outside the model (both sides get the same structured file description). Trusted: Lean kernel + 3 axioms; correspondence check.",
        ref="DESIGN.md §6 C10"),
    "C11": dict(
        technique="Lean 4 theorems (codec round-trip, export->import->same fetched states and decisions, exact-record invariant) + differential correspondence incl. Go-gob-encoded legacy records and binary export/import round trip + Lean judge",
        text="Theorems C11_codec_roundtrip, C11_restart, C11_import_export_same_decisions (re-imported store fetches the same states, "
             "so every request gets the same verdict). Tie: clean histories with frequent exports judged 'exactly the highest "
             "released slot/source/target'; stores pre-populated with records produced by Go's own encoding/gob opened by the "
             "real rules service and probed around the watermarks (the Lean gob model decodes the same bytes); export by the "
             "binary -> import into an empty store by the binary -> identical probes on both stores must agree."
             " Stores of 1100 keys (2200 records); refused-write histories. Keys whose only attestation is the genesis one (0,0).",
        note="The Lean gob model covers streams Go's encoder produces for the two legacy structs. Trusted: Lean kernel + 3 axioms; correspondence check.",
        ref="DESIGN.md §6 C11"),
    "C03": dict(
        technique="Lean 4 theorems over a micro-step model with crash transitions (invariant by induction over executions) + kill-at-every-hook-point differential (SIGKILL, restart on the same badger directory) + Lean judge + SyncWrites read-back and strace probe",
        text="Partial (disk durability assumed). Theorems C03_recorded_before_release (in every reachable state of every execution "
             "with any number of crashes, every in-flight or released signature is covered by its key's stored record), "
             "C03_refuses_after_crash (every request slashable against a released signature is refused afterwards), "
             "C03_released_never_slashable. Tie: a child process is SIGKILLed at every hook point of seeded histories; the restarted "
             "instance's export must cover everything returned before the kill (Lean judge), equal the model's store before or after "
             "the interrupted request, and refuse conflicting probes; call-order traces (store exit before sign) are diffed with the "
             "model; SyncWrites is read back from the open store and the value log's O_DSYNC/fsync is checked under strace; record permanence: the closed store is read with badger itself after histories run with and without periodic pruning and no record may carry an expiry time."
             " Replies given before each kill are compared with the model (a request whose state write failed must carry no signature); fact obligation facts_result_switches_total (every switch over rules.Result names all enumerators or has a default)."
             " Start-up stage shared with C04 (stores with old-format records, stalled first write, periodic pruning on). Read faults on batch positions and write faults before the kill. Crafted history with batches in descending key order.",
        note="Assumed: fsynced badger data survives power loss and badger's recovery replays it; SIGKILL cannot lose page-cache data so durability itself is probed only by option read-back and syscall trace. A crash leaving a strict subset of a batch written is not modelled (badger WriteBatch atomicity assumed).",
        ref="DESIGN.md §6 C03"),
    "C04": dict(
        technique="Lean 4 theorems on a small-step concurrent model of the lock protocol (mutual exclusion invariant, atomic commit, linearizability, real-time order) + lock-call trace correspondence + steered schedules judged linearizable by the Lean driver",
        text="Partial (scheduler). Theorems C04_mutual_exclusion, C04_commit_atomic (each commit equals the request's sequential meaning "
             "applied atomically), C04_linearizable (final store = sequential object on the requests in commit order, any number of "
             "threads, any interleaving), C04_real_time_order, C04_footprint_attest, C04_trace_is_protocol. Tie: recorded locker/store "
             "call sequences of every request equal the model's; steered concurrent schedules (a request parked between read and write) "
             "are judged by a Wing-Gong search in the Lean driver against the sequential model, plus slashability of everything released; soak runs."
             " Start-up histories: stores pre-filled with old-format / current / no records, the first state write after the service starts stalled, a request conflicting with one answered earlier must be refused."
             " Every concurrent scenario starts after the locker has served 1500 other keys; a Go panic during a scenario is reported with the scenario as the failing input; start-up histories with the store's maintenance goroutine running. C04_lock_protocol_is_source / C04_rules_path_is_source: RunRules' lock calls, key width and rule-path choice are translated from the source on every run and proved to be the model's; scenario kind refused-entry-vs-single.",
        note="Assumed: Go's sync.Mutex semantics and memory model, badger atomic writes. Real interleavings are sampled and steered, only the model's are covered universally.",
        ref="DESIGN.md §6 C04"),
    "C15": dict(
        technique="Lean 4 theorems on the concurrent lock-protocol model (progress from the invariant, strictly decreasing measure, completion; counter-model without the global section) + lock-call trace correspondence + watchdog runs",
        text="Partial (scheduler). Theorems C15_progress (in every reachable state some request can step unless all are done), "
             "C15_measure (every step decreases a measure), C15_complete, C15_needs_global (the protocol without PreLock/PostLock "
             "deadlocks on [0,1] vs [1,0]). Tie: lock-call traces equal the model's (all Locks between PreLock and PostLock, Unlocks "
             "after the rules in reverse, none on a failed duplicate check); concurrent batches with opposite/nested/crossing key orders "
             "and sustained load must complete within a watchdog under several GOMAXPROCS."
             " Also: stores in which several keys hold undecodable records. First use of still-locked accounts by requests that learn the lock state late (stalelock). C04_lock_protocol_is_source / C15_distinct_keys_is_source: the lock protocol and the duplicate-key refusal of RunRules are translated from the source on every run and proved to be the model's lockWrap / firstDup. Bursts of single requests for distinct keys.",
        note="Assumed: a blocked Mutex.Lock proceeds once the mutex is free.",
        ref="DESIGN.md §6 C15"),
    "C12": dict(
        technique="Lean 4 + Mathlib theorems over an arbitrary field/module (Feldman VSS consistency, Lagrange recovery, fewer-than-t failure, order independence, parameter bounds) + parameter-check kernel regenerated from the Go source + protocol model + differential dkg engine over real process instances + Lean-driver Lagrange recovery over Z_r from extracted shares",
        text="Partial (crypto library assumed). Theorems C12_share_consistent, C12_same_key, C12_recover (any t ids recover the group "
             "secret applied to any point), C12_fewer_fail, C12_bounds (accepted iff 1<=n, n<2t, t<=n with the code's integer "
             "division), C12_protocol_success, C12_generation_succeeds (message-level cluster model: on a fresh cluster every Prepare, "
             "every Execute in ANY order and every Commit is accepted and all participants end holding the account). Tie: n real process/standard instances joined through the real receiver handlers; "
             "all (n,t) incl. every t outside the range, id sets small/sparse/near 2^64, different initiators, delayed and tampered "
             "commit replies; on success the relation vector the theorems name is checked with the BLS library (same composite "
             "key/vector/threshold/participants, share vs vector, every t-subset recovers, no (t-1)-subset does, immediate sign+list) "
             "and the secret recovered by the Lean driver's own Lagrange interpolation over Z_r maps to the composite key."
             " After each further generation into the same wallet every earlier account is re-examined (held, consistent, usable)."
             " Clusters with more peers than participants and vice versa; judges on the bounds and the participant count of every reported success. Generations for different names in one wallet with overlapping commit phases (op gensp). Clusters whose instances see each other under different ports; participant endpoints compared.",
        note="Assumed: herumi BLS (field/group laws, hash-to-curve, Recover), CSPRNG. Real gRPC between daemons is unavailable in the sandbox (peer names do not resolve); messages pass the real receiver handlers after a protobuf round trip.",
        ref="DESIGN.md §6 C12", engine="lean+dkg"),
    "C13": dict(
        technique="Lean 4 theorems on the message-level cluster model (rejected contributions store nothing, only a successful commit creates an account, aggregation in range) + acceptance kernel of OnContribute regenerated from the Go source + complete enumeration of fault kinds x message positions on real instances",
        text="Theorems C13_reject, C13_accounts_only_by_commit, C13_no_account, C13_no_crash, C13_legacy_counterexample. Tie: for small "
             "(n,t) every fault kind (lost, error reply, share replaced, commitment altered, vector short/long/long-with-neutral-entry, "
             "altered reply share/vector, duplicate) at every prepare/execute/contribute position through the routing sender: the "
             "generation must end in an error, no instance may hold the account, no process may die, and a clean generation must work afterwards."
             " Fault kinds also: empty / one-entry vectors, a second delivery with an altered vector. An unaltered contribution delivered twice must end consistently (account everywhere, or an error and the account nowhere).",
        note="Cryptographic validity of a share is abstract in the model (valid / invalid + vector length); the BLS library decides it in the run.",
        ref="DESIGN.md §6 C13", engine="lean+dkg"),
    "C14": dict(
        technique="Lean 4 + Mathlib theorem (quorum intersection over Finset + per-instance C01/C02 invariants) + differential cluster engine with a real distributed account + Lean quorum judge + BLS combination of partial signatures",
        text="Theorems C14 / C14_proposals: for n independent instance models, any routing/order/repetition of operations and any pair of "
             "conflicting duties, the sets of instances that released a signature for each cannot both reach t when 2t>n; "
             "C14_threshold_from_generation links 2t>n to the generation bounds. Tie: a really generated distributed account on n real "
             "instances with separate rules stores; conflicting duty pairs routed to random subsets/interleavings with repeats; "
             "per-instance verdicts diffed with the model; the Lean judge counts partial signatures per duty; partial signatures of a "
             "duty that reached t are combined by the BLS library and verified under the composite key over the model's signing root."
             " Partial signatures are also counted by what they VERIFY over: every signature released in a pair's window is checked under the instance's share key against both duties' roots; duties also arrive as the first entry of a batch addressed to an unknown account. Conflicting pairs on the single endpoints while the store refuses writes (op iattb). Cluster processes under GOMAXPROCS 1 / default / 2.",
        note="Concurrency inside one instance is reduced to a serial order by C04. Assumed: BLS library.",
        ref="DESIGN.md §6 C14", engine="lean+dkg"),
    "C16": dict(
        technique="Lean 4 theorems on the receiver-handler model (non-peers refused with state unchanged; reply share indexed by the authenticated caller) + complete enumeration of caller kinds x messages x instances x session states on the real handlers",
        text="Theorems C16_refuse_non_peer (all five handlers return unknown-sender and leave the cluster unchanged when the caller's "
             "authenticated name is not a configured peer), senderId_ne_zero_iff, C16_share_owner. Tie: real receiver.Handler with "
             "context-injected names (clients with full permissions, empty, unknown, case-changed, near-miss, unconfigured signer) x "
             "5 messages x instances x states none/prepared/executed/committed, generation then completed by a peer; share ownership for "
             "all ordered participant pairs checked with the BLS library (the reply's share verifies at the caller's id only)."
             " Projection judge: the same scenario without the messages refused as 'unknown sender' must answer every other message identically (refused AND changes nothing, decided on the implementation alone)."
             " C16_projection (history level). Op shareowners: replies examined after later calls were handled. Op hexecute2: the same Execute from a peer and from a non-peer overlapping in time. Peer-table validation (peersAccepted; C16_accepted_peers_distinct, C16_duplicate_peer_name_refused).",
        note="TLS authentication itself is C19; here the authenticated name is injected into the context the way the interceptor does.",
        ref="DESIGN.md §6 C16", engine="lean+dkg"),
    "C17": dict(
        technique="Lean 4 theorems on the session state machine (one-per-name lifecycle, commit completeness, independence of names) + differential life engine with real timeouts + Lean judge on commit completeness",
        text="Theorems C17_prepare_twice, C17_requires_active, C17_gone_after (commit/abort/timeout), C17_restart_allowed, "
             "C17_commit_complete (a successful commit implies every listed participant contributed), C17_independent_names, "
             "C17_lifecycle_all_histories (for EVERY event sequence the reply-level lifecycle judge Spec.Life is silent on the model). Tie: "
             "hand-written and seeded event sequences over two account names on real instances with a 3 s generation timeout and real "
             "sleeps, staggered expiries and simultaneous prepares; reply classes and account presence diffed with the model; every successful commit "
             "judged on the model state and every reply judged by Spec.Life on the implementation's output alone."
             " Variants in which the callers' request contexts carry deadlines far beyond / well inside the generation timeout."
             " Templates: failed execute then commit; a re-prepared name crossing the old generation's deadline. Dozens of abandoned generations; a prepare refused while no generation for the account is live is a violation. Valid contributions (hcontributev) before and after expiry.",
        note="Event sequences are restricted to those whose outcome does not depend on Go's map iteration order. The model clock advances only by explicit sleeps (chosen far from the timeout).",
        ref="DESIGN.md §6 C17", engine="lean+dkg"),
    "C18": dict(
        technique="Lean 4 theorems (membership characterisation of the listing: sound, complete, own fields, dynamic creation) + differential list engine + Lean-spec judge with whole-name matching",
        text="Theorems mem_listAccounts / C18_sound / C18_complete / C18_complete_whole_name (every accessible account whose WHOLE name matches a "
             "requested pattern is listed, although the lister anchors the pattern as a string without grouping: C18_anchor_only_widens) / C18_fields / C18_dynamic over the lister model for all populations, "
             "permission configurations, clients and path lists. Tie: generated wallet/account populations, per-account permission "
             "tables, path lists (wallet only, regex, trailing slash, unknown, case variants, malformed, duplicates), listings before "
             "and after accounts created through dirk; result multisets diffed with the model and judged sound/complete by the Lean "
             "specification (firstBearing + whole-name match); each entry's key cross-checked with the fetcher."
             " Populations include DISTRIBUTED wallets with imported accounts (participant endpoints of every spelling) and 40% of the scenarios are listed through the real gRPC ListAccounts handler; earlier listings are repeated after creations."
             " Key generation with a wallet-store read fault: what is in a participant's wallet is listed. A wallet in a second store of the same type. Patterns differing only in the case of a class escape. C18_kernel_is_source: ListAccounts (anchoring, per-path and per-account decisions) is translated from the source on every run and proved to be the model's listAccounts.",
        note="Over-listing inside accessible accounts of a requested wallet (the lister's un-grouped anchoring) is not flagged: C18 as stated allows it.",
        ref="DESIGN.md §6 C18"),
    "C19": dict(
        technique="Lean 4 theorem on a transport-policy model instantiated with facts regenerated from the source on every run (factx: client-auth mode, credentials on the only gRPC server, registered services, interceptor chain, origin of the client name) + exhaustive credential x method matrix against a real daemon over TLS",
        text="Partial (crypto/tls assumed). Theorems C19_policy / C19: with the regenerated server configuration, whatever RPC is served "
             "was requested with a currently valid certificate from a configured authority and carries that certificate's subject name; "
             "the fact obligations (facts_tls_*, facts_services, facts_interceptor, facts_clientName) are re-proved against the source "
             "on every run. Tie: testing/daemon.New on 127.0.0.1; 11 credential kinds minted at run time (plaintext, no certificate, "
             "self-signed, other authority, expired, not yet valid, valid permitted/unpermitted clients, a peer) x every method of every "
             "service in the pb descriptors x two wallets; refused-vs-served compared with the model; identity observed through "
             "permission outcomes and the DKG unknown-sender reply."
             " Since round 5: 26 credential kinds incl. TLS 1.3 resumption tickets forged under six keys computable from public data; fact obligation facts_tls_fields (only reviewed tls.Config fields, no method called on the config)."
             " A concurrent stage (clients with different permissions sending identical requests at once) and permitted names of 63-200 bytes with subjects extending them.",
        note="Assumed: crypto/tls and x509 implement the documented ClientAuthType semantics; gRPC dispatches only on an established connection. factx is a syntactic extractor (go/ast).",
        ref="DESIGN.md §6 C19", engine="lean+factx+dh"),
    "C20": dict(
        technique="Lean 4 theorems with crash-capable operations made explicit (slice capacity, request-sized allocation) + regenerated inventory of panic-capable sites checked against a reviewed list by the kernel + handler-model correspondence through the real gRPC API + raw-wire fuzzing of a daemon child under an address-space limit with liveness probes",
        text="Partial (runtime memory). Theorems C20_sites_covered (every site factx finds is reviewed; decide +kernel), "
             "C20_domain_slice_safe, C20_alloc_bounded, C20_dkg_non_peer, C20_handlers_shape. Tie: seeded histories through the real gRPC "
             "API (TLS, interceptors, handlers) diffed position by position with the Lean handler model; raw protobuf bytes (absent / "
             "empty / duplicated fields, odd byte lengths, extreme integers, batches, unknown fields, wrong wire types, truncation, "
             "garbage, DKG messages from non-peers) sent over gRPC to a daemon in a child process under ulimit -v 16 GiB, a second "
             "client probing liveness after every message."
             " Fixed corpus enumerates participant/threshold corner pairs of Generate on the distributed wallet."
             " The liveness probe also signs; regular-expression syntax payloads; callers that give up after 1-20 ms. Batch-size sweep (every size 1-70 and around multiples of the processor count). A paced sequence of wrong-passphrase unlocks. C20_handler_response_is_source / hSignAtts_eq_gen / hMultisign_eq_gen: the batch handlers' validation, early exits and result-to-response mapping are translated from the source on every run and proved to be the model handlers.",
        note="Assumed: allocator size classes (short byte fields get capacity >= 8), C-library robustness. The inventory is syntactic (panic, unchecked assertion, constant-bound slice, non-constant make); plain indexing is covered by the shape theorems.",
        ref="DESIGN.md §6 C20", engine="lean+factx+dh"),
}


def main():
    props = [json.loads(l) for l in open(os.path.join(V, "properties.jsonl"))]
    na_reasons = {}
    p = os.path.join(V, "tools", "not_applicable.json")
    if os.path.exists(p):
        na_reasons = json.load(open(p))
    checks = []
    for pr in props:
        pid = pr["id"]
        if pid not in CLAIMED:
            continue
        c = CLAIMED[pid]
        checks.append({
            "property_id": pid,
            "quick_cmd": "./check %s --tier quick" % pid,
            "thorough_cmd": "./check %s --tier thorough" % pid,
            "evidence_file": "/verif/evidence/%s.json" % pid,
            "replay_cmd_template": "./check %s --replay {path}" % pid,
            "engine": c.get("engine", "lean+dh"),
            "level_claimed": {"category": "proof", "text": c["text"], "design_ref": c["ref"]},
            "level_note": c["note"],
            "technique": c["technique"],
        })
    m = {
        "version": 1,
        "setup_cmd": "./setup.sh",
        "hooks": {
            "guard": "verif",
            "enable": "go build -tags verif (the harness in /verif/harness is built with this tag against /repo's working tree)",
            "baseline_off_cmd": "cd /repo && GOFLAGS=-mod=mod GOPROXY=off GOSUMDB=off GOTOOLCHAIN=local go test -json -vet=off -count=1 -timeout 25m ./...",
            "source_commits": ["7d36b19"],
            "add_only": True,
        },
        "engines": [
            {"name": "lean", "path": "lean/", "serves_properties": sorted(CLAIMED), "kind_free_text": "Lean 4 model, specs, lemmas, property theorems, compiled model driver (dirkmodel)"},
            {"name": "dh", "path": "harness/", "serves_properties": sorted(CLAIMED), "kind_free_text": "Go harness wiring real dirk services (built with -tags verif from /repo's working tree); line protocol shared with the Lean driver"},
            {"name": "check", "path": "check", "serves_properties": sorted(CLAIMED), "kind_free_text": "Python orchestration: build, generate, run both sides, diff, judge, shrink, evidence"},
        ],
        "checks": checks,
        "not_applicable": [{"property_id": pr["id"], "reason": na_reasons.get(pr["id"], "check not built yet (work in progress; planned, see DESIGN.md)")}
                           for pr in props if pr["id"] not in CLAIMED],
        "notes": "One technique family: machine-checked proof in Lean 4 over a hand-written executable model, tied to /repo by a differential correspondence check on every run. See DESIGN.md.",
    }
    json.dump(m, open(os.path.join(V, "MANIFEST.json"), "w"), indent=1)
    print("claimed:", sorted(CLAIMED))


if __name__ == "__main__":
    main()
