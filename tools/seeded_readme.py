#!/usr/bin/env python3
"""seeded_readme.py — regenerate seeded/README.md from the meta.json files"""
import json, os
base = "/verif/seeded"
rows = []
for d in sorted(os.listdir(base)):
    p = os.path.join(base, d, "meta.json")
    if not os.path.exists(p):
        continue
    m = json.load(open(p))
    c = m.get("checks", {})
    cell = lambda x: str(x).replace("|", "\\|").replace("\n", " ")
    rows.append("| %s | %s | %s | %s | %s |" % (d, m.get("property", ""), cell(c.get("detected_by", "")), cell(c.get("missed_initially", "")),
                                             cell(c.get("strengthened", c.get("strengthening", "")))))
with open(os.path.join(base, "README.md"), "w") as f:
    f.write("# Confirmed seeded changes (%d) — generated from the meta.json files (tools/seeded_readme.py)\n\n" % len(rows))
    f.write("Each directory holds `patch.diff` (applies to the unchanged tree), the sub-agent's demonstration (`demo/`, `demo.txt`), its "
            "description (`meta.txt`) and `meta.json` (what was run to confirm it, which checks catch it, whether the checks as they stood "
            "missed it and what was strengthened). `MATRIX.md` is the last run of `tools/seeded_matrix.py`.\n\n")
    f.write("| change | property | caught by | missed at first? | strengthening |\n|---|---|---|---|---|\n")
    f.write("\n".join(rows) + "\n")
print(len(rows))
