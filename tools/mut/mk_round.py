#!/usr/bin/env python3
"""mk_round.py <round> — create scratch worktrees /tmp/m<round>-Cxx of /repo with a TASK.md each (property text only, the
ideas already used for that property, and a pointer to families not used yet).  Nothing from /verif but the property text
and one-line summaries of earlier seeded changes goes into the task."""
import json, os, subprocess, sys
rnd = sys.argv[1]
props = [json.loads(l) for l in open("/verif/properties.jsonl")]
tmpl = open("/verif/tools/mut/prompt.txt").read()
HINT = ("Those families are exhausted; find something of a DIFFERENT family and a different site. Unused so far and welcome: "
        "arithmetic on lengths/indices/offsets in batch code paths when batches are empty, have one element, or contain duplicates of the SAME "
        "entry; the boundary between name-addressed and key-addressed requests (name present AND key present, empty name, name without a slash, "
        "names with several slashes or unicode); logging/tracing/metrics code that consumes or reorders values; error wrapping that changes "
        "errors.Is / sentinel comparisons; goroutine lifetime (work continuing after the reply was sent); time handling (clock going backwards, "
        "zero times, durations of 0 or negative from configuration); config defaults and zero values (timeouts, ids, empty peer lists, storage "
        "path reuse between services); conversions at the protobuf boundary (nil vs empty slices, zero-length but non-nil keys, fields that are "
        "optional); ordering assumptions on Go maps; sharing of slices between a request and stored state. "
        "It must be realistic, hard to spot, compile, pass the existing tests, and genuinely break THIS property.")
for p in props:
    pid = p["id"]
    wt = "/tmp/m%s-%s" % (rnd, pid)
    if not os.path.isdir(wt):
        subprocess.run(["git", "-C", "/repo", "worktree", "add", "--detach", wt, "HEAD"], check=True, stdout=subprocess.DEVNULL, stderr=subprocess.DEVNULL)
    text = "%s\n\n%s\n\nQuantified over: %s\n\nWhere it lives: %s" % (p["title"], p["statement"], p["quantifier"]["text"], ", ".join(p["anchors"]["files"]))
    task = tmpl.replace("WORKTREE", wt).replace("PROPERTY_TEXT", text)
    used = []
    for d in sorted(os.listdir("/verif/seeded")):
        mp = "/verif/seeded/%s/meta.json" % d
        if d.startswith(pid + "-") and os.path.exists(mp):
            needs = json.load(open(mp)).get("needs", "").replace("\n", " ")
            used.append("  - %s: %s" % (d, needs[:260]))
    task += "\n\nIMPORTANT: earlier exercises already used these ideas:\n" + "\n".join(used) + "\nDo NOT repeat them or close variants (same site or same mechanism). " + HINT + "\n"
    open(os.path.join(wt, "TASK.md"), "w").write(task)
    print(wt, len(used))
