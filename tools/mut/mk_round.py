#!/usr/bin/env python3
"""mk_round.py <round> — create scratch worktrees /tmp/m<round>-Cxx of /repo with a TASK.md each (property text only, the
ideas already used for that property, and a pointer to families not used yet).  Nothing from /verif but the property text
and one-line summaries of earlier seeded changes goes into the task."""
import json, os, subprocess, sys
rnd = sys.argv[1]
props = [json.loads(l) for l in open("/verif/properties.jsonl")]
tmpl = open("/verif/tools/mut/prompt.txt").read()
HINT = ("Those families are exhausted; find something of a DIFFERENT family and a different site. Unused so far and welcome: the INTERACTION of two "
        "features that are each fine alone (batch endpoint + admin-IP gate, key-addressed request + distributed account, import + legacy-format "
        "records, account created at run time + permissions by regex, wallet lock + signing); differences between wallet TYPES (nd / hd / "
        "keystore / distributed) in fetcher, unlocker and signer; resource limits (very long names, batches of 10^4..10^5 entries, deeply nested "
        "patterns) where a limit or a truncation silently changes a decision; retries / timeouts / context values inside the DKG sender and "
        "process service; the order in which main.go constructs and wires services (which of them share a locker, a store, a fetcher) and the "
        "parsing of permissions / peers / ids from configuration (Go map ordering, duplicate keys, case, whitespace, numeric ids parsed with the "
        "wrong width); migration between record versions in the rules store; maps guarded by the wrong mutex (or an RLock where a Lock is "
        "needed) in fetcher / unlocker / process; the metrics (prometheus) and tracing wrappers when they alter a returned value; default-"
        "constructed protobuf messages and optional fields; off-by-one at the first or last element, at index 0, at the empty batch. "
        "It must be realistic, hard to spot, compile, pass the existing tests, and genuinely break THIS property.")
for p in props:
    pid = p["id"]
    wt = "/tmp/m%s-%s" % (rnd, pid)
    if not os.path.isdir(wt):
        subprocess.run(["git", "-C", "/repo", "worktree", "add", "--detach", wt, "HEAD"], check=True, stdout=subprocess.DEVNULL, stderr=subprocess.DEVNULL)
    text = "%s\n\n%s\n\nQuantified over: %s\n\nWhere it lives: %s" % (p["title"], p["statement"], p["quantifier"]["text"], ", ".join(p["anchors"]["files"]))
    task = tmpl.replace("WORKTREE", wt).replace("PROPERTY_TEXT", text)
    used = []
    for d in sorted(os.listdir("/verif/seeded")):
        mp = "/verif/seeded/%s/meta.json" % d
        if d.startswith(pid + "-") and os.path.exists(mp):
            needs = json.load(open(mp)).get("needs", "").replace("\n", " ")
            used.append("  - %s: %s" % (d, needs[:260]))
    task += "\n\nIMPORTANT: earlier exercises already used these ideas:\n" + "\n".join(used) + "\nDo NOT repeat them or close variants (same site or same mechanism). " + HINT + "\n"
    open(os.path.join(wt, "TASK.md"), "w").write(task)
    print(wt, len(used))
