#!/usr/bin/env python3
"""mk_round.py <round> — create scratch worktrees /tmp/m<round>-Cxx of /repo with a TASK.md each (property text only, the
ideas already used for that property, and a pointer to families not used yet).  Nothing from /verif but the property text
and one-line summaries of earlier seeded changes goes into the task."""
import json, os, subprocess, sys
rnd = sys.argv[1]
props = [json.loads(l) for l in open("/verif/properties.jsonl")]
tmpl = open("/verif/tools/mut/prompt.txt").read()
HINT = ("Those families are exhausted; find something of a DIFFERENT family and a different site. Think about what a maintainer does in a real "
        "pull request: upgrading or swapping a dependency call (badger / gRPC / zerolog / bls API used slightly differently), adding a feature flag "
        "or configuration option whose default or absence changes behaviour, deduplicating two similar functions into one helper that is right "
        "for one caller only, changing a data structure (map to slice, slice to map, adding an index) with a subtle loss of ordering or "
        "uniqueness, adding validation that normalises its input, adding a fast path that skips a step the slow path performs, moving a "
        "statement across a defer / lock / error check, goroutine + channel plumbing with the wrong buffer size or a missing wait, "
        "time-based logic (TTL, backoff, rate limit) around security-relevant state, error values compared with == after being wrapped, "
        "integer conversions between uint64 / int64 / int / uint32 at API boundaries, reuse of a variable captured by a closure, "
        "shadowed variables, range-loop variable pointers, partial writes when the second of two related writes fails. "
        "It must be realistic, hard to spot, compile, pass the existing tests, and genuinely break THIS property.")
only = set(sys.argv[2:])
for p in props:
    pid = p["id"]
    if only and pid not in only: continue
    wt = "/tmp/m%s-%s" % (rnd, pid)
    if not os.path.isdir(wt):
        subprocess.run(["git", "-C", "/repo", "worktree", "add", "--detach", wt, "HEAD"], check=True, stdout=subprocess.DEVNULL, stderr=subprocess.DEVNULL)
    text = "%s\n\n%s\n\nQuantified over: %s\n\nWhere it lives: %s" % (p["title"], p["statement"], p["quantifier"]["text"], ", ".join(p["anchors"]["files"]))
    task = tmpl.replace("WORKTREE", wt).replace("PROPERTY_TEXT", text)
    used = []
    for d in sorted(os.listdir("/verif/seeded")):
        mp = "/verif/seeded/%s/meta.json" % d
        if d.startswith(pid + "-") and os.path.exists(mp):
            needs = json.load(open(mp)).get("needs", "").replace("\n", " ")
            used.append("  - %s: %s" % (d, needs[:260]))
    task += "\n\nIMPORTANT: earlier exercises already used these ideas:\n" + "\n".join(used) + "\nDo NOT repeat them or close variants (same site or same mechanism). " + HINT + "\n"
    open(os.path.join(wt, "TASK.md"), "w").write(task)
    print(wt, len(used))
