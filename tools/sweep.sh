#!/bin/bash
# sweep.sh <tier> <seed> [<seed>...] — run every check at that tier for the given seeds on the unchanged tree; one summary line per run.
# For background use from a snapshot:  vp run --with-repo -- bash -c 'export DIRK_REPO=$VP_RUN_REPO; ./setup.sh >/dev/null 2>&1; tools/sweep.sh thorough 2 3'
tier=$1; shift
for seed in "$@"; do
  for i in 01 02 03 04 05 06 07 08 09 10 11 12 13 14 15 16 17 18 19 20; do
    s=$(date +%s)
    VERIF_SEED=$seed timeout 7200 ./check C$i --tier $tier --seed $seed > sweep-C$i-$seed.out 2>&1; rc=$?
    if [ $rc -ne 0 ]; then mkdir -p sweep-replays; cp replays/C$i-*-$seed*.json sweep-replays/ 2>/dev/null; fi
    echo "C$i tier=$tier seed=$seed exit=$rc $(( $(date +%s)-s ))s $(grep -E 'VIOLATION|KNOWN' sweep-C$i-$seed.out | head -3 | tr '\n' ' ')"
  done
done
