#!/usr/bin/env python3
"""confirm_seeded.py <id> <worktree> <property> <demo go-test args...>
Confirms a seeded breaking change in a scratch worktree (builds, existing tests of touched packages pass, the demonstration
fails with the change and passes without it) and stores it under /verif/seeded/<id>/."""
import json, os, shutil, subprocess, sys
sid, wt, prop = sys.argv[1:4]
demo = sys.argv[4:]
env = dict(os.environ, GOFLAGS="-mod=mod", GOPROXY="off", GOSUMDB="off", GOTOOLCHAIN="local")
def sh(cmd, **kw):
    p = subprocess.run(cmd, cwd=wt, env=env, text=True, stdout=subprocess.PIPE, stderr=subprocess.STDOUT, **kw)
    return p.returncode, p.stdout
rc, out = sh(["git", "diff", "--stat"]); print(out)
touched = sorted({os.path.dirname(l.split("|")[0].strip()) for l in out.splitlines() if "|" in l})
rc_b, out_b = sh(["go", "build", "./..."]); print("build", rc_b)
demo_files = [l.split()[1] for l in sh(["git", "status", "--short"])[1].splitlines() if l.startswith("??") and l.split()[1].endswith(".go")]
# existing tests of touched packages, demo moved aside
for f in demo_files: os.rename(os.path.join(wt, f), os.path.join(wt, f + ".aside"))
rc_t, out_t = sh(["go", "test", "-vet=off", "-count=1"] + ["./" + t + "/..." for t in touched], timeout=1500)
fails = [l for l in out_t.splitlines() if l.startswith("--- FAIL") and "TestRules" not in l]
for f in demo_files: os.rename(os.path.join(wt, f + ".aside"), os.path.join(wt, f))
print("existing tests: rc", rc_t, "unexpected fails:", fails)
rc1, out1 = sh(["go", "test", "-vet=off", "-count=1"] + demo, timeout=1500); print("demo WITH change rc", rc1)
sh(["git", "apply", "-R", "patch.diff"])   # (git stash is shared between worktrees: do not use it)
rc2, out2 = sh(["go", "test", "-vet=off", "-count=1"] + demo, timeout=1500); print("demo WITHOUT change rc", rc2)
sh(["git", "apply", "patch.diff"])
ok = rc_b == 0 and not fails and rc1 != 0 and rc2 == 0
print("CONFIRMED" if ok else "NOT CONFIRMED")
if ok:
    d = os.path.join("/verif/seeded", sid); os.makedirs(d, exist_ok=True)
    for f in ("patch.diff", "meta.txt", "demo.txt"):
        if os.path.exists(os.path.join(wt, f)): shutil.copy(os.path.join(wt, f), d)
    for f in demo_files:
        os.makedirs(os.path.join(d, "demo", os.path.dirname(f)), exist_ok=True); shutil.copy(os.path.join(wt, f), os.path.join(d, "demo", f))
    json.dump({"id": sid, "property": prop, "needs": open(os.path.join(wt, "meta.txt")).read() if os.path.exists(os.path.join(wt, "meta.txt")) else "",
               "demo_cmd": "go test -vet=off -count=1 " + " ".join(demo), "confirmed": {"build": "ok", "existing_tests_touched_pkgs": "pass (TestRules/PathDisallowed fails on the unchanged tree as root)",
               "demo_with_change": "fails (rc %d)" % rc1, "demo_without_change": "passes"}, "touched": touched}, open(os.path.join(d, "meta.json"), "w"), indent=1)
