module dirkharness

go 1.22.0

require (
	github.com/attestantio/dirk v0.0.0
	github.com/attestantio/go-eth2-client v0.21.11
	github.com/google/uuid v1.6.0
	github.com/herumi/bls-eth-go-binary v1.36.1
	github.com/rs/zerolog v1.33.0
	github.com/wealdtech/eth2-signer-api v1.7.2
	github.com/wealdtech/go-eth2-types/v2 v2.8.2
	github.com/wealdtech/go-eth2-wallet v1.17.0
	github.com/wealdtech/go-eth2-wallet-distributed v1.2.1
	github.com/wealdtech/go-eth2-wallet-encryptor-keystorev4 v1.4.1
	github.com/wealdtech/go-eth2-wallet-nd/v2 v2.5.0
	github.com/wealdtech/go-eth2-wallet-store-scratch v1.7.2
	github.com/wealdtech/go-eth2-wallet-types/v2 v2.12.0
	google.golang.org/grpc v1.66.2
	google.golang.org/protobuf v1.34.2
)

require (
	cloud.google.com/go/auth v0.9.4 // indirect
	cloud.google.com/go/auth/oauth2adapt v0.2.4 // indirect
	cloud.google.com/go/compute/metadata v0.5.1 // indirect
	cloud.google.com/go/iam v1.2.1 // indirect
	cloud.google.com/go/secretmanager v1.14.1 // indirect
	github.com/aws/aws-sdk-go v1.55.5 // indirect
	github.com/beorn7/perks v1.0.1 // indirect
	github.com/cespare/xxhash v1.1.0 // indirect
	github.com/cespare/xxhash/v2 v2.3.0 // indirect
	github.com/davecgh/go-spew v1.1.2-0.20180830191138-d8f796af33cc // indirect
	github.com/dgraph-io/badger/v2 v2.2007.4
	github.com/dgraph-io/ristretto v0.2.0 // indirect
	github.com/dgryski/go-farm v0.0.0-20200201041132-a6ae2369ad13 // indirect
	github.com/dustin/go-humanize v1.0.1 // indirect
	github.com/emicklei/dot v1.6.2 // indirect
	github.com/fatih/color v1.17.0 // indirect
	github.com/felixge/httpsnoop v1.0.4 // indirect
	github.com/ferranbt/fastssz v0.1.4 // indirect
	github.com/fsnotify/fsnotify v1.7.0 // indirect
	github.com/go-logr/logr v1.4.2 // indirect
	github.com/go-logr/stdr v1.2.2 // indirect
	github.com/goccy/go-yaml v1.9.2 // indirect
	github.com/golang/groupcache v0.0.0-20210331224755-41bb18bfe9da // indirect
	github.com/golang/protobuf v1.5.4 // indirect
	github.com/golang/snappy v0.0.4 // indirect
	github.com/google/s2a-go v0.1.8 // indirect
	github.com/googleapis/enterprise-certificate-proxy v0.3.4 // indirect
	github.com/googleapis/gax-go/v2 v2.13.0 // indirect
	github.com/grpc-ecosystem/go-grpc-middleware v1.4.0 // indirect
	github.com/hashicorp/hcl v1.0.0 // indirect
	github.com/jackc/puddle v1.3.0 // indirect
	github.com/jmespath/go-jmespath v0.4.0 // indirect
	github.com/klauspost/compress v1.17.9 // indirect
	github.com/klauspost/cpuid/v2 v2.2.8 // indirect
	github.com/magiconair/properties v1.8.7 // indirect
	github.com/mattn/go-colorable v0.1.13 // indirect
	github.com/mattn/go-isatty v0.0.20 // indirect
	github.com/minio/sha256-simd v1.0.1 // indirect
	github.com/mitchellh/go-homedir v1.1.0 // indirect
	github.com/mitchellh/mapstructure v1.5.0 // indirect
	github.com/munnerz/goautoneg v0.0.0-20191010083416-a7dc8b61c822 // indirect
	github.com/opentracing/opentracing-go v1.2.0 // indirect
	github.com/pelletier/go-toml/v2 v2.2.3 // indirect
	github.com/pkg/errors v0.9.1 // indirect
	github.com/pmezard/go-difflib v1.0.1-0.20181226105442-5d4384ee4fb2 // indirect
	github.com/prometheus/client_golang v1.20.4 // indirect
	github.com/prometheus/client_model v0.6.1 // indirect
	github.com/prometheus/common v0.59.1 // indirect
	github.com/prometheus/procfs v0.15.1 // indirect
	github.com/prysmaticlabs/go-bitfield v0.0.0-20240618144021-706c95b2dd15 // indirect
	github.com/sagikazarmark/slog-shim v0.1.0 // indirect
	github.com/shibukawa/configdir v0.0.0-20170330084843-e180dbdc8da0 // indirect
	github.com/spf13/afero v1.11.0 // indirect
	github.com/spf13/cast v1.7.0 // indirect
	github.com/spf13/pflag v1.0.5 // indirect
	github.com/spf13/viper v1.19.0 // indirect
	github.com/stretchr/testify v1.9.0 // indirect
	github.com/subosito/gotenv v1.6.0 // indirect
	github.com/wealdtech/go-bytesutil v1.2.1 // indirect
	github.com/wealdtech/go-ecodec v1.1.4 // indirect
	github.com/wealdtech/go-eth2-util v1.8.2 // indirect
	github.com/wealdtech/go-eth2-wallet-hd/v2 v2.7.1 // indirect
	github.com/wealdtech/go-eth2-wallet-keystore v1.0.0 // indirect
	github.com/wealdtech/go-eth2-wallet-store-filesystem v1.18.1 // indirect
	github.com/wealdtech/go-eth2-wallet-store-s3 v1.12.0 // indirect
	github.com/wealdtech/go-indexer v1.1.0 // indirect
	github.com/wealdtech/go-majordomo v1.1.1 // indirect
	go.opencensus.io v0.24.0 // indirect
	go.opentelemetry.io/contrib/instrumentation/google.golang.org/grpc/otelgrpc v0.55.0 // indirect
	go.opentelemetry.io/contrib/instrumentation/net/http/otelhttp v0.55.0 // indirect
	go.opentelemetry.io/otel v1.30.0 // indirect
	go.opentelemetry.io/otel/metric v1.30.0 // indirect
	go.opentelemetry.io/otel/trace v1.30.0 // indirect
	golang.org/x/crypto v0.27.0 // indirect
	golang.org/x/net v0.29.0 // indirect
	golang.org/x/oauth2 v0.23.0 // indirect
	golang.org/x/sync v0.8.0 // indirect
	golang.org/x/sys v0.25.0 // indirect
	golang.org/x/text v0.18.0 // indirect
	golang.org/x/time v0.6.0 // indirect
	golang.org/x/xerrors v0.0.0-20240903120638-7835f813f4da // indirect
	google.golang.org/api v0.197.0 // indirect
	google.golang.org/genproto v0.0.0-20240903143218-8af14fe29dc1 // indirect
	google.golang.org/genproto/googleapis/api v0.0.0-20240903143218-8af14fe29dc1 // indirect
	google.golang.org/genproto/googleapis/rpc v0.0.0-20240903143218-8af14fe29dc1 // indirect
	gopkg.in/ini.v1 v1.67.0 // indirect
	gopkg.in/yaml.v2 v2.4.0 // indirect
	gopkg.in/yaml.v3 v3.0.1 // indirect
)

replace github.com/attestantio/dirk => /repo
