package main

import (
	"context"
	"fmt"
	"runtime"
	"strconv"
	"strings"
	"sync"
	"sync/atomic"
	"time"

	"github.com/attestantio/dirk/services/locker"
	"github.com/attestantio/dirk/util/verifhook"
)

// recLocker wraps the real locker and records the calls made on it.
// (the real service is embedded so that methods this wrapper does not know pass through untraced)
type recLocker struct {
	locker.Service
	w *world
}

func (r *recLocker) PreLock()  { r.w.tok("P"); r.Service.PreLock() }
func (r *recLocker) PostLock() { r.Service.PostLock(); r.w.tok("Q") }
func (r *recLocker) Lock(k [48]byte) {
	r.Service.Lock(k)
	r.w.tok(fmt.Sprintf("L:%x", k[:4]))
}
func (r *recLocker) Unlock(k [48]byte) {
	r.w.tok(fmt.Sprintf("U:%x", k[:4]))
	r.Service.Unlock(k)
}

var (
	traceMu sync.Mutex
)

func (w *world) tok(s string) {
	traceMu.Lock()
	w.trace = append(w.trace, s)
	traceMu.Unlock()
}

// enableTrace wraps the locker (must be called before begin) and installs a base hook handler that
// records store accesses.
func (w *world) enableTrace() {
	w.lockWrap = func(l locker.Service) locker.Service { return &recLocker{Service: l, w: w} }
	baseHandler = func(name string, _ []byte) error {
		switch name {
		case "fetch.enter":
			w.tok("F")
		case "store.enter", "batchstore.enter":
			w.tok("S")
		case "store.exit", "batchstore.exit":
			w.tok("X")
		case "sign.enter":
			w.tok("G")
		}
		return nil
	}
	verifhook.SetHandler(baseHandler)
}

var baseHandler verifhook.HandlerFunc

type cop struct {
	delayMs int
	ctxMs   int // -1: no deadline; 0: cancelled before the call; >0: deadline in ms
	fields  []string
}

type park struct {
	prefix string
	ms     int
	used   bool
}

// runConcurrent executes the collected ops concurrently (at most `workers` at a time, 0 = all at
// once), optionally parking the first store on given keys, and returns "tinv,tres,result" per op.
func (w *world) runConcurrent(cops []cop, parks []*park, workers int, deadline time.Duration) string {
	var pmu sync.Mutex
	var signs int64
	verifhook.SetHandler(func(name string, key []byte) error {
		if name == "sign.enter" && w.yieldSign {
			// steer: let other requests run between the computation of the signing root and its use
			if atomic.AddInt64(&signs, 1)%4 == 0 {
				time.Sleep(30 * time.Microsecond)
			} else {
				runtime.Gosched()
			}
		}
		if name == "store.enter" || name == "batchstore.enter" {
			var d time.Duration
			pmu.Lock()
			for _, p := range parks {
				if !p.used && strings.HasPrefix(fmt.Sprintf("%x", key), p.prefix) {
					p.used = true
					d = time.Duration(p.ms) * time.Millisecond
					break
				}
			}
			pmu.Unlock()
			if d > 0 {
				time.Sleep(d)
			}
		}
		return nil
	})
	defer verifhook.SetHandler(baseHandler)
	res := make([]string, len(cops))
	done := make(chan int, len(cops))
	t0 := time.Now()
	var sem chan struct{}
	if workers > 0 {
		sem = make(chan struct{}, workers)
	}
	for i := range cops {
		go func(i int) {
			if sem != nil {
				sem <- struct{}{}
				defer func() { <-sem }()
			}
			if cops[i].delayMs > 0 {
				time.Sleep(time.Duration(cops[i].delayMs) * time.Millisecond)
			}
			ti := time.Since(t0).Microseconds()
			ctx, cancel := context.Background(), context.CancelFunc(func() {})
			if cops[i].ctxMs == 0 {
				ctx, cancel = context.WithCancel(ctx)
				cancel()
			} else if cops[i].ctxMs > 0 {
				ctx, cancel = context.WithTimeout(ctx, time.Duration(cops[i].ctxMs)*time.Millisecond)
			}
			var out string
			if cops[i].fields[0] == "spin" {
				// spin <ms> <op…>: the op over and over for that long (a dense stream of cheap requests)
				ms, _ := strconv.Atoi(cops[i].fields[1])
				until := time.Now().Add(time.Duration(ms) * time.Millisecond)
				n := 0
				for time.Now().Before(until) {
					out = w.execCtx(ctx, cops[i].fields[2:])
					n++
				}
				out = fmt.Sprintf("spun:%d:%s", n, out)
			} else {
				out = w.execCtx(ctx, cops[i].fields)
			}
			cancel()
			tr := time.Since(t0).Microseconds()
			res[i] = fmt.Sprintf("%d,%d,%s", ti, tr, strings.ReplaceAll(out, " ", "+"))
			done <- i
		}(i)
	}
	n := 0
	timer := time.NewTimer(deadline)
	for n < len(cops) {
		select {
		case <-done:
			n++
		case <-timer.C:
			return fmt.Sprintf("TIMEOUT %d of %d completed", n, len(cops))
		}
	}
	return strings.Join(res, " ; ")
}

func parseParks(s string) []*park {
	var ps []*park
	if s == "-" {
		return ps
	}
	for _, tok := range strings.Split(s, ",") {
		kv := strings.Split(tok, ":")
		ms, _ := strconv.Atoi(kv[1])
		ps = append(ps, &park{prefix: kv[0], ms: ms})
	}
	return ps
}
