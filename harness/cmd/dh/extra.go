package main

import (
	badger "github.com/dgraph-io/badger/v2"
	"bufio"
	"fmt"
	"os"
	"strings"
	"sync"

	e2types "github.com/wealdtech/go-eth2-types/v2"
)

// extraEngines dispatches to engines defined in other files; returns false if unknown.
func extraEngines(args []string) bool {
	switch args[0] {
	case "sigcheck":
		sigcheck()
	case "scatter":
		scatterEngine()
	case "gob":
		gobEngine()
	case "daemon":
		daemonEngine(args[1])
	case "wire":
		// dh wire <port> <repo>
		wireEngine(args[1], args[2])
	case "tls":
		// dh tls <workdir> <repo>
		tlsEngine(args[1], args[2])
	case "dkg":
		dkgEngine(args[1])
	case "expiry":
		// dh expiry <badger dir>: every record of a CLOSED slashing-protection store with its expiry time (0 = permanent)
		expiryEngine(args[1])
	case "imp":
		// dh imp <workdir> <dirk binary>
		impEngine(args[1], args[2])
	default:
		return false
	}
	return true
}

// sigcheck reads "pubkeyhex roothex sighex" lines and prints ok / bad per line: does the real BLS
// library accept the signature the implementation returned, under the addressed account's key,
// over the signing root computed by the Lean model?
func sigcheck() {
	initBLS()
	sc := bufio.NewScanner(os.Stdin)
	sc.Buffer(make([]byte, 1<<20), 1<<26)
	out := bufio.NewWriter(os.Stdout)
	defer out.Flush()
	var lines []string
	for sc.Scan() {
		lines = append(lines, sc.Text())
	}
	res := make([]string, len(lines))
	var wg sync.WaitGroup
	sem := make(chan struct{}, 16)
	for i := range lines {
		wg.Add(1)
		sem <- struct{}{}
		go func(i int) {
			defer wg.Done()
			defer func() { <-sem }()
			res[i] = "bad"
			f := strings.Fields(lines[i])
			if len(f) != 3 {
				return
			}
			pk, err1 := e2types.BLSPublicKeyFromBytes(unhex(f[0]))
			sig, err2 := e2types.BLSSignatureFromBytes(unhex(f[2]))
			if err1 != nil || err2 != nil {
				return
			}
			if sig.Verify(unhex(f[1]), pk) {
				res[i] = "ok"
			}
		}(i)
	}
	wg.Wait()
	for _, r := range res {
		fmt.Fprintln(out, r)
	}
}


// expiryEngine opens a closed store directory read-only with badger itself and prints "<keyhex> <expiresAt>" for every
// record that carries an expiry time, then "records <n>". A released signature's record must be permanent.
func expiryEngine(dir string) {
	opt := badger.DefaultOptions(dir).WithReadOnly(true).WithLogger(nil)
	db, err := badger.Open(opt)
	if err != nil {
		fmt.Println("error", err)
		return
	}
	defer db.Close()
	n := 0
	_ = db.View(func(txn *badger.Txn) error {
		it := txn.NewIterator(badger.DefaultIteratorOptions)
		defer it.Close()
		for it.Rewind(); it.Valid(); it.Next() {
			n++
			if e := it.Item().ExpiresAt(); e != 0 {
				fmt.Printf("%x %d\n", it.Item().Key(), e)
			}
		}
		return nil
	})
	fmt.Println("records", n)
}
