package main

import (
	"bufio"
	"context"
	"fmt"
	"google.golang.org/grpc/codes"
	"os"
	"path/filepath"
	"strconv"
	"strings"
	"sync"
	"sync/atomic"
	"time"

	"github.com/attestantio/dirk/testing/resources"
	pb "github.com/wealdtech/eth2-signer-api/pb/v1"
	"google.golang.org/grpc"
	"google.golang.org/grpc/status"
)

// daemonEngine: start a real daemon, print its port, serve until stdin closes (run as a child process,
// under an address-space limit, so that a crash is observable).
func daemonEngine(workdir string) {
	port := startDaemon(filepath.Join(workdir, "daemon"))
	fmt.Printf("PORT %d\n", port)
	os.Stdout.Sync()
	sc := bufio.NewScanner(os.Stdin)
	for sc.Scan() {
	}
}

// rawCodec sends the given bytes as the message payload and returns the raw reply.
type rawCodec struct{}

func (rawCodec) Marshal(v any) ([]byte, error) { return *(v.(*[]byte)), nil }
func (rawCodec) Unmarshal(data []byte, v any) error {
	*(v.(*[]byte)) = append([]byte{}, data...)
	return nil
}
func (rawCodec) Name() string { return "proto" }

// wireEngine: lines "<method> <client cn> <hex payload>"; after every message a second client checks
// that the daemon still answers.  Output: "<outcome> <liveness>".
func wireEngine(port string, repo string) {
	out := bufio.NewWriter(os.Stdout)
	defer out.Flush()
	c1 := mustPair(resources.ClientTest01Crt, resources.ClientTest01Key)
	probeConn, err := grpc.NewClient("127.0.0.1:"+port, tlsOpt(&c1))
	if err != nil {
		panic(err)
	}
	conns := map[string]*grpc.ClientConn{}
	get := func(cn string) *grpc.ClientConn {
		if c, ok := conns[cn]; ok {
			return c
		}
		var opt grpc.DialOption
		switch cn {
		case "client-test01":
			opt = tlsOpt(&c1)
		case "client-test02":
			c := mustPair(resources.ClientTest02Crt, resources.ClientTest02Key)
			opt = tlsOpt(&c)
		case "client-test03":
			c := mustPair(resources.ClientTest03Crt, resources.ClientTest03Key)
			opt = tlsOpt(&c)
		default:
			opt = tlsOpt(clientCert(repo, cn))
		}
		c, err := grpc.NewClient("127.0.0.1:"+port, opt)
		if err != nil {
			panic(err)
		}
		conns[cn] = c
		return c
	}
	alive := func() string {
		for i := 0; i < 3; i++ {
			ctx, cancel := context.WithTimeout(context.Background(), 5*time.Second)
			_, err := pb.NewListerClient(probeConn).ListAccounts(ctx, &pb.ListAccountsRequest{Paths: []string{"Wallet 1"}})
			if err == nil {
				// …and a (stateless) signing request must still be answered too: a daemon that lists but no longer signs is not serving
				dom := make([]byte, 32)
				dom[0] = 2
				_, err = pb.NewSignerClient(probeConn).Sign(ctx, &pb.SignRequest{Id: &pb.SignRequest_Account{Account: "Wallet 1/Account 0"}, Data: make([]byte, 32), Domain: dom})
			}
			cancel()
			if err == nil {
				return "alive"
			}
			time.Sleep(200 * time.Millisecond)
		}
		return "DEAD"
	}
	sc := bufio.NewScanner(os.Stdin)
	sc.Buffer(make([]byte, 1<<20), 1<<28)
	for sc.Scan() {
		f := strings.Fields(sc.Text())
		if len(f) != 3 {
			continue
		}
		payload := unhex(f[2])
		if strings.HasPrefix(f[0], "burst:") {
			// burst:<ms>:<connections>:<goroutines per connection>:<method>  — that many callers repeat the (valid) request
			// for that long: whatever is shared between in-flight requests in the server must survive it
			p := strings.SplitN(f[0], ":", 5)
			ms, _ := strconv.Atoi(p[1])
			nc, _ := strconv.Atoi(p[2])
			ng, _ := strconv.Atoi(p[3])
			until := time.Now().Add(time.Duration(ms) * time.Millisecond)
			var okN, errN int64
			var wg sync.WaitGroup
			for ci := 0; ci < nc; ci++ {
				cc, err := grpc.NewClient("127.0.0.1:"+port, tlsOpt(&c1))
				if err != nil {
					continue
				}
				for g := 0; g < ng; g++ {
					wg.Add(1)
					go func() {
						defer wg.Done()
						for time.Now().Before(until) {
							var rp []byte
							ctx, cancel := context.WithTimeout(context.Background(), 10*time.Second)
							err := cc.Invoke(ctx, p[4], &payload, &rp, grpc.ForceCodec(rawCodec{}))
							cancel()
							if err != nil {
								atomic.AddInt64(&errN, 1)
								if status.Code(err) == codes.Unavailable {
									return
								}
							} else {
								atomic.AddInt64(&okN, 1)
							}
						}
					}()
				}
				defer cc.Close()
			}
			wg.Wait()
			live := alive()
			fmt.Fprintf(out, "resp:burst:ok=%d:err=%d %s\n", okN, errN, live)
			out.Flush()
			if live == "DEAD" {
				return
			}
			continue
		}
		var reply []byte
		t0 := time.Now()
		// "dl:<ms>:<method>": the caller gives up after that many milliseconds (the server sees the request's context end
		// wherever it happens to be)
		callTimeout := 30 * time.Second
		// "wait:<ms>:<method>": the caller pauses that long before it sends (a client retrying at its own pace)
		if strings.HasPrefix(f[0], "wait:") {
			p := strings.SplitN(f[0], ":", 3)
			ms, _ := strconv.Atoi(p[1])
			time.Sleep(time.Duration(ms) * time.Millisecond)
			f[0] = p[2]
			t0 = time.Now()
		}
		if strings.HasPrefix(f[0], "dl:") {
			p := strings.SplitN(f[0], ":", 3)
			ms, _ := strconv.Atoi(p[1])
			callTimeout = time.Duration(ms) * time.Millisecond
			f[0] = p[2]
		}
		ctx, cancel := context.WithTimeout(context.Background(), callTimeout)
		err := get(f[1]).Invoke(ctx, f[0], &payload, &reply, grpc.ForceCodec(rawCodec{}))
		cancel()
		if d := time.Since(t0); d > 2*time.Second {
			fmt.Fprintf(os.Stderr, "SLOW %s %s %v\n", f[0], f[2][:min(len(f[2]), 80)], d)
		}
		res := ""
		if err != nil {
			res = "err:" + status.Code(err).String()
		} else {
			res = fmt.Sprintf("resp:%x", reply)
			if len(res) > 200 {
				res = res[:200]
			}
		}
		live := alive()
		fmt.Fprintf(out, "%s %s\n", res, live)
		out.Flush()
		if live == "DEAD" {
			// nothing more can be learnt from a dead daemon: stop here (the caller restarts it)
			return
		}
	}
}
