package main

import (
	"bufio"
	"bytes"
	"context"
	"encoding/binary"
	"encoding/hex"
	"errors"
	"fmt"
	standardaccountmanager "github.com/attestantio/dirk/services/accountmanager/standard"
	standardwalletmanager "github.com/attestantio/dirk/services/walletmanager/standard"
	"os"
	"path/filepath"
	"reflect"
	"sort"
	"strconv"
	"strings"
	"sync"
	"syscall"
	"sync/atomic"
	"time"
	"unsafe"

	"github.com/attestantio/dirk/core"
	"github.com/attestantio/dirk/rules"
	standardrules "github.com/attestantio/dirk/rules/standard"
	"github.com/attestantio/dirk/services/checker"
	"github.com/attestantio/dirk/services/fetcher"
	"github.com/attestantio/dirk/services/ruler"
	"github.com/attestantio/dirk/util/verifhook"
	spec "github.com/attestantio/go-eth2-client/spec/phase0"
	e2types "github.com/wealdtech/go-eth2-types/v2"
	e2wtypes "github.com/wealdtech/go-eth2-wallet-types/v2"
)

func coreStr(r core.Result) string {
	switch r {
	case core.ResultSucceeded:
		return "S"
	case core.ResultDenied:
		return "D"
	case core.ResultFailed:
		return "F"
	case core.ResultUnknown:
		return "U"
	}
	return "?"
}

func posStr(r core.Result, sig []byte) string {
	if sig != nil {
		return coreStr(r) + ":" + hex.EncodeToString(sig)
	}
	return coreStr(r)
}

func parseAtt(f []string) *rules.SignBeaconAttestationData {
	return &rules.SignBeaconAttestationData{
		Domain:          unhexCap8(f[0]),
		Slot:            u64(f[1]),
		CommitteeIndex:  u64(f[2]),
		BeaconBlockRoot: unhexOpt(f[3]),
		Source:          &rules.Checkpoint{Epoch: u64(f[4]), Root: unhexOpt(f[5])},
		Target:          &rules.Checkpoint{Epoch: u64(f[6]), Root: unhexOpt(f[7])},
	}
}

func parseProp(f []string) *rules.SignBeaconProposalData {
	return &rules.SignBeaconProposalData{
		Domain:        unhexCap8(f[0]),
		Slot:          u64(f[1]),
		ProposerIndex: u64(f[2]),
		ParentRoot:    unhexOpt(f[3]),
		StateRoot:     unhexOpt(f[4]),
		BodyRoot:      unhexOpt(f[5]),
	}
}

func parseSign(f []string) *rules.SignData {
	return &rules.SignData{Domain: unhexCap8(f[0]), Data: unhexOpt(f[1])}
}

// attSigningRoot recomputes the root the signer will hand to Sign; used only to route injected
// signing faults to a batch position.
func attSigningRoot(d *rules.SignBeaconAttestationData) []byte {
	a := &spec.AttestationData{
		Slot: spec.Slot(d.Slot), Index: spec.CommitteeIndex(d.CommitteeIndex),
		Source: &spec.Checkpoint{Epoch: spec.Epoch(d.Source.Epoch)},
		Target: &spec.Checkpoint{Epoch: spec.Epoch(d.Target.Epoch)},
	}
	copy(a.BeaconBlockRoot[:], d.BeaconBlockRoot)
	copy(a.Source.Root[:], d.Source.Root)
	copy(a.Target.Root[:], d.Target.Root)
	r, err := a.HashTreeRoot()
	if err != nil || len(d.Domain) != 32 {
		return nil
	}
	return hashPair(r[:], d.Domain)
}

// installFaults installs a hook handler realising the fault plan; returns a remover.
func installFaults(f *faultSpec, failRoots map[string]bool) func() {
	if !f.any() {
		return func() {}
	}
	if f.lockStateFail {
		lockStateFail.Store(true)
	}
	rulesShort.Store(int64(f.rulesShort))
	var mu sync.Mutex
	fetches := 0
	shut := false
	var blockedFlag *int32
	verifhook.SetHandler(func(name string, key []byte) error {
		mu.Lock()
		defer mu.Unlock()
		if f.storeClosing && !shut && (name == "store.enter" || name == "batchstore.enter") {
			shut = true
			theWorld.beginShutdown()
		}
		if f.storeBlocked && blockedFlag == nil && (name == "store.enter" || name == "batchstore.enter") {
			if blockedFlag = blockWritesFlag(theWorld.rules); blockedFlag != nil {
				atomic.StoreInt32(blockedFlag, 1)
			} else if !shut { // the store is laid out differently: take the real route
				shut = true
				theWorld.beginShutdown()
			}
		}
		switch name {
		case "fetch.enter":
			i := fetches
			fetches++
			if f.fetchFail[i] {
				return errors.New("injected fetch failure")
			}
		case "store.enter", "batchstore.enter":
			if f.storeFail && !f.storeLanded {
				return errors.New("injected store failure")
			}
		case "store.exit", "batchstore.exit":
			if f.storeFail && f.storeLanded {
				return errors.New("injected store failure after write")
			}
		case "sign.enter":
			if failRoots == nil {
				if f.signFail[0] {
					return errors.New("injected sign failure")
				}
			} else if failRoots[hex.EncodeToString(key)] {
				return errors.New("injected sign failure")
			}
		}
		return nil
	})
	return func() {
		verifhook.SetHandler(baseHandler)
		lockStateFail.Store(false)
		rulesShort.Store(0)
		if blockedFlag != nil {
			atomic.StoreInt32(blockedFlag, 0)
		}
		if shut {
			theWorld.closeRules() // waits for the close in progress (badger closes once)
			theWorld.openRules()
		}
	}
}

// theWorld is the world the sequential run engine executes in (set by openRules).
var theWorld *world

// beginShutdown does what main() does on SIGTERM while gRPC still drains requests in flight: it cancels the service
// context, on which the rules service closes its store.  It returns once the store refuses writes (badger's Close
// blocks writes first and marks the store closed only at its very end), or after 200ms.
func (w *world) beginShutdown() {
	w.cancel()
	for i := 0; i < 400; i++ {
		if b, ok := writesBlocked(w.rules); ok && b {
			return
		}
		time.Sleep(500 * time.Microsecond)
	}
}

// blockWritesFlag finds badger's write-refusal flag inside the rules service (nil when the layout is not as expected).
func blockWritesFlag(svc any) (p *int32) {
	defer func() {
		if recover() != nil {
			p = nil
		}
	}()
	v := reflect.ValueOf(svc).Elem().FieldByName("store").Elem().FieldByName("db").Elem().FieldByName("blockWrites")
	if v.Kind() != reflect.Int32 {
		return nil
	}
	return (*int32)(unsafe.Pointer(v.UnsafeAddr()))
}

func writesBlocked(svc any) (blocked bool, ok bool) {
	defer func() {
		if recover() != nil {
			blocked, ok = false, false
		}
	}()
	v := reflect.ValueOf(svc).Elem().FieldByName("store").Elem().FieldByName("db").Elem().FieldByName("blockWrites")
	return v.Int() == 1, true
}

func creds(client, ip string) *checker.Credentials {
	return &checker.Credentials{RequestID: "r", Client: client, IP: ip}
}

func ipOf(s string) string {
	if s == "-" || s == "." {
		return ""
	}
	return unhexStr(s)
}

// exec executes one op line on the instance and returns the canonical result line.
func (w *world) exec(f []string) string { return w.execCtx(context.Background(), f) }

// execCtx executes one op line with the given request context (concurrent ops may carry a deadline or an
// already-cancelled context, as a gRPC request whose client gave up does).
func (w *world) execCtx(ctx context.Context, f []string) string {
	switch f[0] {
	case "att", "atts", "atts0", "prop", "sign", "msign":
		if w.lockWrap != nil && len(w.cops) == 0 {
			traceMu.Lock()
			w.trace = nil
			traceMu.Unlock()
		}
	}
	switch f[0] {
	case "ltrace":
		traceMu.Lock()
		defer traceMu.Unlock()
		if len(w.trace) == 0 {
			return "-"
		}
		return strings.Join(w.trace, " ")
	case "conc":
		w.cops = nil
		w.yieldSign = strings.HasPrefix(f[1], "yield")
		if w.yieldSign {
			w.parks = nil
		} else {
			w.parks = parseParks(f[1])
		}
		return "ok"
	case "cop":
		d, _ := strconv.Atoi(f[1])
		w.cops = append(w.cops, cop{delayMs: d, ctxMs: -1, fields: f[2:]})
		return "ok"
	case "copd":
		// copd <delay ms> <deadline ms> <op…>: deadline 0 = the context is already cancelled when the request starts
		d, _ := strconv.Atoi(f[1])
		c, _ := strconv.Atoi(f[2])
		w.cops = append(w.cops, cop{delayMs: d, ctxMs: c, fields: f[3:]})
		return "ok"
	case "go":
		workers, _ := strconv.Atoi(f[1])
		cops := w.cops
		w.cops = nil
		// (a watchdog against deadlock, not a performance bound: it grows with the number of requests)
		out := w.runConcurrent(cops, w.parks, workers, 30*time.Second+time.Duration(len(cops))*150*time.Millisecond)
		if strings.HasPrefix(out, "TIMEOUT") {
			// the instance may be wedged: report and stop this process
			fmt.Println(out)
			os.Stdout.Sync()
			os.Exit(3)
		}
		return out
	case "att":
		c, ip, a, d, fs := unhexStr(f[1]), ipOf(f[2]), parseAddr(f[3]), parseAtt(strings.Split(f[4], ",")), parseFaults(f[5])
		undo := installFaults(fs, nil)
		if w.viaGrpc {
			out := w.execGRPC(f)
			undo()
			return out
		}
		r, sig := w.signer.SignBeaconAttestation(ctx, creds(c, ip), a.name, a.key, d)
		undo()
		return posStr(r, sig)
	case "atts":
		c, ip, fs := unhexStr(f[1]), ipOf(f[2]), parseFaults(f[3])
		var names []string
		var keys [][]byte
		var data []*rules.SignBeaconAttestationData
		failRoots := map[string]bool{}
		for i, it := range strings.Split(f[4], ";") {
			p := strings.Split(it, ",")
			a := parseAddr(p[0])
			names = append(names, a.name)
			keys = append(keys, a.key)
			d := parseAtt(p[1:])
			data = append(data, d)
			if fs.signFail[i] && d.BeaconBlockRoot != nil && d.Source.Root != nil && d.Target.Root != nil {
				if r := attSigningRoot(d); r != nil {
					failRoots[hex.EncodeToString(r)] = true
				}
			}
		}
		undo := installFaults(fs, failRoots)
		if w.viaGrpc {
			out := w.execGRPC(f)
			undo()
			return out
		}
		rs, sigs := w.signer.SignBeaconAttestations(ctx, creds(c, ip), names, keys, data)
		undo()
		return manyStr(rs, sigs)
	case "atts0":
		if w.viaGrpc {
			return w.execGRPC(f)
		}
		rs, sigs := w.signer.SignBeaconAttestations(ctx, creds(unhexStr(f[1]), ipOf(f[2])), []string{}, [][]byte{}, []*rules.SignBeaconAttestationData{})
		return manyStr(rs, sigs)
	case "prop":
		c, ip, a, d, fs := unhexStr(f[1]), ipOf(f[2]), parseAddr(f[3]), parseProp(strings.Split(f[4], ",")), parseFaults(f[5])
		undo := installFaults(fs, nil)
		if w.viaGrpc {
			out := w.execGRPC(f)
			undo()
			return out
		}
		r, sig := w.signer.SignBeaconProposal(ctx, creds(c, ip), a.name, a.key, d)
		undo()
		return posStr(r, sig)
	case "sign":
		c, ip, a, d, fs := unhexStr(f[1]), ipOf(f[2]), parseAddr(f[3]), parseSign(strings.Split(f[4], ",")), parseFaults(f[5])
		undo := installFaults(fs, nil)
		if w.viaGrpc {
			out := w.execGRPC(f)
			undo()
			return out
		}
		r, sig := w.signer.SignGeneric(ctx, creds(c, ip), a.name, a.key, d)
		undo()
		return posStr(r, sig)
	case "msign":
		c, ip, fs := unhexStr(f[1]), ipOf(f[2]), parseFaults(f[3])
		var names []string
		var keys [][]byte
		var data []*rules.SignData
		failRoots := map[string]bool{}
		for i, it := range strings.Split(f[4], ";") {
			p := strings.Split(it, ",")
			a := parseAddr(p[0])
			names = append(names, a.name)
			keys = append(keys, a.key)
			d := parseSign(p[1:])
			data = append(data, d)
			if fs.signFail[i] && len(d.Data) == 32 && len(d.Domain) == 32 {
				failRoots[hex.EncodeToString(hashPair(d.Data, d.Domain))] = true
			}
		}
		undo := installFaults(fs, failRoots)
		if w.viaGrpc {
			out := w.execGRPC(f)
			undo()
			return out
		}
		rs, sigs := w.signer.Multisign(ctx, creds(c, ip), names, keys, data)
		undo()
		return manyStr(rs, sigs)
	case "restart":
		w.restart()
		return "ok"
	case "twinprop", "twinatt":
		// twinprop <client> <addr> <proposal A> <proposal B>: while this instance is running, a SECOND rules service is opened
		// on the same storage path (an overlapping restart, a second daemon, an export run).  It must be refused (the
		// directory lock).  If it opens, this instance signs A and the twin is asked to approve B for the same key.
		tctx, tcancel := context.WithCancel(context.Background())
		twin, err := standardrules.New(tctx, standardrules.WithStoragePath(filepath.Join(w.dir, "storage")), standardrules.WithAdminIPs(w.adminIPs))
		if err != nil {
			tcancel()
			return "refused"
		}
		a := parseAddr(f[2])
		out := "opened"
		_, acct, ferr := w.fetchForTwin(ctx, a)
		if ferr == nil {
			md := &rules.ReqMetadata{Account: acct.Name(), PubKey: acct.PublicKey().Marshal(), Client: unhexStr(f[1])}
			if f[0] == "twinprop" {
				r1, sig := w.signer.SignBeaconProposal(ctx, creds(unhexStr(f[1]), ""), a.name, a.key, parseProp(strings.Split(f[3], ",")))
				r2 := twin.OnSignBeaconProposal(ctx, md, parseProp(strings.Split(f[4], ",")))
				out = fmt.Sprintf("opened:%s:%v", posStr(r1, sig), r2)
			} else {
				r1, sig := w.signer.SignBeaconAttestation(ctx, creds(unhexStr(f[1]), ""), a.name, a.key, parseAtt(strings.Split(f[3], ",")))
				r2 := twin.OnSignBeaconAttestation(ctx, md, parseAtt(strings.Split(f[4], ",")))
				out = fmt.Sprintf("opened:%s:%v", posStr(r1, sig), r2)
			}
		}
		_ = twin.Close(context.Background())
		tcancel()
		return out
	case "rbatch":
		// rbatch <n> <base> <source> <target> <roottag>: ONE attestation batch at the ruler (as the signer hands it over) for n
		// synthetic validator keys base..base+n-1 — no accounts needed, so n can be far beyond what wallets allow; result: how
		// many entries came back approved / denied / failed / other
		n, _ := strconv.Atoi(f[1])
		base, _ := strconv.Atoi(f[2])
		root := bytes.Repeat([]byte{byte(0xA0 + u64(f[5]))}, 32)
		data := make([]*ruler.RulesData, n)
		for i := 0; i < n; i++ {
			pk := make([]byte, 48)
			pk[0] = 0xa0
			binary.BigEndian.PutUint64(pk[40:], uint64(base+i))
			data[i] = &ruler.RulesData{WalletName: "Synthetic", AccountName: fmt.Sprintf("v%d", base+i), PubKey: pk,
				Data: &rules.SignBeaconAttestationData{Domain: append([]byte{1, 0, 0, 0}, make([]byte, 28)...), Slot: 1, CommitteeIndex: 1, BeaconBlockRoot: root,
					Source: &rules.Checkpoint{Epoch: u64(f[3]), Root: root}, Target: &rules.Checkpoint{Epoch: u64(f[4]), Root: root}}}
		}
		res := w.ruler.RunRules(ctx, creds("client1", ""), ruler.ActionSignBeaconAttestation, data)
		var a, d, fl, o int
		for _, r := range res {
			switch r {
			case rules.APPROVED:
				a++
			case rules.DENIED:
				d++
			case rules.FAILED:
				fl++
			default:
				o++
			}
		}
		return fmt.Sprintf("n=%d A=%d D=%d F=%d O=%d", len(res), a, d, fl, o)
	case "pause":
		ms, _ := strconv.Atoi(f[1])
		time.Sleep(time.Duration(ms) * time.Millisecond)
		return "ok"
	case "list":
		if w.viaGrpc {
			return w.execGRPC(f)
		}
		client := ""
		if f[1] != "." {
			client = unhexStr(f[1])
		}
		var paths []string
		if f[2] != "-" {
			for _, p := range strings.Split(f[2], ",") {
				paths = append(paths, hs(p))
			}
		}
		res, accts := w.lister.ListAccounts(ctx, creds(client, ""), paths)
		var names []string
		for _, a := range accts {
			nm := ""
			if wp, ok := a.(e2wtypes.AccountWalletProvider); ok {
				nm = wp.Wallet().Name() + "/" + a.Name()
			} else {
				nm = "?/" + a.Name()
			}
			// each entry must carry its own name and public key
			if _, fa, err := w.fetcher.FetchAccount(ctx, nm); err != nil || !bytes.Equal(fa.PublicKey().Marshal(), a.PublicKey().Marshal()) {
				nm += "!"
			}
			names = append(names, hexOrDot([]byte(nm)))
		}
		sort.Strings(names)
		out := "-"
		if len(names) > 0 {
			out = strings.Join(names, ",")
		}
		return coreStr(res) + " " + out
	case "create":
		pub, _, err := w.process.OnGenerate(ctx, creds(unhexStr(f[1]), ""), unhexStr(f[2]), []byte("pass"), 1, 1)
		if err != nil || len(pub) == 0 {
			if os.Getenv("DH_DEBUG") != "" {
				fmt.Fprintln(os.Stderr, "create failed:", err)
			}
			return "err"
		}
		dynMu.Lock()
		dynKeys[unhexStr(f[2])] = pub
		dynMu.Unlock()
		// the name under which the account now exists (looked up by the key the service returned)
		made := "?"
		if wal, acc, err := w.fetcher.FetchAccountByKey(ctx, pub); err == nil && wal != nil && acc != nil {
			made = hex.EncodeToString([]byte(wal.Name() + "/" + acc.Name()))
		}
		return "ok " + made
	case "syncwrites":
		return fmt.Sprintf("%v", w.rules.VerifSyncWrites())
	case "export":
		return w.export()
	case "lockwallet", "unlockwallet":
		// lockwallet <client> <wallet>: through the wallet manager service (built on this instance's services)
		if w.walletMgr == nil {
			wm, err := standardwalletmanager.New(w.ctx, standardwalletmanager.WithUnlocker(w.unlocker), standardwalletmanager.WithChecker(w.checker),
				standardwalletmanager.WithFetcher(w.fetcher), standardwalletmanager.WithRuler(w.ruler))
			if err != nil {
				return "err:" + err.Error()
			}
			w.walletMgr = wm
		}
		var r core.Result
		if f[0] == "lockwallet" {
			r, _ = w.walletMgr.Lock(ctx, creds(unhexStr(f[1]), ""), unhexStr(f[2]))
		} else {
			r, _ = w.walletMgr.Unlock(ctx, creds(unhexStr(f[1]), ""), unhexStr(f[2]), []byte("pass"))
		}
		return coreStr(r)
	case "lockacct", "unlockacct":
		// lockacct <client> <account> | unlockacct <client> <account> <passphrase>: through the account manager service
		if w.acctMgr == nil {
			am, err := standardaccountmanager.New(w.ctx, standardaccountmanager.WithUnlocker(w.unlocker), standardaccountmanager.WithChecker(w.checker),
				standardaccountmanager.WithFetcher(w.fetcher), standardaccountmanager.WithRuler(w.ruler), standardaccountmanager.WithProcess(w.process))
			if err != nil {
				return "err:" + err.Error()
			}
			w.acctMgr = am
		}
		var r core.Result
		if f[0] == "lockacct" {
			r, _ = w.acctMgr.Lock(ctx, creds(unhexStr(f[1]), ""), unhexStr(f[2]))
		} else {
			r, _ = w.acctMgr.Unlock(ctx, creds(unhexStr(f[1]), ""), unhexStr(f[2]), []byte(hs(f[3])))
		}
		return coreStr(r)
	case "importsvc":
		// importsvc <key> <slot> <source> <target>: rules.Service.ImportSlashingProtection on the LIVE service (-1 = absent)
		var k [48]byte
		copy(k[:], unhex(f[1]))
		a, _ := strconv.ParseInt(f[2], 10, 64)
		b, _ := strconv.ParseInt(f[3], 10, 64)
		c_, _ := strconv.ParseInt(f[4], 10, 64)
		err := w.rules.ImportSlashingProtection(ctx, map[[48]byte]*rules.SlashingProtection{k: {HighestProposedSlot: a, HighestAttestedSourceEpoch: b, HighestAttestedTargetEpoch: c_}})
		if err != nil {
			return "err"
		}
		return "ok"
	case "check":
		if w.checker == nil {
			return "0"
		}
		if w.checker.Check(ctx, creds(unhexStr(f[1]), ""), unhexStr(f[2]), unhexStr(f[3])) {
			return "1"
		}
		return "0"
	}
	return "bad-op " + strings.Join(f, " ")
}

func manyStr(rs []core.Result, sigs [][]byte) string {
	out := make([]string, len(rs))
	for i := range rs {
		var sig []byte
		if i < len(sigs) {
			sig = sigs[i]
		}
		out[i] = posStr(rs[i], sig)
	}
	return strings.Join(out, " ")
}

// runEngine interprets a whole op file from stdin: config lines, `begin`, ops; `reset` starts over.
func runEngine(workdir string) {
	sc := bufio.NewScanner(os.Stdin)
	sc.Buffer(make([]byte, 1<<20), 1<<26)
	out := bufio.NewWriter(os.Stdout)
	defer out.Flush()
	n := 0
	var w *world
	killAt := -1
	if v := os.Getenv("DH_KILL_AT"); v != "" {
		killAt, _ = strconv.Atoi(v)
	}
	points := 0
	var pointMu sync.Mutex
	point := func(name string) {
		pointMu.Lock()
		defer pointMu.Unlock()
		if os.Getenv("DH_MARK") != "" && (name == "store.exit" || name == "batchstore.exit") {
			os.Stderr.WriteString("MARK " + name + "\n")
		}
		if points == killAt {
			out.Flush()
			os.Stdout.Sync()
			syscall.Kill(os.Getpid(), syscall.SIGKILL)
			select {}
		}
		points++
	}
	if os.Getenv("DH_POINTS") != "" {
		baseHandler = func(name string, _ []byte) error { point(name); return nil }
		verifhook.SetHandler(baseHandler)
	}
	fresh := func() {
		if w != nil && w.rules != nil {
			w.closeRules()
		}
		removeStallFirst()
		n++
		dir := fmt.Sprintf("%s/w%d", workdir, n)
		if d := os.Getenv("DH_DIR"); d != "" {
			dir = d
		}
		if err := os.MkdirAll(dir, 0o755); err != nil {
			panic(err)
		}
		w = newWorld(dir)
	}
	fresh()
	for sc.Scan() {
		line := strings.TrimSpace(sc.Text())
		if line == "" || strings.HasPrefix(line, "#") {
			continue
		}
		f := strings.Fields(line)
		switch {
		case f[0] == "reset":
			prev := w.dir
			staleLockMs.Store(0)
			fresh()
			if os.Getenv("DH_DIR") == "" {
				os.RemoveAll(prev)
			}
			continue
		case f[0] == "begin":
			fmt.Fprintln(out, w.begin())
		case w.config(f):
			continue
		default:
			// a watchdog per request: one that is not answered within two minutes never will be (the process ends so that the
			// caller is not held up)
			resCh := make(chan string, 1)
			go func() { resCh <- w.exec(f) }()
			var res string
			select {
			case res = <-resCh:
			case <-time.After(opWatchdog):
				fmt.Fprintln(out, "TIMEOUT request not answered within "+opWatchdog.String())
				out.Flush()
				os.Exit(3)
			}
			if os.Getenv("DH_POINTS") != "" {
				point("reply.before")
			}
			fmt.Fprintln(out, res)
			out.Flush()
			if os.Getenv("DH_POINTS") != "" {
				point("reply.after")
			}
		}
		out.Flush()
	}
	if os.Getenv("DH_POINTS") != "" {
		fmt.Fprintf(out, "POINTS %d\n", points)
	}
	if w != nil && w.rules != nil {
		w.closeRules()
	}
}

// public keys of the accounts created through dirk in this process ("d:" addresses)
var (
	dynMu   sync.Mutex
	dynKeys = map[string][]byte{}
)

func init() {
	dynResolver = func(path string) []byte {
		dynMu.Lock()
		defer dynMu.Unlock()
		return dynKeys[path]
	}
}

// fetchForTwin resolves an address the way the signer does (by key if given, else by name).
func (w *world) fetchForTwin(ctx context.Context, a addr) (e2wtypes.Wallet, e2wtypes.Account, error) {
	if a.key != nil {
		return w.fetcher.FetchAccountByKey(ctx, a.key)
	}
	return w.fetcher.FetchAccount(ctx, a.name)
}

// rulesShort k > 0: the signer's ruler hands back only the first k verdicts of what the real ruler decided.
var rulesShort atomic.Int64

// shortRuler is the ruler the signer is built with: dirk's own ruler, whose answer is cut while rulesShort is set.
type shortRuler struct{ inner ruler.Service }

func (r shortRuler) RunRules(ctx context.Context, credentials *checker.Credentials, action string, data []*ruler.RulesData) []rules.Result {
	res := r.inner.RunRules(ctx, credentials, action, data)
	if k := int(rulesShort.Load()); k > 0 && len(res) > k {
		return res[:k]
	}
	return res
}

// lockStateFail: while set, accounts handed out by the fetcher answer IsUnlocked with an error.
var lockStateFail atomic.Bool

// flakyFetcher hands out the real accounts, wrapped (only while lockStateFail is set) so that their lock state cannot be
// determined; everything else is forwarded.
type flakyFetcher struct{ fetcher.Service }

func (f *flakyFetcher) FetchAccount(ctx context.Context, path string) (e2wtypes.Wallet, e2wtypes.Account, error) {
	w, a, err := f.Service.FetchAccount(ctx, path)
	return w, wrapFlaky(a), err
}

func (f *flakyFetcher) FetchAccountByKey(ctx context.Context, pubKey []byte) (e2wtypes.Wallet, e2wtypes.Account, error) {
	w, a, err := f.Service.FetchAccountByKey(ctx, pubKey)
	return w, wrapFlaky(a), err
}

type flakyAccount struct {
	e2wtypes.Account
	l  e2wtypes.AccountLocker
	s  e2wtypes.AccountSigner
	wp e2wtypes.AccountWalletProvider
	// stale: the lock state is reported truthfully but late (stalelock); otherwise it cannot be determined (fault u)
	stale bool
}

// staleLockMs > 0: see config line `stalelock`.
var staleLockMs, staleLockCount atomic.Int64

func wrapFlaky(a e2wtypes.Account) e2wtypes.Account {
	if a == nil || !(lockStateFail.Load() || staleLockMs.Load() > 0) {
		return a
	}
	l, ok1 := a.(e2wtypes.AccountLocker)
	s, ok2 := a.(e2wtypes.AccountSigner)
	wp, ok3 := a.(e2wtypes.AccountWalletProvider)
	if !(ok1 && ok2 && ok3) {
		return a
	}
	return &flakyAccount{Account: a, l: l, s: s, wp: wp, stale: !lockStateFail.Load()}
}

func (a *flakyAccount) IsUnlocked(ctx context.Context) (bool, error) {
	if a.stale {
		v, err := a.l.IsUnlocked(ctx)
		if err == nil && !v {
			if n := staleLockCount.Add(1); n > 1 {
				time.Sleep(time.Duration((n-1)*staleLockMs.Load()) * time.Millisecond)
			}
		}
		return v, err
	}
	return false, errors.New("injected: lock state cannot be determined")
}
func (a *flakyAccount) Lock(ctx context.Context) error                { return a.l.Lock(ctx) }
func (a *flakyAccount) Unlock(ctx context.Context, p []byte) error    { return a.l.Unlock(ctx, p) }
func (a *flakyAccount) Wallet() e2wtypes.Wallet                       { return a.wp.Wallet() }
func (a *flakyAccount) Sign(ctx context.Context, d []byte) (e2types.Signature, error) {
	return a.s.Sign(ctx, d)
}

// opWatchdog bounds one sequential request (DH_OP_TIMEOUT_S overrides).
var opWatchdog = func() time.Duration {
	if v, err := strconv.Atoi(os.Getenv("DH_OP_TIMEOUT_S")); err == nil && v > 0 {
		return time.Duration(v) * time.Second
	}
	return 120 * time.Second
}()
