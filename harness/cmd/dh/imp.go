package main

import (
	"bufio"
	"context"
	"encoding/hex"
	"encoding/json"
	"fmt"
	"os"
	"os/exec"
	"path/filepath"
	"sort"
	"strconv"
	"strings"

	"github.com/attestantio/dirk/rules"
	standardrules "github.com/attestantio/dirk/rules/standard"
	"github.com/rs/zerolog"
)

// imp engine: drives the built dirk binary's --import/--export-slashing-protection commands on a
// storage directory, and probes the resulting store through a real rules service.

const exportGVR = "0x0000000000000000000000000000000000000000000000000000000000000001"

type impWorld struct {
	twin *impWorld // the re-imported copy, once `roundtrip` has run
	dir  string
	bin  string
	n    int
	raws [][2][]byte
}

func (w *impWorld) storage() string { return filepath.Join(w.dir, "storage") }

func (w *impWorld) begin() string {
	os.MkdirAll(w.dir, 0o755)
	yml := fmt.Sprintf("server:\n  name: verif\nstorage-path: %s\n", w.storage())
	if err := os.WriteFile(filepath.Join(w.dir, "dirk.yml"), []byte(yml), 0o600); err != nil {
		panic(err)
	}
	ctx := context.Background()
	st, err := standardrules.NewStore(ctx, w.storage(), false, zerolog.Nop())
	if err != nil {
		panic(err)
	}
	for _, kv := range w.raws {
		if err := st.Store(ctx, kv[0], kv[1]); err != nil {
			panic(err)
		}
	}
	st.Close(ctx)
	return "ok"
}

func (w *impWorld) runBin(args ...string) (int, string, string) {
	all := append([]string{"--base-dir", w.dir}, args...)
	cmd := exec.Command(w.bin, all...)
	var so, se strings.Builder
	cmd.Stdout, cmd.Stderr = &so, &se
	err := cmd.Run()
	code := 0
	if err != nil {
		if ee, ok := err.(*exec.ExitError); ok {
			code = ee.ExitCode()
		} else {
			code = -1
		}
	}
	return code, so.String(), se.String()
}

func hs(s string) string {
	if s == "." {
		return ""
	}
	return unhexStr(s)
}

func (w *impWorld) doImport(f []string) string {
	gvrFlag := hs(f[1])
	doc := map[string]any{}
	if f[2] != "-" {
		m := strings.Split(f[2], ",")
		doc["metadata"] = map[string]any{"interchange_format_version": hs(m[0]), "genesis_validators_root": hs(m[1])}
	}
	data := []any{}
	if f[3] != "-" {
		for _, e := range strings.Split(f[3], ";") {
			p := strings.Split(e, ",")
			ent := map[string]any{"pubkey": hs(p[0])}
			if p[1] != "-" {
				var bl []any
				for _, s := range strings.Split(p[1], ":") {
					bl = append(bl, map[string]any{"slot": hs(s)})
				}
				ent["signed_blocks"] = bl
			}
			if p[2] != "-" {
				var at []any
				for _, s := range strings.Split(p[2], ":") {
					st := strings.Split(s, "~")
					at = append(at, map[string]any{"source_epoch": hs(st[0]), "target_epoch": hs(st[1])})
				}
				ent["signed_attestations"] = at
			}
			data = append(data, ent)
		}
	}
	doc["data"] = data
	b, _ := json.Marshal(doc)
	w.n++
	file := filepath.Join(w.dir, fmt.Sprintf("import-%d.json", w.n))
	os.WriteFile(file, b, 0o600)
	args := []string{"--import-slashing-protection", "--slashing-protection-file", file}
	if gvrFlag != "" {
		args = append(args, "--genesis-validators-root", gvrFlag)
	}
	code, _, _ := w.runBin(args...)
	switch code {
	case 0:
		return "ok"
	case 1:
		return "err"
	}
	return fmt.Sprintf("crash(%d)", code)
}

// importBulk: importbulk <n> <slot> <source> <target> — one interchange file with n keys (key i = i as 4 big-endian
// bytes followed by 0x77…), each with one block and one attestation; then an export; result
// "bulk <import result> n=<n> below=<keys whose exported values are below the imported ones> missing=<keys absent>".
func (w *impWorld) importBulk(f []string) string {
	n, _ := strconv.Atoi(f[1])
	var sb strings.Builder
	sb.WriteString(`{"metadata":{"interchange_format_version":"5","genesis_validators_root":"` + exportGVR + `"},"data":[`)
	key := func(i int) string {
		k := make([]byte, 48)
		k[0], k[1], k[2], k[3] = byte(i>>24), byte(i>>16), byte(i>>8), byte(i)
		for j := 4; j < 48; j++ {
			k[j] = 0x77
		}
		return "0x" + hex.EncodeToString(k)
	}
	for i := 0; i < n; i++ {
		if i > 0 {
			sb.WriteByte(',')
		}
		fmt.Fprintf(&sb, `{"pubkey":"%s","signed_blocks":[{"slot":"%s"}],"signed_attestations":[{"source_epoch":"%s","target_epoch":"%s"}]}`, key(i), f[2], f[3], f[4])
	}
	sb.WriteString("]}")
	w.n++
	file := filepath.Join(w.dir, fmt.Sprintf("import-%d.json", w.n))
	os.WriteFile(file, []byte(sb.String()), 0o600)
	code, _, _ := w.runBin("--import-slashing-protection", "--slashing-protection-file", file, "--genesis-validators-root", exportGVR)
	os.Remove(file)
	res := map[int]string{0: "ok", 1: "err"}[code]
	if res == "" {
		res = fmt.Sprintf("crash(%d)", code)
	}
	ex := w.doExport()
	have := map[string][3]int64{}
	for _, tok := range strings.Fields(ex)[1:] {
		p := strings.Split(tok, ":")
		if len(p) == 4 {
			a, _ := strconv.ParseInt(p[1], 10, 64)
			b, _ := strconv.ParseInt(p[2], 10, 64)
			c, _ := strconv.ParseInt(p[3], 10, 64)
			have[p[0]] = [3]int64{a, b, c}
		}
	}
	ws, _ := strconv.ParseInt(f[2], 10, 64)
	wa, _ := strconv.ParseInt(f[3], 10, 64)
	wt, _ := strconv.ParseInt(f[4], 10, 64)
	below, missing := 0, 0
	for i := 0; i < n; i++ {
		v, ok := have[key(i)[2:]]
		if !ok {
			missing++
		} else if v[0] < ws || v[1] < wa || v[2] < wt {
			below++
		}
	}
	return fmt.Sprintf("bulk %s n=%d below=%d missing=%d", res, n, below, missing)
}

func (w *impWorld) doExport() string {
	code, so, _ := w.runBin("--export-slashing-protection", "--genesis-validators-root", exportGVR)
	if code != 0 {
		return "E-ERR"
	}
	var doc struct {
		Data []struct {
			PublicKey    string `json:"pubkey"`
			SignedBlocks []struct {
				Slot string `json:"slot"`
			} `json:"signed_blocks"`
			SignedAttestations []struct {
				SourceEpoch string `json:"source_epoch"`
				TargetEpoch string `json:"target_epoch"`
			} `json:"signed_attestations"`
		} `json:"data"`
	}
	if err := json.Unmarshal([]byte(so), &doc); err != nil {
		return "E-BADJSON"
	}
	var parts []string
	for _, d := range doc.Data {
		slot, src, tgt := "-1", "-1", "-1"
		if len(d.SignedBlocks) > 0 {
			slot = d.SignedBlocks[0].Slot
		}
		if len(d.SignedAttestations) > 0 {
			src, tgt = d.SignedAttestations[0].SourceEpoch, d.SignedAttestations[0].TargetEpoch
		}
		parts = append(parts, fmt.Sprintf("%s:%s:%s:%s", strings.TrimPrefix(d.PublicKey, "0x"), slot, src, tgt))
	}
	sort.Strings(parts)
	return strings.TrimSpace("E " + strings.Join(parts, " "))
}

func (w *impWorld) roundtrip() string {
	file := filepath.Join(w.dir, "roundtrip.json")
	code, _, _ := w.runBin("--export-slashing-protection", "--genesis-validators-root", exportGVR, "--slashing-protection-file", file)
	if code != 0 {
		return "E-ERR"
	}
	t := &impWorld{dir: w.dir + "-b", bin: w.bin}
	os.RemoveAll(t.dir)
	t.begin()
	code, _, _ = t.runBin("--import-slashing-protection", "--genesis-validators-root", exportGVR, "--slashing-protection-file", file)
	if code != 0 {
		return "E-IMPORT-ERR"
	}
	w.twin = t
	return t.doExport()
}

func verdictStr(r rules.Result) string {
	switch r {
	case rules.APPROVED:
		return "A"
	case rules.DENIED:
		return "D"
	case rules.FAILED:
		return "F"
	}
	return "U"
}

func (w *impWorld) probe(f []string) string {
	ctx, cancel := context.WithCancel(context.Background())
	svc, err := standardrules.New(ctx, standardrules.WithStoragePath(w.storage()))
	if err != nil {
		cancel()
		return "F"
	}
	defer func() { svc.Close(context.Background()); cancel() }()
	pk := unhex(f[1])
	md := &rules.ReqMetadata{Account: "a", PubKey: pk, Client: "c"}
	if f[0] == "probeatt" {
		dom := make([]byte, 32)
		dom[0] = 1
		return verdictStr(svc.OnSignBeaconAttestation(ctx, md, &rules.SignBeaconAttestationData{Domain: dom,
			Source: &rules.Checkpoint{Epoch: u64(f[2])}, Target: &rules.Checkpoint{Epoch: u64(f[3])}}))
	}
	dom := make([]byte, 32)
	return verdictStr(svc.OnSignBeaconProposal(ctx, md, &rules.SignBeaconProposalData{Domain: dom, Slot: u64(f[2])}))
}

func impEngine(workdir, bin string) {
	zerolog.SetGlobalLevel(zerolog.Disabled)
	sc := bufio.NewScanner(os.Stdin)
	sc.Buffer(make([]byte, 1<<20), 1<<26)
	out := bufio.NewWriter(os.Stdout)
	defer out.Flush()
	n := 0
	var w *impWorld
	fresh := func() {
		if w != nil {
			os.RemoveAll(w.dir)
			if w.twin != nil {
				os.RemoveAll(w.twin.dir)
			}
		}
		n++
		w = &impWorld{dir: fmt.Sprintf("%s/i%d", workdir, n), bin: bin}
	}
	fresh()
	for sc.Scan() {
		line := strings.TrimSpace(sc.Text())
		if line == "" || strings.HasPrefix(line, "#") {
			continue
		}
		f := strings.Fields(line)
		switch f[0] {
		case "reset":
			fresh()
			continue
		case "raw":
			w.raws = append(w.raws, [2][]byte{unhex(f[1]), unhex(f[2])})
			continue
		case "begin":
			fmt.Fprintln(out, w.begin())
		case "import":
			fmt.Fprintln(out, w.doImport(f))
		case "importlive":
			// the import command run while an instance is active on the store (a rules service holds the directory open
			// in this process): must be refused — what it wrote would be invisible to, and overwritten by, the running instance
			lctx, lcancel := context.WithCancel(context.Background())
			live, lerr := standardrules.New(lctx, standardrules.WithStoragePath(w.storage()))
			if lerr != nil {
				lcancel()
				fmt.Fprintln(out, "bad:live-open")
				break
			}
			res := w.doImport(f)
			live.Close(context.Background())
			lcancel()
			fmt.Fprintln(out, res)
		case "export":
			fmt.Fprintln(out, w.doExport())
		case "importbulk":
			fmt.Fprintln(out, w.importBulk(f))
		case "probeatt", "probeprop":
			if w.twin != nil {
				fmt.Fprintln(out, w.probe(f)+" "+w.twin.probe(f))
			} else {
				fmt.Fprintln(out, w.probe(f))
			}
		case "roundtrip":
			// export this store with the binary, import the JSON into an empty store with the binary;
			// print the export of the copy; later probes run on both
			fmt.Fprintln(out, w.roundtrip())
		case "exportb":
			if w.twin == nil {
				fmt.Fprintln(out, "E-NOTWIN")
			} else {
				fmt.Fprintln(out, w.twin.doExport())
			}
		default:
			fmt.Fprintln(out, "bad-op "+line)
		}
		out.Flush()
	}
	if w != nil {
		os.RemoveAll(w.dir)
	}
}

var _ = hex.EncodeToString
