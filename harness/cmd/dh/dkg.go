package main

import (
	"bufio"
	"bytes"
	"context"
	"crypto/sha256"
	"crypto/tls"
	"crypto/x509"
	"encoding/hex"
	"errors"
	"fmt"
	"github.com/attestantio/dirk/services/sender"
	grpcsender "github.com/attestantio/dirk/services/sender/grpc"
	"github.com/attestantio/dirk/testing/resources"
	"github.com/attestantio/dirk/util/verifhook"
	"google.golang.org/grpc"
	"google.golang.org/grpc/codes"
	"google.golang.org/grpc/credentials"
	"google.golang.org/grpc/resolver"
	"google.golang.org/grpc/status"
	"net"
	"os"
	"sort"
	"strconv"
	"strings"
	"sync"
	"sync/atomic"
	"time"

	"github.com/attestantio/dirk/core"
	"github.com/attestantio/dirk/rules"
	standardrules "github.com/attestantio/dirk/rules/standard"
	amhandler "github.com/attestantio/dirk/services/api/grpc/handlers/accountmanager"
	"github.com/attestantio/dirk/services/api/grpc/handlers/receiver"
	"github.com/attestantio/dirk/services/accountmanager"
	"github.com/attestantio/dirk/services/api/grpc/interceptors"
	"github.com/attestantio/dirk/services/checker"
	staticchecker "github.com/attestantio/dirk/services/checker/static"
	memfetcher "github.com/attestantio/dirk/services/fetcher/mem"
	standardlister "github.com/attestantio/dirk/services/lister/standard"
	syncmaplocker "github.com/attestantio/dirk/services/locker/syncmap"
	staticpeers "github.com/attestantio/dirk/services/peers/static"
	standardprocess "github.com/attestantio/dirk/services/process/standard"
	goruler "github.com/attestantio/dirk/services/ruler/golang"
	standardsigner "github.com/attestantio/dirk/services/signer/standard"
	localunlocker "github.com/attestantio/dirk/services/unlocker/local"
	"github.com/google/uuid"
	"github.com/herumi/bls-eth-go-binary/bls"
	"github.com/rs/zerolog"
	pb "github.com/wealdtech/eth2-signer-api/pb/v1"
	e2types "github.com/wealdtech/go-eth2-types/v2"
	e2wallet "github.com/wealdtech/go-eth2-wallet"
	distributed "github.com/wealdtech/go-eth2-wallet-distributed"
	keystorev4 "github.com/wealdtech/go-eth2-wallet-encryptor-keystorev4"
	nd "github.com/wealdtech/go-eth2-wallet-nd/v2"
	scratch "github.com/wealdtech/go-eth2-wallet-store-scratch"
	e2wtypes "github.com/wealdtech/go-eth2-wallet-types/v2"
	"google.golang.org/protobuf/proto"
)

// dkg engine: n real process/standard instances (own wallet store, fetcher, static peers, receiver
// handler, signer, lister) joined by a routing sender that delivers every message through the real
// receiver handlers, with the caller's authenticated name in the context, after a protobuf
// marshal/unmarshal round trip.  The router can alter, drop or duplicate any message.

type dkgInst struct {
	id       uint64
	name     string
	store    e2wtypes.Store
	fstore   *flakyStore
	fetcher  *memfetcher.Service
	process  *standardprocess.Service
	handler  *receiver.Handler
	signer   *standardsigner.Service
	lister   *standardlister.Service
	rules    *standardrules.Service
	unlocker *localunlocker.Service
}

// flakyStore is the instance's wallet store; when armed, the first wallet read AFTER the next account write fails once
// (a transient I/O error, a read-after-write miss of an object store).
type flakyStore struct {
	*scratch.Store
	armed, wrote atomic.Bool
}

func (s *flakyStore) StoreAccount(walletID uuid.UUID, accountID uuid.UUID, data []byte) error {
	err := s.Store.StoreAccount(walletID, accountID, data)
	if s.armed.Load() {
		s.wrote.Store(true)
	}
	return err
}

func (s *flakyStore) RetrieveWallet(walletName string) ([]byte, error) {
	if s.armed.Load() && s.wrote.Load() {
		s.armed.Store(false)
		s.wrote.Store(false)
		return nil, errors.New("injected: wallet read failed")
	}
	return s.Store.RetrieveWallet(walletName)
}

type dkgFault struct {
	kind     string // drop | err | share | vvec | dup | commitpub | commitsig
	msg      string // prepare | execute | contribute | commit
	from, to uint64
	arg      string
	hit      bool
}

type cluster struct {
	dir     string
	insts   map[uint64]*dkgInst
	ids     []uint64
	peerMap map[uint64]string
	fault   *dkgFault
	mu      sync.Mutex
	log     []string // message log of the last generation
	servers []*grpc.Server
}

func peerName(idx int) string { return fmt.Sprintf("signer-test%02d", idx+1) }

// peerViews: every instance's peer table gives the OTHER peers under ports of its own (as when instances reach each other
// through different forwarded ports); names and ids are the same everywhere.
var peerViews bool

func newCluster(dir string, ids []uint64, timeout time.Duration, overGRPC bool) *cluster {
	initBLS()
	c := &cluster{dir: dir, insts: map[uint64]*dkgInst{}, ids: ids, peerMap: map[uint64]string{}}
	listeners := map[uint64]net.Listener{}
	for i, id := range ids {
		c.peerMap[id] = fmt.Sprintf("%s:%d", peerName(i), 13000+i)
		if overGRPC {
			// the real transport: each instance serves the key-generation API over TLS on a loopback port and talks to the
			// others through dirk's own gRPC sender; the host names of the test certificates resolve to loopback
			registerLoopbackResolver()
			l, err := net.Listen("tcp", "127.0.0.1:0")
			if err != nil {
				panic(err)
			}
			listeners[id] = l
			c.peerMap[id] = fmt.Sprintf("%s:%d", peerName(i), l.Addr().(*net.TCPAddr).Port)
		}
	}
	ctx := context.Background()
	for i, id := range ids {
		in := &dkgInst{id: id, name: peerName(i)}
		in.fstore = &flakyStore{Store: scratch.New().(*scratch.Store)}
		in.store = in.fstore
		enc := keystorev4.New()
		if _, err := distributed.CreateWallet(ctx, "DW", in.store, enc); err != nil {
			panic(err)
		}
		if _, err := nd.CreateWallet(ctx, "NW", in.store, enc); err != nil {
			panic(err)
		}
		var err error
		in.unlocker, err = localunlocker.New(ctx, localunlocker.WithWalletPassphrases([]string{"pass"}), localunlocker.WithAccountPassphrases([]string{"pass"}))
		if err != nil {
			panic(err)
		}
		perms := map[string][]*checker.Permissions{
			"client1": {{Path: "DW", Operations: []string{"All"}}, {Path: "NW", Operations: []string{"All"}}},
			"client2": {{Path: "DW", Operations: []string{"None"}}},
			"client3": {{Path: "DW/Visible.*", Operations: []string{"Access account"}}, {Path: "NW", Operations: []string{"~Access account", "All"}}},
		}
		chk, err := staticchecker.New(ctx, staticchecker.WithPermissions(perms))
		if err != nil {
			panic(err)
		}
		in.fetcher, err = memfetcher.New(ctx, memfetcher.WithStores([]e2wtypes.Store{in.store}), memfetcher.WithEncryptor(enc))
		if err != nil {
			panic(err)
		}
		pm := c.peerMap
		if peerViews && !overGRPC {
			pm = map[uint64]string{}
			for pid, ep := range c.peerMap {
				pm[pid] = ep
				if pid != id {
					pm[pid] = fmt.Sprintf("%s:%d", strings.Split(ep, ":")[0], 20000+1000*int(id)+int(pid))
				}
			}
		}
		peersSvc, err := staticpeers.New(ctx, staticpeers.WithPeers(pm))
		if err != nil {
			panic(err)
		}
		var snd sender.Service = &router{c: c, from: in}
		if overGRPC {
			certID := uint64(i + 1)
			snd, err = grpcsender.New(ctx, grpcsender.WithName(in.name), grpcsender.WithServerCert(resources.SignerCerts[certID]),
				grpcsender.WithServerKey(resources.SignerKeys[certID]), grpcsender.WithCACert(resources.CACrt))
			if err != nil {
				panic(err)
			}
		}
		params := []standardprocess.Parameter{
			standardprocess.WithChecker(chk), standardprocess.WithUnlocker(in.unlocker),
			standardprocess.WithSender(snd), standardprocess.WithFetcher(in.fetcher),
			standardprocess.WithEncryptor(enc), standardprocess.WithPeers(peersSvc), standardprocess.WithID(id),
			standardprocess.WithStores([]e2wtypes.Store{in.store}), standardprocess.WithGenerationPassphrase([]byte("pass")),
		}
		if timeout > 0 {
			params = append(params, standardprocess.WithGenerationTimeout(timeout))
		}
		in.process, err = standardprocess.New(ctx, params...)
		if err != nil {
			panic(err)
		}
		in.handler, err = receiver.New(ctx, receiver.WithPeers(peersSvc), receiver.WithProcess(in.process))
		if err != nil {
			panic(err)
		}
		if overGRPC {
			c.serve(in, listeners[id], uint64(i+1))
		}
		in.rules, err = standardrules.New(ctx, standardrules.WithStoragePath(fmt.Sprintf("%s/rules-%d", dir, id)))
		if err != nil {
			panic(err)
		}
		lk, _ := syncmaplocker.New(ctx)
		rl, err := goruler.New(ctx, goruler.WithLocker(lk), goruler.WithRules(in.rules))
		if err != nil {
			panic(err)
		}
		in.signer, err = standardsigner.New(ctx, standardsigner.WithUnlocker(in.unlocker), standardsigner.WithChecker(chk),
			standardsigner.WithFetcher(in.fetcher), standardsigner.WithRuler(rl))
		if err != nil {
			panic(err)
		}
		in.lister, err = standardlister.New(ctx, standardlister.WithFetcher(in.fetcher), standardlister.WithChecker(chk), standardlister.WithRuler(rl))
		if err != nil {
			panic(err)
		}
		c.insts[id] = in
	}
	return c
}

func (c *cluster) close() {
	for _, in := range c.insts {
		in.rules.Close(context.Background())
	}
	for _, s := range c.servers {
		s.Stop()
	}
}

var loopbackOnce sync.Once

type loopbackBuilder struct{}

func (loopbackBuilder) Scheme() string { return "dns" }
func (loopbackBuilder) Build(target resolver.Target, cc resolver.ClientConn, _ resolver.BuildOptions) (resolver.Resolver, error) {
	_, port, err := net.SplitHostPort(target.Endpoint())
	if err != nil {
		return nil, err
	}
	if err := cc.UpdateState(resolver.State{Addresses: []resolver.Address{{Addr: net.JoinHostPort("127.0.0.1", port)}}}); err != nil {
		return nil, err
	}
	return loopbackResolver{}, nil
}

type loopbackResolver struct{}

func (loopbackResolver) ResolveNow(resolver.ResolveNowOptions) {}
func (loopbackResolver) Close()                                {}

// registerLoopbackResolver makes every host name (signer-test01 …) resolve to 127.0.0.1 for gRPC clients of this
// process; the TLS server name is still the dialled name, so certificates are verified against it
func registerLoopbackResolver() { loopbackOnce.Do(func() { resolver.Register(loopbackBuilder{}) }) }

// serve starts the key-generation API of one instance over mutual TLS, with dirk's client-info interceptor and a
// fault-injecting interceptor behind it (status codes in place of a reply, before or after the handler ran)
func (c *cluster) serve(in *dkgInst, l net.Listener, certID uint64) {
	pair, err := tls.X509KeyPair(resources.SignerCerts[certID], resources.SignerKeys[certID])
	if err != nil {
		panic(err)
	}
	pool := x509.NewCertPool()
	pool.AppendCertsFromPEM(resources.CACrt)
	creds := credentials.NewTLS(&tls.Config{Certificates: []tls.Certificate{pair}, ClientAuth: tls.RequireAndVerifyClientCert, ClientCAs: pool, MinVersion: tls.VersionTLS13})
	faulty := func(ctx context.Context, req any, info *grpc.UnaryServerInfo, handler grpc.UnaryHandler) (any, error) {
		method := strings.ToLower(info.FullMethod[strings.LastIndex(info.FullMethod, "/")+1:])
		c.mu.Lock()
		c.log = append(c.log, fmt.Sprintf("%s:>%d", method, in.id))
		f := c.fault
		hit := f != nil && (f.kind == "statusreply" || f.kind == "statusreq") && f.msg == method && f.to == in.id && !f.hit
		if hit {
			f.hit = true
		}
		c.mu.Unlock()
		if hit {
			code := codes.DeadlineExceeded
			switch f.arg {
			case "Canceled":
				code = codes.Canceled
			case "Unavailable":
				code = codes.Unavailable
			case "Internal":
				code = codes.Internal
			case "ResourceExhausted":
				code = codes.ResourceExhausted
			}
			if f.kind == "statusreply" {
				_, _ = handler(ctx, req) // the request is served, the reply is lost
			}
			return nil, status.Error(code, "injected: no reply")
		}
		return handler(ctx, req)
	}
	srv := grpc.NewServer(grpc.Creds(creds), grpc.ChainUnaryInterceptor(interceptors.ClientInfoInterceptor(), faulty))
	pb.RegisterDKGServer(srv, in.handler)
	c.servers = append(c.servers, srv)
	go func() { _ = srv.Serve(l) }()
}

// router implements sender.Service on top of the other instances' receiver handlers.
type router struct {
	c    *cluster
	from *dkgInst
}

// ctxDeadlineMs: when > 0 every handler-level call carries a request deadline that far in the future (as a call that
// arrived over gRPC from a caller with a timeout does); set by the "ctxdl" op.
var ctxDeadlineMs int

func callerCtx(name string) context.Context {
	ctx := context.WithValue(context.Background(), &interceptors.ClientName{}, name)
	if ctxDeadlineMs > 0 {
		ctx, _ = context.WithTimeout(ctx, time.Duration(ctxDeadlineMs)*time.Millisecond) //nolint:govet
	}
	return ctx
}

func wire[T proto.Message](in T, out T) T {
	b, err := proto.Marshal(in)
	if err != nil {
		panic(err)
	}
	if err := proto.Unmarshal(b, out); err != nil {
		panic(err)
	}
	return out
}

func (r *router) faultFor(msg string, to uint64) *dkgFault {
	f := r.c.fault
	if f == nil || f.msg != msg || f.to != to || (f.from != 0 && f.from != r.from.id) {
		return nil
	}
	if f.hit && f.kind != "dup" {
		return nil
	}
	f.hit = true
	return f
}

func (r *router) note(s string) {
	r.c.mu.Lock()
	r.c.log = append(r.c.log, s)
	r.c.mu.Unlock()
}

func (r *router) Prepare(_ context.Context, recipient *core.Endpoint, account string, passphrase []byte, threshold uint32, participants []*core.Endpoint) error {
	r.note(fmt.Sprintf("prepare:%d>%d", r.from.id, recipient.ID))
	if f := r.faultFor("prepare", recipient.ID); f != nil && (f.kind == "drop" || f.kind == "err") {
		return errors.New("injected: prepare lost")
	}
	to, ok := r.c.insts[recipient.ID]
	if !ok {
		return errors.New("no such instance")
	}
	req := &pb.PrepareRequest{Account: account, Passphrase: passphrase, Threshold: threshold}
	for _, p := range participants {
		req.Participants = append(req.Participants, &pb.Endpoint{Id: p.ID, Name: p.Name, Port: p.Port})
	}
	_, err := to.handler.Prepare(callerCtx(r.from.name), wire(req, &pb.PrepareRequest{}))
	return err
}

func (r *router) Execute(_ context.Context, recipient *core.Endpoint, account string) error {
	r.note(fmt.Sprintf("execute:%d>%d", r.from.id, recipient.ID))
	if f := r.faultFor("execute", recipient.ID); f != nil && (f.kind == "drop" || f.kind == "err") {
		return errors.New("injected: execute lost")
	}
	to, ok := r.c.insts[recipient.ID]
	if !ok {
		return errors.New("no such instance")
	}
	_, err := to.handler.Execute(callerCtx(r.from.name), wire(&pb.ExecuteRequest{Account: account}, &pb.ExecuteRequest{}))
	return err
}

func (r *router) Commit(_ context.Context, recipient *core.Endpoint, account string, confirmationData []byte) ([]byte, []byte, error) {
	r.note(fmt.Sprintf("commit:%d>%d", r.from.id, recipient.ID))
	to, ok := r.c.insts[recipient.ID]
	if !ok {
		return nil, nil, errors.New("no such instance")
	}
	if f := r.c.fault; f != nil && f.kind == "delayall" && f.msg == "commit" && (f.from == 0 || f.from == r.from.id) {
		ms, _ := strconv.Atoi(f.arg)
		time.Sleep(time.Duration(ms) * time.Millisecond)
	}
	if f := r.faultFor("commit", recipient.ID); f != nil && f.kind == "delay" {
		ms, _ := strconv.Atoi(f.arg)
		time.Sleep(time.Duration(ms) * time.Millisecond)
	}
	res, err := to.handler.Commit(callerCtx(r.from.name), wire(&pb.CommitRequest{Account: account, ConfirmationData: confirmationData}, &pb.CommitRequest{}))
	if err != nil {
		return nil, nil, err
	}
	res = wire(res, &pb.CommitResponse{})
	pub, sig := res.GetPublicKey(), res.GetConfirmationSignature()
	if f := r.c.fault; f != nil && f.msg == "commit" && f.to == recipient.ID {
		switch f.kind {
		case "commitpub":
			var other bls.SecretKey
			other.SetByCSPRNG()
			pub = other.GetPublicKey().Serialize()
		case "commitsig":
			var other bls.SecretKey
			other.SetByCSPRNG()
			sig = other.SignByte([]byte("x")).Serialize()
		}
	}
	return pub, sig, nil
}

func (r *router) Abort(_ context.Context, recipient *core.Endpoint, account string) error {
	to, ok := r.c.insts[recipient.ID]
	if !ok {
		return errors.New("no such instance")
	}
	_, err := to.handler.Abort(callerCtx(r.from.name), wire(&pb.AbortRequest{Account: account}, &pb.AbortRequest{}))
	return err
}

func (r *router) SendContribution(_ context.Context, recipient *core.Endpoint, account string, secret bls.SecretKey, vVec []bls.PublicKey) (bls.SecretKey, []bls.PublicKey, error) {
	r.note(fmt.Sprintf("contribute:%d>%d", r.from.id, recipient.ID))
	to, ok := r.c.insts[recipient.ID]
	if !ok {
		return bls.SecretKey{}, nil, errors.New("no such instance")
	}
	if df := r.c.fault; df != nil && df.kind == "delayall" && df.msg == "contribute" && (df.from == 0 || df.from == r.from.id) {
		ms, _ := strconv.Atoi(df.arg)
		time.Sleep(time.Duration(ms) * time.Millisecond)
	}
	f := r.faultFor("contribute", recipient.ID)
	sendSecret, sendVec := secret, vVec
	replyAlter := ""
	if f != nil {
		switch f.kind {
		case "drop", "err":
			return bls.SecretKey{}, nil, errors.New("injected: contribution lost")
		case "share":
			var other bls.SecretKey
			other.SetByCSPRNG()
			sendSecret = other
		case "equiv":
			// equivocation: this recipient gets a share and vector of f(x)+d*x — same constant term (so the same
			// composite key), consistent with each other (so it verifies), but a different polynomial than the others see
			if len(vVec) >= 2 {
				var d, zero, term bls.SecretKey
				d.SetByCSPRNG()
				id := blsID(recipient.ID)
				if err := term.Set([]bls.SecretKey{zero, d}, id); err == nil {
					sendSecret = secret
					sendSecret.Add(&term)
					sendVec = append([]bls.PublicKey{}, vVec...)
					sendVec[1].Add(d.GetPublicKey())
				}
			}
		case "vvecalter":
			sendVec = append([]bls.PublicKey{}, vVec...)
			var other bls.SecretKey
			other.SetByCSPRNG()
			sendVec[len(sendVec)-1] = *other.GetPublicKey()
		case "vvecshort":
			sendVec = vVec[:len(vVec)-1]
		case "vvecempty":
			sendVec = nil // no entries at all
		case "vvecone":
			sendVec = vVec[:1]
		case "vveclong":
			var other bls.SecretKey
			other.SetByCSPRNG()
			sendVec = append(append([]bls.PublicKey{}, vVec...), *other.GetPublicKey())
		case "vveclongzero":
			// a longer vector whose extra entry is the identity: the share still verifies against it
			sendVec = append(append([]bls.PublicKey{}, vVec...), bls.PublicKey{})
		case "replyshare", "replyvvecshort", "replyvveclong", "replyvvecempty":
			replyAlter = f.kind
		}
	}
	req := &pb.ContributeRequest{Account: account, Secret: sendSecret.Serialize()}
	for i := range sendVec {
		req.VerificationVector = append(req.VerificationVector, sendVec[i].Serialize())
	}
	deliver := func() (*pb.ContributeResponse, error) {
		return to.handler.Contribute(callerCtx(r.from.name), wire(req, &pb.ContributeRequest{}))
	}
	res, err := deliver()
	if f != nil && f.kind == "dup" && err == nil {
		res, err = deliver()
	}
	if f != nil && (f.kind == "dupalter" || f.kind == "dupalter0") && err == nil {
		// the genuine contribution once more — same share — but with one entry of the vector altered (the last: a higher
		// coefficient; dupalter0: the constant term)
		alt := append([]bls.PublicKey{}, vVec...)
		var other bls.SecretKey
		other.SetByCSPRNG()
		if f.kind == "dupalter0" {
			alt[0] = *other.GetPublicKey()
		} else {
			alt[len(alt)-1] = *other.GetPublicKey()
		}
		req2 := &pb.ContributeRequest{Account: account, Secret: sendSecret.Serialize()}
		for i := range alt {
			req2.VerificationVector = append(req2.VerificationVector, alt[i].Serialize())
		}
		res, err = to.handler.Contribute(callerCtx(r.from.name), wire(req2, &pb.ContributeRequest{}))
	}
	if err != nil {
		return bls.SecretKey{}, nil, err
	}
	res = wire(res, &pb.ContributeResponse{})
	var rs bls.SecretKey
	if err := rs.Deserialize(res.GetSecret()); err != nil {
		return bls.SecretKey{}, nil, err
	}
	rv := make([]bls.PublicKey, len(res.GetVerificationVector()))
	for i, k := range res.GetVerificationVector() {
		if err := rv[i].Deserialize(k); err != nil {
			return bls.SecretKey{}, nil, err
		}
	}
	switch replyAlter {
	case "replyshare":
		rs.SetByCSPRNG()
	case "replyvvecshort":
		rv = rv[:len(rv)-1]
	case "replyvvecempty":
		rv = nil
	case "replyvveclong":
		rv = append(rv, bls.PublicKey{})
	}
	return rs, rv, nil
}

// ---------------------------------------------------------------------------------------------

func (c *cluster) holds(in *dkgInst, account string) (bool, e2wtypes.Account) {
	ctx := context.Background()
	wn, an, err := e2wallet.WalletAndAccountNames(account)
	if err != nil {
		return false, nil
	}
	w, err := e2wallet.OpenWallet(wn, e2wallet.WithStore(in.store))
	if err != nil {
		return false, nil
	}
	a, err := w.(e2wtypes.WalletAccountByNameProvider).AccountByName(ctx, an)
	if err != nil {
		return false, nil
	}
	return true, a
}

func sortedIDs(m map[uint64]string) []uint64 {
	var ids []uint64
	for k := range m {
		ids = append(ids, k)
	}
	sort.Slice(ids, func(i, j int) bool { return ids[i] < ids[j] })
	return ids
}

type acctInfo struct {
	id        uint64
	composite []byte
	vvec      [][]byte
	threshold uint32
	parts     []uint64
	partEps   string
	acct      e2wtypes.Account
}

func (c *cluster) info(account string) []acctInfo {
	var out []acctInfo
	for _, id := range c.ids {
		in := c.insts[id]
		ok, a := c.holds(in, account)
		if !ok {
			continue
		}
		da, isD := a.(e2wtypes.DistributedAccount)
		if !isD {
			out = append(out, acctInfo{id: id, composite: a.PublicKey().Marshal(), acct: a})
			continue
		}
		ai := acctInfo{id: id, composite: da.CompositePublicKey().Marshal(), threshold: da.SigningThreshold(), acct: a}
		if vp, ok := a.(e2wtypes.AccountVerificationVectorProvider); ok {
			for _, v := range vp.VerificationVector() {
				ai.vvec = append(ai.vvec, v.Marshal())
			}
		}
		ai.parts = sortedIDs(da.Participants())
		for _, pid := range ai.parts {
			ai.partEps += fmt.Sprintf("%d=%s;", pid, da.Participants()[pid])
		}
		out = append(out, ai)
	}
	return out
}

func vvecHash(v [][]byte) string {
	h := sha256.New()
	for _, x := range v {
		h.Write(x)
	}
	return hex.EncodeToString(h.Sum(nil))[:16]
}

func idsStr(ids []uint64) string {
	s := make([]string, len(ids))
	for i, x := range ids {
		s[i] = strconv.FormatUint(x, 10)
	}
	return strings.Join(s, ",")
}

// relations checks what C12 names: same composite key, vector, threshold, participants everywhere;
// composite == vector[0]; each share consistent with the vector.
func (c *cluster) relations(account string) string {
	infos := c.info(account)
	if len(infos) == 0 {
		return "none"
	}
	first := infos[0]
	for _, ai := range infos {
		if !bytes.Equal(ai.composite, first.composite) {
			return "bad:composite-differs"
		}
		if vvecHash(ai.vvec) != vvecHash(first.vvec) || ai.threshold != first.threshold || idsStr(ai.parts) != idsStr(first.parts) || ai.partEps != first.partEps {
			return "bad:metadata-differs"
		}
		if len(ai.vvec) != int(ai.threshold) {
			return "bad:vector-length"
		}
		if !bytes.Equal(ai.vvec[0], ai.composite) {
			return "bad:composite-not-vector0"
		}
		vv := make([]bls.PublicKey, len(ai.vvec))
		for i := range ai.vvec {
			if err := vv[i].Deserialize(ai.vvec[i]); err != nil {
				return "bad:vector-entry"
			}
		}
		var want bls.PublicKey
		if err := want.Set(vv, blsID(ai.id)); err != nil {
			return "bad:vector-eval"
		}
		if !bytes.Equal(want.Serialize(), ai.acct.PublicKey().Marshal()) {
			return "bad:share-inconsistent"
		}
	}
	return fmt.Sprintf("ok holders=%d t=%d parts=%s composite=%x", len(infos), first.threshold, idsStr(first.parts), first.composite)
}

func blsID(id uint64) *bls.ID {
	var res bls.ID
	buf := make([]byte, 8)
	for i := 0; i < 8; i++ {
		buf[i] = byte(id >> (8 * i))
	}
	if err := res.SetLittleEndian(buf); err != nil {
		panic(err)
	}
	return &res
}

func subsets(n, k int) [][]int {
	var out [][]int
	var rec func(start int, cur []int)
	rec = func(start int, cur []int) {
		if len(cur) == k {
			out = append(out, append([]int{}, cur...))
			return
		}
		for i := start; i < n; i++ {
			rec(i+1, append(cur, i))
		}
	}
	rec(0, nil)
	return out
}

func (c *cluster) unlockedSigner(ai acctInfo) (e2wtypes.AccountSigner, error) {
	ctx := context.Background()
	if l, ok := ai.acct.(e2wtypes.AccountLocker); ok {
		if un, _ := l.IsUnlocked(ctx); !un {
			if err := l.Unlock(ctx, []byte("pass")); err != nil {
				return nil, err
			}
		}
	}
	return ai.acct.(e2wtypes.AccountSigner), nil
}

// recoverCheck: every t-subset of real partial signatures recovers a signature valid under the
// composite key; every (t-1)-subset does not.
func (c *cluster) recoverCheck(account string) string {
	infos := c.info(account)
	if len(infos) == 0 {
		return "none"
	}
	t := int(infos[0].threshold)
	msg := sha256.Sum256([]byte("recover-check:" + account))
	sigs := make([]bls.Sign, len(infos))
	ids := make([]bls.ID, len(infos))
	for i, ai := range infos {
		sg, err := c.unlockedSigner(ai)
		if err != nil {
			return "bad:unlock"
		}
		s, err := sg.Sign(context.Background(), msg[:])
		if err != nil {
			return "bad:sign"
		}
		if err := sigs[i].Deserialize(s.Marshal()); err != nil {
			return "bad:sig"
		}
		ids[i] = *blsID(ai.id)
	}
	comp, err := e2types.BLSPublicKeyFromBytes(infos[0].composite)
	if err != nil {
		return "bad:composite"
	}
	check := func(idx []int) bool {
		ss := make([]bls.Sign, len(idx))
		ii := make([]bls.ID, len(idx))
		for j, x := range idx {
			ss[j], ii[j] = sigs[x], ids[x]
		}
		var rec bls.Sign
		if err := rec.Recover(ss, ii); err != nil {
			return false
		}
		sig, err := e2types.BLSSignatureFromBytes(rec.Serialize())
		if err != nil {
			return false
		}
		return sig.Verify(msg[:], comp)
	}
	good := 0
	for _, sub := range subsets(len(infos), t) {
		if !check(sub) {
			return fmt.Sprintf("bad:subset-of-t-fails:%v", sub)
		}
		good++
	}
	if t > 1 {
		for _, sub := range subsets(len(infos), t-1) {
			if check(sub) {
				return fmt.Sprintf("bad:fewer-than-t-recover:%v", sub)
			}
		}
	}
	return fmt.Sprintf("ok subsets=%d", good)
}

// shares prints id:privatesharehex for every holder (for the Lean driver's Lagrange recovery).
func (c *cluster) shares(account string) string {
	var parts []string
	for _, ai := range c.info(account) {
		if _, err := c.unlockedSigner(ai); err != nil {
			return "bad:unlock"
		}
		pk, ok := ai.acct.(e2wtypes.AccountPrivateKeyProvider)
		if !ok {
			return "bad:noprivkey"
		}
		sk, err := pk.PrivateKey(context.Background())
		if err != nil {
			return "bad:privkey"
		}
		parts = append(parts, fmt.Sprintf("%d:%x", ai.id, sk.Marshal()))
	}
	return strings.Join(parts, " ")
}

// use: the new account is immediately usable on each holder, without restart: generic sign by name
// and by key through the signer, and listed by the lister.
func (c *cluster) use(account string) string {
	ctx := context.Background()
	dom := make([]byte, 32)
	dom[0] = 2
	data := bytes.Repeat([]byte{0x5a}, 32)
	cr := &checker.Credentials{Client: "client1", RequestID: "r"}
	for _, ai := range c.info(account) {
		in := c.insts[ai.id]
		r1, s1 := in.signer.SignGeneric(ctx, cr, account, nil, &rules.SignData{Domain: dom, Data: data})
		r2, s2 := in.signer.SignGeneric(ctx, cr, "", ai.acct.PublicKey().Marshal(), &rules.SignData{Domain: dom, Data: data})
		if r1 != core.ResultSucceeded || r2 != core.ResultSucceeded || !bytes.Equal(s1, s2) {
			return fmt.Sprintf("bad:sign@%d:%v:%v", ai.id, r1, r2)
		}
		wn, an, _ := e2wallet.WalletAndAccountNames(account)
		res, accts := in.lister.ListAccounts(ctx, cr, []string{wn})
		found := false
		for _, a := range accts {
			if a.Name() == an {
				found = true
			}
		}
		if res != core.ResultSucceeded || !found {
			return fmt.Sprintf("bad:list@%d", ai.id)
		}
	}
	return "ok"
}

func errClass(err error) string {
	if err == nil {
		return "ok"
	}
	s := err.Error()
	switch {
	case strings.Contains(s, "in progress") && !strings.Contains(s, "not in progress"):
		return "E:inprogress"
	case strings.Contains(s, "not in progress"), strings.Contains(s, "not found"):
		return "E:notinprogress"
	case strings.Contains(s, "unknown sender"):
		return "E:unknownsender"
	}
	return "E:other"
}

func parseIDs(s string) []uint64 {
	var out []uint64
	if s == "-" || s == "" {
		return out
	}
	for _, x := range strings.Split(s, ",") {
		v, _ := strconv.ParseUint(x, 10, 64)
		out = append(out, v)
	}
	return out
}

func (c *cluster) endpoints(ids []uint64) []*pb.Endpoint {
	var out []*pb.Endpoint
	for _, id := range ids {
		nm := "unknown"
		var port uint64 = 1
		if v, ok := c.peerMap[id]; ok {
			p := strings.Split(v, ":")
			nm = p[0]
			port, _ = strconv.ParseUint(p[1], 10, 32)
		}
		out = append(out, &pb.Endpoint{Id: id, Name: nm, Port: uint32(port)})
	}
	return out
}

func dkgEngine(workdir string) {
	zerolog.SetGlobalLevel(zerolog.Disabled)
	sc := bufio.NewScanner(os.Stdin)
	sc.Buffer(make([]byte, 1<<20), 1<<26)
	out := bufio.NewWriter(os.Stdout)
	defer out.Flush()
	var c *cluster
	n := 0
	for sc.Scan() {
		line := strings.TrimSpace(sc.Text())
		if line == "" || strings.HasPrefix(line, "#") {
			continue
		}
		f := strings.Fields(line)
		res := ""
		switch f[0] {
		case "reset":
			ctxDeadlineMs = 0
			if c != nil {
				c.close()
				os.RemoveAll(c.dir)
				c = nil
			}
			continue
		case "cluster":
			if c != nil {
				c.close()
				os.RemoveAll(c.dir)
			}
			n++
			ms, _ := strconv.Atoi(f[2])
			d := fmt.Sprintf("%s/c%d", workdir, n)
			os.MkdirAll(d, 0o755)
			peerViews = len(f) > 3 && f[3] == "views"
			c = newCluster(d, parseIDs(f[1]), time.Duration(ms)*time.Millisecond, len(f) > 3 && f[3] == "grpc")
			res = "ok"
		case "gen":
			// gen <initiator> <client> <account> <t> <n> <fault>
			in := c.insts[u64(f[1])]
			c.fault = nil
			c.log = nil
			if f[6] == "nopass" {
				c.fault = &dkgFault{kind: "nopass"}
			} else if f[6] != "-" {
				p := strings.Split(f[6], ":")
				c.fault = &dkgFault{kind: p[0], msg: p[1], from: u64(p[2]), to: u64(p[3])}
				if len(p) > 4 {
					c.fault.arg = p[4]
				}
			}
			if c.fault != nil && c.fault.kind == "storeread" {
				// not a message fault: the wallet store of instance <to> fails its first read after the account has been written
				if x := c.insts[c.fault.to]; x != nil {
					x.fstore.armed.Store(true)
				}
				c.fault = nil
			}
			genPass := []byte("pass")
			if c.fault != nil && c.fault.kind == "nopass" {
				// the client leaves the passphrase out and relies on the instances' generation passphrase
				genPass = nil
				c.fault = nil
			}
			// through the real gRPC account-manager handler (services/api/grpc/handlers/accountmanager.Generate), with the request
			// context the interceptors would have built: what the handler does to the request before the process sees it is covered
			pub, ids, err := genViaHandler(in, unhexStr(f[2]), unhexStr(f[3]), genPass, uint32(u64(f[4])), uint32(u64(f[5])))
			c.fault = nil
			if err != nil {
				res = "err"
			} else {
				sort.Slice(ids, func(i, j int) bool { return ids[i] < ids[j] })
				res = fmt.Sprintf("ok %x %s", pub, idsStr(ids))
			}
		case "gens":
			// gens <ini1> <client> <account> <t1> <n1> <hold ms> <ini2> <t2> <n2>: generation X through ini1 with ALL its commit
			// requests held back for <hold ms>; after a third of that, generation Y for the same name through ini2
			in1, in2 := c.insts[u64(f[1])], c.insts[u64(f[7])]
			c.log = nil
			c.fault = &dkgFault{kind: "delayall", msg: "commit", from: u64(f[1]), arg: f[6]}
			creds := &checker.Credentials{Client: unhexStr(f[2]), RequestID: "r"}
			r1 := make(chan error, 1)
			go func() {
				_, _, err := in1.process.OnGenerate(context.Background(), creds, unhexStr(f[3]), []byte("pass"), uint32(u64(f[4])), uint32(u64(f[5])))
				r1 <- err
			}()
			ms, _ := strconv.Atoi(f[6])
			time.Sleep(time.Duration(ms/3) * time.Millisecond)
			_, _, err2 := in2.process.OnGenerate(context.Background(), creds, unhexStr(f[3]), []byte("pass"), uint32(u64(f[8])), uint32(u64(f[9])))
			err1 := <-r1
			c.fault = nil
			st := func(e error) string {
				if e != nil {
					return "err"
				}
				return "ok"
			}
			res = st(err1) + " " + st(err2)
		case "gensp":
			// gensp <client> <t> <n> <ini:account> <ini:account> …: several generations for DIFFERENT names started at the same
			// moment through the given initiators (same wallet, same participants); result: ok/err per generation
			creds := &checker.Credentials{Client: unhexStr(f[1]), RequestID: "r"}
			c.log = nil
			outs := make([]string, len(f)-4)
			var wg sync.WaitGroup
			start := make(chan struct{})
			for gi, spec := range f[4:] {
				p := strings.SplitN(spec, ":", 2)
				wg.Add(1)
				go func() {
					defer wg.Done()
					<-start
					_, _, err := c.insts[u64(p[0])].process.OnGenerate(context.Background(), creds, unhexStr(p[1]), []byte("pass"), uint32(u64(f[2])), uint32(u64(f[3])))
					if err != nil {
						outs[gi] = "err"
					} else {
						outs[gi] = "ok"
					}
				}()
			}
			close(start)
			wg.Wait()
			res = strings.Join(outs, " ")
		case "holds":
			var parts []string
			for _, id := range c.ids {
				ok, _ := c.holds(c.insts[id], unhexStr(f[1]))
				_, _, ferr := c.insts[id].fetcher.FetchAccount(context.Background(), unhexStr(f[1]))
				parts = append(parts, fmt.Sprintf("%d:%v:%v", id, ok, ferr == nil))
			}
			res = strings.Join(parts, " ")
		case "relations":
			res = c.relations(unhexStr(f[1]))
		case "recover":
			res = c.recoverCheck(unhexStr(f[1]))
		case "shares":
			res = c.shares(unhexStr(f[1]))
		case "pubof":
			sk, err := e2types.BLSPrivateKeyFromBytes(unhex(f[1]))
			if err != nil {
				res = "bad"
			} else {
				res = hex.EncodeToString(sk.PublicKey().Marshal())
			}
		case "use":
			res = c.use(unhexStr(f[1]))
		case "iatt":
			// iatt <inst> <account hexstr> <att fields>: attestation through that instance's own signer + rules store
			in := c.insts[u64(f[1])]
			r, sig := in.signer.SignBeaconAttestation(context.Background(), &checker.Credentials{Client: "client1", RequestID: "r"},
				unhexStr(f[2]), nil, parseAtt(strings.Split(f[3], ",")))
			res = posStr(r, sig)
		case "iattb":
			// iattb <inst> <account> <att>: the attestation while that instance's slashing-protection store refuses writes
			// (badger's write-refusal state, reads still served)
			in := c.insts[u64(f[1])]
			flag := blockWritesFlag(in.rules)
			if flag == nil {
				res = "bad:no-flag"
				break
			}
			atomic.StoreInt32(flag, 1)
			r, sig := in.signer.SignBeaconAttestation(context.Background(), &checker.Credentials{Client: "client1", RequestID: "r"},
				unhexStr(f[2]), nil, parseAtt(strings.Split(f[3], ",")))
			atomic.StoreInt32(flag, 0)
			res = posStr(r, sig)
		case "iatts":
			// the same through the batch endpoint (a batch of one)
			in := c.insts[u64(f[1])]
			rs, sigs := in.signer.SignBeaconAttestations(context.Background(), &checker.Credentials{Client: "client1", RequestID: "r"},
				[]string{unhexStr(f[2])}, [][]byte{nil}, []*rules.SignBeaconAttestationData{parseAtt(strings.Split(f[3], ","))})
			if len(rs) == 1 && len(sigs) == 1 {
				res = posStr(rs[0], sigs[0])
			} else {
				res = fmt.Sprintf("shape:%d:%d", len(rs), len(sigs))
			}
		case "iattx":
			// iattx <inst> <account> <att> <deadline ms> <stall ms>: an attestation whose state write stalls (slow disk) for
			// <stall ms> while the client's deadline is <deadline ms>
			in := c.insts[u64(f[1])]
			dl, _ := strconv.Atoi(f[4])
			stall, _ := strconv.Atoi(f[5])
			var first int32
			verifhook.SetHandler(func(name string, _ []byte) error {
				if (name == "store.enter" || name == "batchstore.enter") && atomic.CompareAndSwapInt32(&first, 0, 1) {
					time.Sleep(time.Duration(stall) * time.Millisecond) // only the first write stalls; later ones pass at once
				}
				return nil
			})
			ctx, cancel := context.WithTimeout(context.Background(), time.Duration(dl)*time.Millisecond)
			r, sig := in.signer.SignBeaconAttestation(ctx, &checker.Credentials{Client: "client1", RequestID: "r"},
				unhexStr(f[2]), nil, parseAtt(strings.Split(f[3], ",")))
			cancel()
			res = posStr(r, sig)
			// leave the hook in place until the stalled write has had time to land, then remove it
			go func() {
				time.Sleep(time.Duration(stall+50) * time.Millisecond)
				verifhook.SetHandler(nil)
			}()
		case "iatts2":
			// iatts2 <inst> <account> <att> <account2> <att2>: a batch of two (the second entry belongs to another
			// account); result "<state of the second>/<state[:signature] of the first>"
			in := c.insts[u64(f[1])]
			rs, sigs := in.signer.SignBeaconAttestations(context.Background(), &checker.Credentials{Client: "client1", RequestID: "r"},
				[]string{unhexStr(f[2]), unhexStr(f[4])}, [][]byte{nil, nil},
				[]*rules.SignBeaconAttestationData{parseAtt(strings.Split(f[3], ",")), parseAtt(strings.Split(f[5], ","))})
			if len(rs) == 2 && len(sigs) == 2 {
				res = coreStr(rs[1]) + "/" + posStr(rs[0], sigs[0])
			} else {
				res = fmt.Sprintf("shape:%d:%d", len(rs), len(sigs))
			}
		case "iattsu":
			// iattsu <inst> <accountX> <attX> <account> <att>: a batch of two whose FIRST entry addresses accountX (typically one
			// that does not exist) with attX; result "<state of the first>/<state[:signature] of the second>"
			in := c.insts[u64(f[1])]
			rs, sigs := in.signer.SignBeaconAttestations(context.Background(), &checker.Credentials{Client: "client1", RequestID: "r"},
				[]string{unhexStr(f[2]), unhexStr(f[4])}, [][]byte{nil, nil},
				[]*rules.SignBeaconAttestationData{parseAtt(strings.Split(f[3], ",")), parseAtt(strings.Split(f[5], ","))})
			if len(rs) == 2 && len(sigs) == 2 {
				res = coreStr(rs[0]) + "/" + posStr(rs[1], sigs[1])
			} else if len(rs) == 2 && len(sigs) == 0 { // a batch refused before the rules returns no signature list at all
				res = coreStr(rs[0]) + "/" + coreStr(rs[1])
			} else {
				res = fmt.Sprintf("shape:%d:%d", len(rs), len(sigs))
			}
		case "sharepubs":
			// sharepubs <account>: the public key of each instance's share ("id:pub id:pub …")
			var parts []string
			for _, id := range c.ids {
				_, a, err := c.insts[id].fetcher.FetchAccount(context.Background(), unhexStr(f[1]))
				if err == nil {
					parts = append(parts, fmt.Sprintf("%d:%x", id, a.PublicKey().Marshal()))
				}
			}
			res = strings.Join(parts, " ")
			if res == "" {
				res = "-"
			}
		case "iprop":
			in := c.insts[u64(f[1])]
			r, sig := in.signer.SignBeaconProposal(context.Background(), &checker.Credentials{Client: "client1", RequestID: "r"},
				unhexStr(f[2]), nil, parseProp(strings.Split(f[3], ",")))
			res = posStr(r, sig)
		case "combine":
			// combine <account> <composite pub> <signing root> id:sig,id:sig… : do these partial signatures recover a
			// signature valid under the composite key?
			res = combine(unhex(f[2]), unhex(f[3]), f[4])
		case "msglog":
			res = strings.Join(c.log, " ")
			if res == "" {
				res = "-"
			}
		case "sleep":
			ms, _ := strconv.Atoi(f[1])
			time.Sleep(time.Duration(ms) * time.Millisecond)
			res = "ok"
		case "ctxdl":
			ctxDeadlineMs, _ = strconv.Atoi(f[1])
			res = "ok"
		// handler-level messages with an arbitrary authenticated caller name:
		//   h<msg> <inst> <caller hexstr> <account hexstr> [t parts]
		case "hprepare":
			in := c.insts[u64(f[1])]
			req := &pb.PrepareRequest{Account: unhexStr(f[3]), Threshold: uint32(u64(f[4])), Participants: c.endpoints(parseIDs(f[5])), Passphrase: []byte("pass")}
			_, err := in.handler.Prepare(callerCtx(hs(f[2])), wire(req, &pb.PrepareRequest{}))
			res = errClassH(err)
		case "cprepare":
			// cprepare <inst> <caller> <account> <k> <t> <parts>: k Prepare messages for one name issued at the same moment;
			// result: how many were accepted
			in := c.insts[u64(f[1])]
			k, _ := strconv.Atoi(f[4])
			start := make(chan struct{})
			var wg sync.WaitGroup
			var okN int64
			for g := 0; g < k; g++ {
				wg.Add(1)
				go func() {
					defer wg.Done()
					req := &pb.PrepareRequest{Account: unhexStr(f[3]), Threshold: uint32(u64(f[5])), Participants: c.endpoints(parseIDs(f[6])), Passphrase: []byte("pass")}
					<-start
					if _, err := in.handler.Prepare(callerCtx(hs(f[2])), wire(req, &pb.PrepareRequest{})); err == nil {
						atomic.AddInt64(&okN, 1)
					}
				}()
			}
			close(start)
			wg.Wait()
			res = fmt.Sprintf("ok=%d", okN)
		case "hprepares":
			// hprepares <inst> <caller> <account> <t> <ids> <a> <b>: a Prepare whose participant list pairs the endpoint
			// (name, port) of a with the id of b and vice versa
			in := c.insts[u64(f[1])]
			eps := c.endpoints(parseIDs(f[5]))
			a, b := u64(f[6]), u64(f[7])
			var ea, eb *pb.Endpoint
			for _, e := range eps {
				if e.Id == a {
					ea = e
				}
				if e.Id == b {
					eb = e
				}
			}
			if ea != nil && eb != nil {
				ea.Name, eb.Name = eb.Name, ea.Name
				ea.Port, eb.Port = eb.Port, ea.Port
			}
			req := &pb.PrepareRequest{Account: unhexStr(f[3]), Threshold: uint32(u64(f[4])), Participants: eps, Passphrase: []byte("pass")}
			_, err := in.handler.Prepare(callerCtx(hs(f[2])), wire(req, &pb.PrepareRequest{}))
			res = errClassH(err)
		case "hexecute":
			in := c.insts[u64(f[1])]
			_, err := in.handler.Execute(callerCtx(hs(f[2])), wire(&pb.ExecuteRequest{Account: unhexStr(f[3])}, &pb.ExecuteRequest{}))
			res = errClassH(err)
		case "hexecute2":
			// hexecute2 <inst> <account> <caller A> <caller B> <ms>: Execute from caller A whose contribution exchanges each take
			// <ms> (network latency); a third of that later, while A's request is in flight, the same Execute from caller B;
			// result "<class of A> <class of B>"
			in := c.insts[u64(f[1])]
			ms, _ := strconv.Atoi(f[5])
			c.fault = &dkgFault{kind: "delayall", msg: "contribute", from: u64(f[1]), arg: f[5]}
			ra := make(chan error, 1)
			go func() {
				_, err := in.handler.Execute(callerCtx(hs(f[3])), wire(&pb.ExecuteRequest{Account: unhexStr(f[2])}, &pb.ExecuteRequest{}))
				ra <- err
			}()
			time.Sleep(time.Duration(ms/3) * time.Millisecond)
			_, errB := in.handler.Execute(callerCtx(hs(f[4])), wire(&pb.ExecuteRequest{Account: unhexStr(f[2])}, &pb.ExecuteRequest{}))
			errA := <-ra
			c.fault = nil
			res = errClassH(errA) + " " + errClassH(errB)
		case "hcommit":
			in := c.insts[u64(f[1])]
			_, err := in.handler.Commit(callerCtx(hs(f[2])), wire(&pb.CommitRequest{Account: unhexStr(f[3]), ConfirmationData: bytes.Repeat([]byte{1}, 32)}, &pb.CommitRequest{}))
			res = errClassH(err)
		case "habort":
			in := c.insts[u64(f[1])]
			_, err := in.handler.Abort(callerCtx(hs(f[2])), wire(&pb.AbortRequest{Account: unhexStr(f[3])}, &pb.AbortRequest{}))
			res = errClassH(err)
		case "hcontribute":
			// a syntactically valid but otherwise arbitrary contribution
			in := c.insts[u64(f[1])]
			var sk, other, other2 bls.SecretKey
			sk.SetByCSPRNG()
			other.SetByCSPRNG()
			other2.SetByCSPRNG()
			// a share that does not match its (two-entry) vector
			req := &pb.ContributeRequest{Account: unhexStr(f[3]), Secret: sk.Serialize(),
				VerificationVector: [][]byte{other.GetPublicKey().Serialize(), other2.GetPublicKey().Serialize()}}
			_, err := in.handler.Contribute(callerCtx(hs(f[2])), wire(req, &pb.ContributeRequest{}))
			res = errClassH(err)
		// peerscfg <hex endpoint>,<hex endpoint>,…: is this peer table (ids 1, 2, … in the order given) accepted by the peers service?
		case "peerscfg":
			pm := map[uint64]string{}
			for i, h := range strings.Split(f[1], ",") {
				pm[uint64(i+1)] = unhexStr(h)
			}
			if _, err := staticpeers.New(context.Background(), staticpeers.WithPeers(pm)); err != nil {
				res = "E:refused"
			} else {
				res = "ok"
			}
		// hcontributev <inst> <asker id> <account>: a VALID contribution (computed by a scratch process of the asker for this
		// account, threshold n/2+1) delivered to the instance's receiver handler under the asker's name
		case "hcontributev":
			switch r := c.shareOwnerHold(u64(f[1]), u64(f[2]), unhexStr(f[3]), nil); {
			case r == "E:refused", strings.HasPrefix(r, "bad:"), strings.HasPrefix(r, "skip:"):
				res = r
			default:
				res = "ok"
			}
		// share ownership: what does `owner` hand to caller `asker` in reply to a valid contribution?
		case "shareowner":
			res = c.shareOwner(u64(f[1]), u64(f[2]), unhexStr(f[3]))
		case "ilist":
			// ilist <inst> <client> <path>: the listing a client gets from that instance (names, sorted)
			in := c.insts[u64(f[1])]
			r, accts := in.lister.ListAccounts(context.Background(), &checker.Credentials{Client: unhexStr(f[2]), RequestID: "r"}, []string{unhexStr(f[3])})
			var names []string
			for _, a := range accts {
				if wp, ok := a.(e2wtypes.AccountWalletProvider); ok {
					names = append(names, wp.Wallet().Name()+"/"+a.Name())
				}
			}
			sort.Strings(names)
			res = coreStr(r) + " " + strings.Join(names, ",")
		case "shareowners":
			res = c.shareOwners(u64(f[1]), unhexStr(f[2]))
		case "sendowners":
			// sendowners <asker> <account>: every contribution the asker's Execute SENDS while each send fails in transit
			res = c.sendOwners(u64(f[1]), unhexStr(f[2]))
		default:
			res = "bad-op " + line
		}
		fmt.Fprintln(out, res)
		out.Flush()
	}
	if c != nil {
		c.close()
		os.RemoveAll(c.dir)
	}
}

func combine(pub, root []byte, parts string) string {
	var sigs []bls.Sign
	var ids []bls.ID
	for _, p := range strings.Split(parts, ",") {
		kv := strings.Split(p, ":")
		var sg bls.Sign
		if err := sg.Deserialize(unhex(kv[1])); err != nil {
			return "bad:sig"
		}
		sigs = append(sigs, sg)
		ids = append(ids, *blsID(u64(kv[0])))
	}
	var rec bls.Sign
	if err := rec.Recover(sigs, ids); err != nil {
		return "no"
	}
	comp, err := e2types.BLSPublicKeyFromBytes(pub)
	if err != nil {
		return "bad:pub"
	}
	sig, err := e2types.BLSSignatureFromBytes(rec.Serialize())
	if err != nil {
		return "no"
	}
	if sig.Verify(root, comp) {
		return "valid"
	}
	return "no"
}

func errClassH(err error) string {
	if err == nil {
		return "ok"
	}
	if strings.Contains(err.Error(), "unknown sender") {
		return "E:unknownsender"
	}
	return "E:refused"
}

// shareOwner: with a generation prepared on `owner`, caller `asker` (a peer and participant) sends a
// valid contribution; the reply's share must verify against the owner's vector at the ASKER's id and
// at no other participant's id.
func (c *cluster) shareOwner(owner, asker uint64, account string) string {
	return c.shareOwnerHold(owner, asker, account, nil)
}

// shareOwners: every lower participant sends its contribution to `owner`, one call after the other; the replies are
// examined only after ALL calls have been handled.  Each must carry the share computed for its own caller.
func (c *cluster) shareOwners(owner uint64, account string) string {
	var askers []uint64
	for _, id := range c.ids {
		if id < owner {
			askers = append(askers, id)
		}
	}
	held := make([]*pb.ContributeResponse, len(askers))
	for i, a := range askers {
		if r := c.shareOwnerHold(owner, a, account, &held[i]); r != "held" {
			return fmt.Sprintf("asker=%d:%s", a, r)
		}
	}
	for i, a := range askers {
		if got := c.replyOwners(held[i]); got != fmt.Sprintf("share-for=%d", a) {
			return fmt.Sprintf("MISMATCH asker=%d %s", a, got)
		}
	}
	return fmt.Sprintf("ok=%d", len(askers))
}

func (c *cluster) shareOwnerHold(owner, asker uint64, account string, hold **pb.ContributeResponse) string {
	ow, as := c.insts[owner], c.insts[asker]
	if ow == nil || as == nil {
		return "bad:inst"
	}
	// the asker must hold a generation too, to have a valid contribution for the owner: obtain it by
	// letting the asker's own process compute one through a capturing sender
	capt := &captureSender{}
	enc := keystorev4.New()
	peersSvc, _ := staticpeers.New(context.Background(), staticpeers.WithPeers(c.peerMap))
	chk, _ := staticchecker.New(context.Background(), staticchecker.WithPermissions(map[string][]*checker.Permissions{"c": {{Path: "DW", Operations: []string{"All"}}}}))
	tmp, err := standardprocess.New(context.Background(), standardprocess.WithChecker(chk), standardprocess.WithUnlocker(as.unlocker),
		standardprocess.WithSender(capt), standardprocess.WithFetcher(as.fetcher), standardprocess.WithEncryptor(enc), standardprocess.WithPeers(peersSvc),
		standardprocess.WithID(asker), standardprocess.WithStores([]e2wtypes.Store{as.store}), standardprocess.WithGenerationPassphrase([]byte("pass")))
	if err != nil {
		return "bad:tmp"
	}
	// only the owner as counterpart, so that the (randomly ordered) execute loop reaches it first
	var parts []*core.Endpoint
	for _, ep := range c.endpoints([]uint64{asker, owner}) {
		parts = append(parts, &core.Endpoint{ID: ep.Id, Name: ep.Name, Port: ep.Port})
	}
	t := uint32(len(c.ids)/2 + 1)
	if err := tmp.OnPrepare(context.Background(), asker, account, []byte("pass"), t, parts); err != nil {
		return "bad:tmp-prepare"
	}
	// executing on tmp sends contributions for ids > asker through the capturing sender
	_ = tmp.OnExecute(context.Background(), asker, account)
	cc, ok := capt.sent[owner]
	if !ok {
		return "skip:asker-not-lower"
	}
	req := &pb.ContributeRequest{Account: account, Secret: cc.secret.Serialize()}
	for i := range cc.vvec {
		req.VerificationVector = append(req.VerificationVector, cc.vvec[i].Serialize())
	}
	res, err := ow.handler.Contribute(callerCtx(as.name), wire(req, &pb.ContributeRequest{}))
	if err != nil {
		return "E:refused"
	}
	if hold != nil {
		// the caller looks at the reply later (as the gRPC server does: it encodes the message after the handler and the
		// interceptors have returned, while other calls are being handled)
		*hold = res
		return "held"
	}
	return c.replyOwners(res)
}

// replyOwners: for which participant ids does the share in a contribution reply verify against the reply's vector?
func (c *cluster) replyOwners(res *pb.ContributeResponse) string {
	var share bls.SecretKey
	if err := share.Deserialize(res.GetSecret()); err != nil {
		return "bad:share"
	}
	vv := make([]bls.PublicKey, len(res.GetVerificationVector()))
	for i, k := range res.GetVerificationVector() {
		vv[i].Deserialize(k)
	}
	var owners []string
	for _, id := range c.ids {
		var want bls.PublicKey
		if err := want.Set(vv, blsID(id)); err != nil {
			continue
		}
		if share.GetPublicKey().IsEqual(&want) {
			owners = append(owners, strconv.FormatUint(id, 10))
		}
	}
	return "share-for=" + strings.Join(owners, ",")
}

type capturedContribution struct {
	secret bls.SecretKey
	vvec   []bls.PublicKey
}

type captureSender struct {
	sent map[uint64]capturedContribution
}

func (s *captureSender) Prepare(context.Context, *core.Endpoint, string, []byte, uint32, []*core.Endpoint) error {
	return nil
}
func (s *captureSender) Execute(context.Context, *core.Endpoint, string) error { return nil }
func (s *captureSender) Commit(context.Context, *core.Endpoint, string, []byte) ([]byte, []byte, error) {
	return nil, nil, errors.New("capture only")
}
func (s *captureSender) Abort(context.Context, *core.Endpoint, string) error { return nil }
func (s *captureSender) SendContribution(_ context.Context, r *core.Endpoint, _ string, secret bls.SecretKey, vVec []bls.PublicKey) (bls.SecretKey, []bls.PublicKey, error) {
	if s.sent == nil {
		s.sent = map[uint64]capturedContribution{}
	}
	s.sent[r.ID] = capturedContribution{secret: secret, vvec: append([]bls.PublicKey{}, vVec...)}
	return bls.SecretKey{}, nil, errors.New("capture only")
}


// nullAccountManager satisfies the handler's constructor; Generate does not use the account manager.
type nullAccountManager struct{ accountmanager.Service }

// genViaHandler sends a Generate request through the real gRPC handler of instance in, as client `client`.
func genViaHandler(in *dkgInst, client, account string, pass []byte, threshold, participants uint32) ([]byte, []uint64, error) {
	h, err := amhandler.New(context.Background(), amhandler.WithAccountManager(nullAccountManager{}), amhandler.WithProcess(in.process))
	if err != nil {
		return nil, nil, err
	}
	ctx := context.WithValue(context.Background(), &interceptors.ClientName{}, client)
	ctx = context.WithValue(ctx, &interceptors.RequestID{}, "r")
	resp, err := h.Generate(ctx, &pb.GenerateRequest{Account: account, Passphrase: pass, SigningThreshold: threshold, Participants: participants})
	if err != nil {
		return nil, nil, err
	}
	if resp.GetState() != pb.ResponseState_SUCCEEDED {
		return nil, nil, errors.New("generate: " + resp.GetState().String())
	}
	var ids []uint64
	for _, p := range resp.GetParticipants() {
		ids = append(ids, p.GetId())
	}
	return resp.GetPublicKey(), ids, nil
}


// listSender records EVERY contribution handed to the transport (recipient, share, vector) and fails each send in transit.
type listSender struct {
	captureSender
	all []struct {
		to uint64
		cc capturedContribution
	}
}

func (s *listSender) SendContribution(_ context.Context, r *core.Endpoint, _ string, secret bls.SecretKey, vVec []bls.PublicKey) (bls.SecretKey, []bls.PublicKey, error) {
	s.all = append(s.all, struct {
		to uint64
		cc capturedContribution
	}{r.ID, capturedContribution{secret: secret, vvec: append([]bls.PublicKey{}, vVec...)}})
	return bls.SecretKey{}, nil, errors.New("injected: contribution lost in transit")
}

// sendOwners: a process with the asker's id prepares a generation with ALL instances as participants and executes it through a
// transport on which every send fails; each share handed to the transport must be the share of the endpoint it was addressed to
// (it verifies against the sent vector at the recipient's id and at no other participant's id) — whatever the process does
// about failed sends (give up, retry, reorder).
func (c *cluster) sendOwners(asker uint64, account string) string {
	as := c.insts[asker]
	if as == nil {
		return "bad:inst"
	}
	ls := &listSender{}
	enc := keystorev4.New()
	peersSvc, _ := staticpeers.New(context.Background(), staticpeers.WithPeers(c.peerMap))
	chk, _ := staticchecker.New(context.Background(), staticchecker.WithPermissions(map[string][]*checker.Permissions{"c": {{Path: "DW", Operations: []string{"All"}}}}))
	tmp, err := standardprocess.New(context.Background(), standardprocess.WithChecker(chk), standardprocess.WithUnlocker(as.unlocker),
		standardprocess.WithSender(ls), standardprocess.WithFetcher(as.fetcher), standardprocess.WithEncryptor(enc), standardprocess.WithPeers(peersSvc),
		standardprocess.WithID(asker), standardprocess.WithStores([]e2wtypes.Store{as.store}), standardprocess.WithGenerationPassphrase([]byte("pass")))
	if err != nil {
		return "bad:tmp"
	}
	var parts []*core.Endpoint
	for _, ep := range c.endpoints(c.ids) {
		parts = append(parts, &core.Endpoint{ID: ep.Id, Name: ep.Name, Port: ep.Port})
	}
	t := uint32(len(c.ids)/2 + 1)
	if err := tmp.OnPrepare(context.Background(), asker, account, []byte("pass"), t, parts); err != nil {
		return "bad:tmp-prepare"
	}
	_ = tmp.OnExecute(context.Background(), asker, account)
	for _, s := range ls.all {
		var owners []string
		for _, id := range c.ids {
			var want bls.PublicKey
			if err := want.Set(s.cc.vvec, blsID(id)); err != nil {
				continue
			}
			if s.cc.secret.GetPublicKey().IsEqual(&want) {
				owners = append(owners, strconv.FormatUint(id, 10))
			}
		}
		if got := strings.Join(owners, ","); got != strconv.FormatUint(s.to, 10) {
			return fmt.Sprintf("MISMATCH sent-to=%d share-for=%s", s.to, got)
		}
	}
	return fmt.Sprintf("ok=%d", len(ls.all))
}
