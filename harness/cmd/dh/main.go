// dh — the implementation side of the correspondence check: drives real dirk services (built from
// /repo's working tree with -tags verif) with the operations of the shared line protocol.
package main

import (
	"crypto/sha256"
	"encoding/hex"
	"fmt"
	"os"
)

func hashPair(a, b []byte) []byte {
	h := sha256.New()
	h.Write(a)
	h.Write(b)
	return h.Sum(nil)
}

func main() {
	if len(os.Args) < 2 {
		fmt.Fprintln(os.Stderr, "usage: dh <engine> [args]")
		os.Exit(2)
	}
	switch os.Args[1] {
	case "hammer":
		ms := 500
		if len(os.Args) > 2 {
			fmt.Sscanf(os.Args[2], "%d", &ms)
		}
		hammerEngine(ms)
	case "keys":
		n := 40
		if len(os.Args) > 2 {
			fmt.Sscanf(os.Args[2], "%d", &n)
		}
		for i, kp := range interopKeys() {
			if i >= n {
				break
			}
			fmt.Printf("%d %s\n", i, hex.EncodeToString(kp[1]))
		}
	case "run":
		// dh run <workdir>
		runEngine(os.Args[2])
	default:
		if !extraEngines(os.Args[1:]) {
			fmt.Fprintln(os.Stderr, "unknown engine", os.Args[1])
			os.Exit(2)
		}
	}
}
