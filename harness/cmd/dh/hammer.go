package main

import (
	"context"
	"crypto/tls"
	"crypto/x509"
	"encoding/pem"
	"fmt"
	"net"
	"sync"
	"sync/atomic"
	"time"

	"github.com/attestantio/dirk/services/api/grpc/interceptors"
	"github.com/attestantio/dirk/testing/resources"
	"google.golang.org/grpc"
	"google.golang.org/grpc/credentials"
	"google.golang.org/grpc/peer"
)

// hammerEngine calls each of the daemon's unary interceptors (the code every request of every service passes through,
// built once per server) from many goroutines at full speed, in-process, for the given time.  A panic is recovered only
// to be reported: in the daemon nothing recovers it, and the process dies.  One line per interceptor:
//
//	ok <name> <calls>   |   PANIC <name> <calls before> <message>
func hammerEngine(ms int) {
	blk, _ := pem.Decode(resources.ClientTest01Crt)
	cert, _ := x509.ParseCertificate(blk.Bytes)
	base := peer.NewContext(context.Background(), &peer.Peer{
		Addr:     &net.TCPAddr{IP: net.ParseIP("10.1.2.3"), Port: 4000},
		AuthInfo: credentials.TLSInfo{State: tls.ConnectionState{PeerCertificates: []*x509.Certificate{cert}, VerifiedChains: [][]*x509.Certificate{{cert}}}},
	})
	type ic struct {
		name string
		f    grpc.UnaryServerInterceptor
	}
	chain := []ic{{"RequestIDInterceptor", interceptors.RequestIDInterceptor()}, {"SourceIPInterceptor", interceptors.SourceIPInterceptor()},
		{"ClientInfoInterceptor", interceptors.ClientInfoInterceptor()}}
	// all three chained, as the server does
	all := func(ctx context.Context, req any, info *grpc.UnaryServerInfo, h grpc.UnaryHandler) (any, error) {
		return chain[0].f(ctx, req, info, func(c1 context.Context, r1 any) (any, error) {
			return chain[1].f(c1, r1, info, func(c2 context.Context, r2 any) (any, error) {
				return chain[2].f(c2, r2, info, h)
			})
		})
	}
	chain = append(chain, ic{"chained", all})
	info := &grpc.UnaryServerInfo{FullMethod: "/v1.Lister/ListAccounts"}
	handler := func(ctx context.Context, _ any) (any, error) {
		_ = ctx.Value(&interceptors.ClientName{})
		return nil, nil
	}
	for _, c := range chain {
		var calls int64
		var once sync.Once
		msg := ""
		until := time.Now().Add(time.Duration(ms) * time.Millisecond)
		var wg sync.WaitGroup
		for g := 0; g < 32; g++ {
			wg.Add(1)
			go func() {
				defer wg.Done()
				defer func() {
					if r := recover(); r != nil {
						once.Do(func() { msg = fmt.Sprint(r) })
					}
				}()
				for i := 0; ; i++ {
					if i%256 == 0 && (time.Now().After(until) || msg != "") {
						return
					}
					_, _ = c.f(base, nil, info, handler)
					atomic.AddInt64(&calls, 1)
				}
			}()
		}
		wg.Wait()
		if msg != "" {
			fmt.Printf("PANIC %s %d %s\n", c.name, calls, msg)
		} else {
			fmt.Printf("ok %s %d\n", c.name, calls)
		}
	}
}
