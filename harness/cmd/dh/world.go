package main

import (
	"context"
	"crypto/sha256"
	"encoding/hex"
	"encoding/json"
	"errors"
	"fmt"
	"io"
	standardaccountmanager "github.com/attestantio/dirk/services/accountmanager/standard"
	standardwalletmanager "github.com/attestantio/dirk/services/walletmanager/standard"
	"github.com/google/uuid"
	"os"
	"path/filepath"
	"sort"
	"strconv"
	"strings"
	"sync"
	"sync/atomic"
	"time"

	"github.com/attestantio/dirk/core"
	"github.com/attestantio/dirk/rules"
	standardrules "github.com/attestantio/dirk/rules/standard"
	"github.com/attestantio/dirk/services/checker"
	staticchecker "github.com/attestantio/dirk/services/checker/static"
	"github.com/attestantio/dirk/services/fetcher"
	memfetcher "github.com/attestantio/dirk/services/fetcher/mem"
	standardlister "github.com/attestantio/dirk/services/lister/standard"
	"github.com/attestantio/dirk/services/locker"
	syncmaplocker "github.com/attestantio/dirk/services/locker/syncmap"
	staticpeers "github.com/attestantio/dirk/services/peers/static"
	standardprocess "github.com/attestantio/dirk/services/process/standard"
	"github.com/attestantio/dirk/services/ruler"
	goruler "github.com/attestantio/dirk/services/ruler/golang"
	"github.com/attestantio/dirk/services/signer"
	standardsigner "github.com/attestantio/dirk/services/signer/standard"
	localunlocker "github.com/attestantio/dirk/services/unlocker/local"
	"github.com/attestantio/dirk/testing/daemon"
	"github.com/attestantio/dirk/util/verifhook"
	"github.com/herumi/bls-eth-go-binary/bls"
	"github.com/rs/zerolog"
	zlog "github.com/rs/zerolog/log"
	e2types "github.com/wealdtech/go-eth2-types/v2"
	keystorev4 "github.com/wealdtech/go-eth2-wallet-encryptor-keystorev4"
	distributed "github.com/wealdtech/go-eth2-wallet-distributed"
	nd "github.com/wealdtech/go-eth2-wallet-nd/v2"
	scratch "github.com/wealdtech/go-eth2-wallet-store-scratch"
	e2wtypes "github.com/wealdtech/go-eth2-wallet-types/v2"
)

// nullSender is the sender of a single-instance process service: there is nobody to send to.
type nullSender struct{}

func (nullSender) Prepare(context.Context, *core.Endpoint, string, []byte, uint32, []*core.Endpoint) error {
	return errors.New("no peers")
}
func (nullSender) Execute(context.Context, *core.Endpoint, string) error {
	return errors.New("no peers")
}
func (nullSender) Commit(context.Context, *core.Endpoint, string, []byte) ([]byte, []byte, error) {
	return nil, nil, errors.New("no peers")
}
func (nullSender) Abort(context.Context, *core.Endpoint, string) error { return errors.New("no peers") }
func (nullSender) SendContribution(context.Context, *core.Endpoint, string, bls.SecretKey, []bls.PublicKey) (bls.SecretKey, []bls.PublicKey, error) {
	return bls.SecretKey{}, nil, errors.New("no peers")
}

type acctCfg struct {
	wallet, name string
	pubkey       []byte
	unlockable   bool
	pass2        bool // encrypted with the unlocker's SECOND account passphrase
	// dist: "" = ordinary account; otherwise the account is a DISTRIBUTED account (its wallet a distributed wallet) imported
	// with these participants, "id=endpoint;id=endpoint" — endpoints as found in imported accounts: any text
	dist string
}

// world is one dirk instance assembled from the real services, the way testing/daemon does it.
type world struct {
	dir      string
	accts    []acctCfg
	wallets  []string
	perms    map[string][]*checker.Permissions
	adminIPs []string
	raws     [][2][]byte

	store    e2wtypes.Store
	ctx      context.Context
	cancel   context.CancelFunc
	rules    *standardrules.Service
	locker   locker.Service
	ruler    ruler.Service
	checker  checker.Service
	fetcher  fetcher.Service
	unlocker *localunlocker.Service
	signer   signer.Service
	lister   *standardlister.Service
	process  *standardprocess.Service

	lockWrap  func(locker.Service) locker.Service
	noCache   bool
	viaGrpc   bool
	acctMgr   *standardaccountmanager.Service
	traceLog  bool
	store2    e2wtypes.Store
	store2Wallets map[string]bool
	pruning   bool
	lockWarm  int
	// stallFirstMs: the FIRST state write after the rules service starts (whoever makes it) stalls that long
	stallFirstMs int
	trace     []string
	cops      []cop
	parks     []*park
	yieldSign bool // concurrent runs: yield at sign.enter (steering)
	walletMgr *standardwalletmanager.Service
}

var (
	keyTableOnce sync.Once
	keyTable     map[string][]byte // pubkey hex -> private key
	keyList      [][2][]byte
)

func initBLS() {
	if err := e2types.InitBLS(); err != nil {
		panic(err)
	}
}

// interopKeys returns the (private, public) key pairs used for test accounts: the 32 interop keys
// shipped in testing/daemon followed by keys derived from a fixed hash chain (for large batches).
func interopKeys() [][2][]byte {
	keyTableOnce.Do(func() {
		initBLS()
		keyTable = map[string][]byte{}
		all := append(append([][]byte{}, daemon.Wallet1Keys...), daemon.Wallet2Keys...)
		for i := 0; i < 1500; i++ {
			h := sha256.Sum256([]byte(fmt.Sprintf("dirk-verif-key-%d", i)))
			h[0] &= 0x3f
			all = append(all, h[:])
		}
		for _, sk := range all {
			priv, err := e2types.BLSPrivateKeyFromBytes(sk)
			if err != nil {
				panic(err)
			}
			pk := priv.PublicKey().Marshal()
			keyTable[hex.EncodeToString(pk)] = sk
			keyList = append(keyList, [2][]byte{sk, pk})
		}
	})
	return keyList
}

func newWorld(dir string) *world {
	zerolog.SetGlobalLevel(zerolog.Disabled)
	interopKeys()
	return &world{dir: dir, perms: map[string][]*checker.Permissions{}}
}

func (w *world) config(f []string) bool {
	switch f[0] {
	case "acct":
		a := acctCfg{wallet: unhexStr(f[1]), name: unhexStr(f[2]), pubkey: unhex(f[3]), unlockable: f[4] == "1" || f[4] == "2", pass2: f[4] == "2"}
		if strings.HasPrefix(f[4], "d") {
			a.unlockable, a.dist = true, unhexStr(f[4][1:])
		}
		w.accts = append(w.accts, a)
	case "wallet":
		w.wallets = append(w.wallets, unhexStr(f[1]))
		w.noCache = true
	case "perm":
		c := unhexStr(f[1])
		var ops []string
		if f[3] != "-" {
			for _, o := range strings.Split(f[3], ",") {
				ops = append(ops, unhexStr(o))
			}
		}
		w.perms[c] = append(w.perms[c], &checker.Permissions{Path: unhexStr(f[2]), Operations: ops})
	case "permclient":
		c := unhexStr(f[1])
		if _, ok := w.perms[c]; !ok {
			w.perms[c] = []*checker.Permissions{}
		}
	case "admin":
		w.adminIPs = append(w.adminIPs, unhexStr(f[1]))
	case "raw":
		w.raws = append(w.raws, [2][]byte{unhex(f[1]), unhex(f[2])})
	case "nocache":
		w.noCache = true
	case "viagrpc":
		w.viaGrpc = true
	case "tracelog":
		// every service is built with trace-level logging (to a discarding writer): the code that only runs when a log
		// entry is enabled runs too
		w.traceLog = true
	case "store2":
		// that wallet lives in a SECOND wallet store of the same type (two directories, two buckets)
		if w.store2Wallets == nil {
			w.store2Wallets = map[string]bool{}
		}
		w.store2Wallets[unhexStr(f[1])] = true
		w.noCache = true
	case "stalelock":
		// the n-th caller that finds an account LOCKED is held for (n-1)*<ms> before it learns so (a goroutine descheduled
		// between reading the lock state and acting on it): by then others may have unlocked the account
		ms, _ := strconv.Atoi(f[1])
		staleLockMs.Store(int64(ms))
		staleLockCount.Store(0)
		w.noCache = true
	case "pruning":
		w.pruning = true // server.rules.periodic-pruning: true (the store's maintenance goroutine runs)
	case "lockwarm":
		// the locker has already served that many other validator keys when the scenario starts (synthetic keys, lock and unlock
		// only: nothing is written)
		w.lockWarm, _ = strconv.Atoi(f[1])
	case "stallfirst":
		w.stallFirstMs, _ = strconv.Atoi(f[1])
	case "locktrace":
		w.enableTrace()
	case "legacyregex":
		// model-side switch only
	default:
		return false
	}
	return true
}

type walletCache struct {
	store   e2wtypes.Store
	fetcher fetcher.Service
}

// wallets are expensive to build (keystore encryption); instances with the same account
// configuration share one wallet store and one fetcher (unless noCache is set).
var walletCaches = map[string]*walletCache{}

func (w *world) acctKey() string {
	var sb strings.Builder
	for _, a := range w.accts {
		fmt.Fprintf(&sb, "%s|%s|%x|%v|%v|%s;", a.wallet, a.name, a.pubkey, a.unlockable, a.pass2, a.dist)
	}
	return sb.String()
}

func (w *world) buildWallets(ctx context.Context) {
	if c, ok := walletCaches[w.acctKey()]; ok && !w.noCache {
		w.store, w.fetcher = c.store, c.fetcher
		return
	}
	w.store = scratch.New()
	enc := keystorev4.New()
	// the keystore's key derivation costs ~50 ms per account: keep the serialised wallets of a configuration on disk
	// (DH_WALLET_CACHE) and load them back into a fresh in-memory store in later processes
	cacheFile := ""
	if len(w.store2Wallets) > 0 {
		w.store2 = scratch.New()
	}
	storeFor := func(wallet string) e2wtypes.Store {
		if w.store2Wallets[wallet] {
			return w.store2
		}
		return w.store
	}
	if dir := os.Getenv("DH_WALLET_CACHE"); dir != "" && len(w.store2Wallets) == 0 {
		h := sha256.Sum256([]byte(w.acctKey() + "|" + strings.Join(w.wallets, ",")))
		cacheFile = filepath.Join(dir, hex.EncodeToString(h[:16])+".json")
		if restoreStore(cacheFile, w.store) {
			var err error
			w.fetcher, err = memfetcher.New(ctx, memfetcher.WithStores([]e2wtypes.Store{w.store}), memfetcher.WithEncryptor(enc))
			if err == nil {
				if !w.noCache {
					walletCaches[w.acctKey()] = &walletCache{store: w.store, fetcher: w.fetcher}
				}
				return
			}
			w.store = scratch.New()
		}
	}
	wallets := map[string]e2wtypes.Wallet{}
	for _, name := range w.wallets {
		wal, err := nd.CreateWallet(ctx, name, storeFor(name), enc)
		if err != nil {
			panic(err)
		}
		wallets[name] = wal
	}
	for _, a := range w.accts {
		wal, ok := wallets[a.wallet]
		if !ok {
			var err error
			if a.dist != "" {
				wal, err = distributed.CreateWallet(ctx, a.wallet, storeFor(a.wallet), enc)
			} else {
				wal, err = nd.CreateWallet(ctx, a.wallet, storeFor(a.wallet), enc)
			}
			if err != nil {
				panic(err)
			}
			wallets[a.wallet] = wal
		}
		if err := wal.(e2wtypes.WalletLocker).Unlock(ctx, nil); err != nil {
			panic(err)
		}
		sk, ok := keyTable[hex.EncodeToString(a.pubkey)]
		if !ok {
			panic("unknown pubkey " + hex.EncodeToString(a.pubkey))
		}
		pass := []byte("pass")
		if !a.unlockable {
			pass = []byte("unknown-passphrase")
		} else if a.pass2 {
			pass = []byte("pass2")
		}
		if a.dist != "" {
			parts := map[uint64]string{}
			var composite []byte // "C=<hex>": the account's COMPOSITE public key (the validator's key), distinct from the share's
			for _, kv := range strings.Split(a.dist, ";") {
				i := strings.Index(kv, "=")
				if kv[:i] == "C" {
					composite = unhex(kv[i+1:])
					continue
				}
				id, _ := strconv.ParseUint(kv[:i], 10, 64)
				parts[id] = kv[i+1:]
			}
			th := len(parts)/2 + 1
			var vvec [][]byte
			for i := 0; i < th; i++ {
				if i == 0 && composite != nil {
					vvec = append(vvec, composite)
				} else {
					vvec = append(vvec, a.pubkey)
				}
			}
			if _, err := wal.(e2wtypes.WalletDistributedAccountImporter).ImportDistributedAccount(ctx, a.name, sk, uint32(th), vvec, parts, pass); err != nil {
				panic(err)
			}
		} else if _, err := wal.(e2wtypes.WalletAccountImporter).ImportAccount(ctx, a.name, sk, pass); err != nil {
			panic(err)
		}
		if err := wal.(e2wtypes.WalletLocker).Lock(ctx); err != nil {
			panic(err)
		}
	}
	var err error
	stores := []e2wtypes.Store{w.store}
	if w.store2 != nil {
		stores = append(stores, w.store2)
	}
	w.fetcher, err = memfetcher.New(ctx, memfetcher.WithStores(stores), memfetcher.WithEncryptor(enc))
	if err != nil {
		panic(err)
	}
	if !w.noCache {
		walletCaches[w.acctKey()] = &walletCache{store: w.store, fetcher: w.fetcher}
	}
	if cacheFile != "" {
		dumpStore(cacheFile, w.store)
	}
}

// begin builds wallets and services; returns "ok" or "newfail" (checker construction refused).
func (w *world) begin() string {
	ctx := context.Background()
	if w.traceLog {
		zlog.Logger = zerolog.New(io.Discard)
		zerolog.SetGlobalLevel(zerolog.TraceLevel)
	} else {
		zerolog.SetGlobalLevel(zerolog.Disabled)
	}
	w.buildWallets(ctx)
	if _, ok := w.fetcher.(*flakyFetcher); !ok {
		w.fetcher = &flakyFetcher{w.fetcher}
	}

	if len(w.raws) > 0 {
		st, err := standardrules.NewStore(ctx, filepath.Join(w.dir, "storage"), false, zerolog.Nop())
		if err != nil {
			panic(err)
		}
		for _, kv := range w.raws {
			if err := st.Store(ctx, kv[0], kv[1]); err != nil {
				panic(err)
			}
		}
		if err := st.Close(ctx); err != nil {
			panic(err)
		}
	}

	var err error
	w.unlocker, err = localunlocker.New(ctx,
		localunlocker.WithWalletPassphrases([]string{"pass"}),
		localunlocker.WithAccountPassphrases([]string{"pass", "pass2"}))
	if err != nil {
		panic(err)
	}
	chk, err := staticchecker.New(ctx, staticchecker.WithPermissions(w.perms))
	if err != nil {
		w.checker = nil
		return "newfail"
	}
	w.checker = chk
	if w.stallFirstMs > 0 {
		installStallFirst(w.stallFirstMs)
	}
	w.openRules()
	for i := 0; i < w.lockWarm; i++ {
		var k [48]byte
		k[0] = 0xa1
		k[46], k[47] = byte(i>>8), byte(i)
		w.locker.PreLock()
		w.locker.Lock(k)
		w.locker.PostLock()
		w.locker.Unlock(k)
	}
	return "ok"
}

// openRules (re)opens the rules service on the same directory and rebuilds the services above it.
func (w *world) openRules() {
	var err error
	theWorld = w
	w.ctx, w.cancel = context.WithCancel(context.Background())
	w.rules, err = standardrules.New(w.ctx,
		standardrules.WithStoragePath(filepath.Join(w.dir, "storage")),
		standardrules.WithAdminIPs(w.adminIPs), standardrules.WithPeriodicPruning(w.pruning))
	if err != nil {
		panic(err)
	}
	var lk locker.Service
	lk, err = syncmaplocker.New(w.ctx)
	if err != nil {
		panic(err)
	}
	if w.lockWrap != nil {
		lk = w.lockWrap(lk)
	}
	w.locker = lk
	w.ruler, err = goruler.New(w.ctx, goruler.WithLocker(lk), goruler.WithRules(w.rules))
	if err != nil {
		panic(err)
	}
	w.lister, err = standardlister.New(w.ctx, standardlister.WithFetcher(w.fetcher), standardlister.WithChecker(w.checker), standardlister.WithRuler(w.ruler))
	if err != nil {
		panic(err)
	}
	peersSvc, err := staticpeers.New(w.ctx, staticpeers.WithPeers(map[uint64]string{1: "self:1"}))
	if err != nil {
		panic(err)
	}
	w.process, err = standardprocess.New(w.ctx, standardprocess.WithChecker(w.checker), standardprocess.WithUnlocker(w.unlocker),
		standardprocess.WithSender(nullSender{}), standardprocess.WithFetcher(w.fetcher), standardprocess.WithEncryptor(keystorev4.New()),
		standardprocess.WithPeers(peersSvc), standardprocess.WithID(1), standardprocess.WithStores(w.allStores()),
		standardprocess.WithGenerationPassphrase([]byte("pass")))
	if err != nil {
		panic(err)
	}
	w.signer, err = standardsigner.New(w.ctx,
		standardsigner.WithUnlocker(w.unlocker),
		standardsigner.WithChecker(w.checker),
		standardsigner.WithFetcher(w.fetcher),
		standardsigner.WithRuler(shortRuler{w.ruler}))
	if err != nil {
		panic(err)
	}
}

func (w *world) closeRules() {
	if err := w.rules.Close(context.Background()); err != nil {
		panic(err)
	}
}

func (w *world) restart() {
	w.closeRules()
	w.openRules()
}

func (w *world) export() string {
	m, err := w.rules.ExportSlashingProtection(context.Background())
	if err != nil {
		return "E-ERR"
	}
	var parts []string
	for k, v := range m {
		parts = append(parts, fmt.Sprintf("%s:%d:%d:%d", hex.EncodeToString(k[:]), v.HighestProposedSlot, v.HighestAttestedSourceEpoch, v.HighestAttestedTargetEpoch))
	}
	sort.Strings(parts)
	return strings.TrimSpace("E " + strings.Join(parts, " "))
}

func resStr(r fmt.Stringer) string { return r.String() }

var _ = rules.UNKNOWN
var _ = os.Getenv

type storedWallet struct {
	ID       string   `json:"id"`
	Name     string   `json:"name"`
	Data     []byte   `json:"data"`
	Index    []byte   `json:"index"`
	Accounts [][2]any `json:"-"`
	AccIDs   []string `json:"acc_ids"`
	AccData  [][]byte `json:"acc_data"`
}

func dumpStore(file string, st e2wtypes.Store) {
	var out []storedWallet
	for wd := range st.RetrieveWallets() {
		var meta struct {
			UUID string `json:"uuid"`
			Name string `json:"name"`
		}
		if json.Unmarshal(wd, &meta) != nil {
			return
		}
		id, err := uuid.Parse(meta.UUID)
		if err != nil {
			return
		}
		sw := storedWallet{ID: meta.UUID, Name: meta.Name, Data: wd}
		sw.Index, _ = st.RetrieveAccountsIndex(id)
		for ad := range st.RetrieveAccounts(id) {
			var am struct {
				UUID string `json:"uuid"`
			}
			if json.Unmarshal(ad, &am) != nil {
				return
			}
			sw.AccIDs = append(sw.AccIDs, am.UUID)
			sw.AccData = append(sw.AccData, ad)
		}
		out = append(out, sw)
	}
	b, err := json.Marshal(out)
	if err != nil {
		return
	}
	_ = os.MkdirAll(filepath.Dir(file), 0o700)
	tmp := fmt.Sprintf("%s.%d.tmp", file, os.Getpid())
	if os.WriteFile(tmp, b, 0o600) == nil {
		_ = os.Rename(tmp, file)
	}
}

func restoreStore(file string, st e2wtypes.Store) bool {
	b, err := os.ReadFile(file)
	if err != nil {
		return false
	}
	var in []storedWallet
	if json.Unmarshal(b, &in) != nil || len(in) == 0 {
		return false
	}
	for _, sw := range in {
		id, err := uuid.Parse(sw.ID)
		if err != nil || st.StoreWallet(id, sw.Name, sw.Data) != nil {
			return false
		}
		for i := range sw.AccIDs {
			aid, err := uuid.Parse(sw.AccIDs[i])
			if err != nil || st.StoreAccount(id, aid, sw.AccData[i]) != nil {
				return false
			}
		}
		if len(sw.Index) > 0 {
			if st.StoreAccountsIndex(id, sw.Index) != nil {
				return false
			}
		}
	}
	return true
}

var (
	stallInstalled bool
	stallPrev      verifhook.HandlerFunc
)

// installStallFirst makes the first state write after this point stall (a slow disk at start-up), whichever goroutine
// makes it; later writes pass at once.
func installStallFirst(ms int) {
	if !stallInstalled {
		stallPrev = baseHandler
	}
	stallInstalled = true
	prev := stallPrev
	var first int32
	baseHandler = func(name string, key []byte) error {
		if (name == "store.enter" || name == "batchstore.enter") && atomic.CompareAndSwapInt32(&first, 0, 1) {
			time.Sleep(time.Duration(ms) * time.Millisecond)
		}
		if prev != nil {
			return prev(name, key)
		}
		return nil
	}
	verifhook.SetHandler(baseHandler)
}

func removeStallFirst() {
	if stallInstalled {
		stallInstalled = false
		baseHandler = stallPrev
		verifhook.SetHandler(baseHandler)
	}
}

func (w *world) allStores() []e2wtypes.Store {
	if w.store2 != nil {
		return []e2wtypes.Store{w.store, w.store2}
	}
	return []e2wtypes.Store{w.store}
}
