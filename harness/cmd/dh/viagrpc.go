package main

import (
	"bytes"
	"context"
	"crypto/tls"
	"fmt"
	"net"
	"os"
	"sort"
	"strings"
	"sync"
	"time"

	standardaccountmanager "github.com/attestantio/dirk/services/accountmanager/standard"
	grpcapi "github.com/attestantio/dirk/services/api/grpc"
	staticpeers "github.com/attestantio/dirk/services/peers/static"
	standardwalletmanager "github.com/attestantio/dirk/services/walletmanager/standard"
	"github.com/attestantio/dirk/testing/resources"
	pb "github.com/wealdtech/eth2-signer-api/pb/v1"
	"google.golang.org/grpc"
)

// "viagrpc" mode of the run engine: the instance's services are put behind the real gRPC API
// (services/api/grpc with its interceptors and handlers) on 127.0.0.1 and every signing op travels
// over a real TLS connection with a client certificate minted for the op's client name.

type grpcFront struct {
	port  uint32
	mu    sync.Mutex
	conns map[string]*grpc.ClientConn
	repo  string
}

var apiStarted = map[*world]*grpcFront{}

func (w *world) startAPI() *grpcFront {
	if f, ok := apiStarted[w]; ok {
		return f
	}
	port := freePort()
	peersSvc, err := staticpeers.New(w.ctx, staticpeers.WithPeers(map[uint64]string{1: fmt.Sprintf("signer-test01:%d", port)}))
	if err != nil {
		panic(err)
	}
	am, err := standardaccountmanager.New(w.ctx, standardaccountmanager.WithUnlocker(w.unlocker), standardaccountmanager.WithChecker(w.checker),
		standardaccountmanager.WithFetcher(w.fetcher), standardaccountmanager.WithRuler(w.ruler), standardaccountmanager.WithProcess(w.process))
	if err != nil {
		panic(err)
	}
	wm, err := standardwalletmanager.New(w.ctx, standardwalletmanager.WithUnlocker(w.unlocker), standardwalletmanager.WithChecker(w.checker),
		standardwalletmanager.WithFetcher(w.fetcher), standardwalletmanager.WithRuler(w.ruler))
	if err != nil {
		panic(err)
	}
	_, err = grpcapi.New(w.ctx, grpcapi.WithSigner(w.signer), grpcapi.WithLister(w.lister), grpcapi.WithProcess(w.process),
		grpcapi.WithAccountManager(am), grpcapi.WithWalletManager(wm), grpcapi.WithPeers(peersSvc), grpcapi.WithName("signer-test01"), grpcapi.WithID(1),
		grpcapi.WithServerCert(resources.SignerCerts[1]), grpcapi.WithServerKey(resources.SignerKeys[1]), grpcapi.WithCACert(resources.CACrt),
		grpcapi.WithListenAddress(fmt.Sprintf("127.0.0.1:%d", port)))
	if err != nil {
		panic(err)
	}
	repo := os.Getenv("DIRK_REPO")
	if repo == "" {
		repo = "/repo"
	}
	f := &grpcFront{port: port, conns: map[string]*grpc.ClientConn{}, repo: repo}
	apiStarted[w] = f
	return f
}

var (
	mintedMu sync.Mutex
	minted   = map[string]*tls.Certificate{}
)

func clientCert(repo, cn string) *tls.Certificate {
	mintedMu.Lock()
	defer mintedMu.Unlock()
	if c, ok := minted[cn]; ok {
		return c
	}
	ca, key := loadRepoCA(repo)
	if ca == nil {
		panic("cannot load the test CA key from " + repo)
	}
	now := time.Now()
	c := mint(cn, ca, key, now.Add(-time.Hour), now.Add(24*time.Hour))
	minted[cn] = &c
	return &c
}

func (f *grpcFront) conn(client string) *grpc.ClientConn {
	return f.connFrom(client, "")
}

// connFrom connects from the given loopback source address (any 127.x.y.z can be bound on Linux), so that the two
// ends of the TCP connection have different addresses; "" = whatever the kernel picks (127.0.0.1).
func (f *grpcFront) connFrom(client, src string) *grpc.ClientConn {
	f.mu.Lock()
	defer f.mu.Unlock()
	if c, ok := f.conns[client+"@"+src]; ok {
		return c
	}
	opts := []grpc.DialOption{tlsOpt(clientCert(f.repo, client))}
	if src != "" {
		d := &net.Dialer{LocalAddr: &net.TCPAddr{IP: net.ParseIP(src)}}
		opts = append(opts, grpc.WithContextDialer(func(ctx context.Context, addr string) (net.Conn, error) {
			return d.DialContext(ctx, "tcp", addr)
		}))
	}
	c, err := grpc.NewClient(fmt.Sprintf("127.0.0.1:%d", f.port), opts...)
	if err != nil {
		panic(err)
	}
	f.conns[client+"@"+src] = c
	return c
}

// srcOf: the source address a gRPC-routed op asks for (only loopback addresses can be realised).
func srcOf(f []string) string {
	if len(f) > 2 {
		if ip := ipOf(f[2]); strings.HasPrefix(ip, "127.") && net.ParseIP(ip) != nil {
			return ip
		}
	}
	return ""
}

func stateLetter(s pb.ResponseState) string {
	switch s {
	case pb.ResponseState_SUCCEEDED:
		return "S"
	case pb.ResponseState_DENIED:
		return "D"
	case pb.ResponseState_FAILED:
		return "F"
	}
	return "U"
}

func respStr(r *pb.SignResponse) string {
	if len(r.GetSignature()) > 0 {
		return fmt.Sprintf("%s:%x", stateLetter(r.GetState()), r.GetSignature())
	}
	return stateLetter(r.GetState())
}

func multiStr(r *pb.MultisignResponse) string {
	var out []string
	for _, x := range r.GetResponses() {
		out = append(out, respStr(x))
	}
	return strings.Join(out, " ")
}

func pbAtt(f []string) *pb.AttestationData {
	return &pb.AttestationData{Slot: u64(f[1]), CommitteeIndex: u64(f[2]), BeaconBlockRoot: unhexOpt(f[3]),
		Source: &pb.Checkpoint{Epoch: u64(f[4]), Root: unhexOpt(f[5])}, Target: &pb.Checkpoint{Epoch: u64(f[6]), Root: unhexOpt(f[7])}}
}

func attReq(a addr, f []string) *pb.SignBeaconAttestationRequest {
	r := &pb.SignBeaconAttestationRequest{Domain: unhexOpt(f[0]), Data: pbAtt(f)}
	if a.key != nil {
		r.Id = &pb.SignBeaconAttestationRequest_PublicKey{PublicKey: a.key}
	} else if a.name != "" {
		r.Id = &pb.SignBeaconAttestationRequest_Account{Account: a.name}
	}
	return r
}

func signReq(a addr, f []string) *pb.SignRequest {
	r := &pb.SignRequest{Domain: unhexOpt(f[0]), Data: unhexOpt(f[1])}
	if a.key != nil {
		r.Id = &pb.SignRequest_PublicKey{PublicKey: a.key}
	} else if a.name != "" {
		r.Id = &pb.SignRequest_Account{Account: a.name}
	}
	return r
}

// execGRPC executes a signing op through the real gRPC API; "" = not a gRPC-routed op.
func (w *world) execGRPC(f []string) string {
	fr := w.startAPI()
	ctx, cancel := context.WithTimeout(context.Background(), 20*time.Second)
	defer cancel()
	client := ""
	if f[0] != "restart" && len(f) > 1 && f[1] != "." {
		client = unhexStr(f[1])
	}
	if client == "" {
		client = "anonymous-empty" // a certificate needs a subject; the model is given the same name
	}
	switch f[0] {
	case "list":
		// the listing as a client receives it: the names in the response of the real ListAccounts handler (ordinary and
		// distributed accounts alike), each checked to carry the public key the fetcher has for that name
		var paths []string
		if f[2] != "-" {
			for _, p := range strings.Split(f[2], ",") {
				paths = append(paths, hs(p))
			}
		}
		res, err := pb.NewListerClient(fr.conn(client)).ListAccounts(ctx, &pb.ListAccountsRequest{Paths: paths})
		if err != nil {
			return "ERR:" + err.Error()
		}
		var names []string
		add := func(nm string, pub []byte) {
			if _, fa, err := w.fetcher.FetchAccount(ctx, nm); err != nil || !bytes.Equal(fa.PublicKey().Marshal(), pub) {
				nm += "!"
			}
			names = append(names, hexOrDot([]byte(nm)))
		}
		for _, a := range res.GetAccounts() {
			add(a.GetName(), a.GetPublicKey())
		}
		for _, a := range res.GetDistributedAccounts() {
			add(a.GetName(), a.GetPublicKey())
		}
		sort.Strings(names)
		out := "-"
		if len(names) > 0 {
			out = strings.Join(names, ",")
		}
		return stateLetter(res.GetState()) + " " + out
	case "att":
		res, err := pb.NewSignerClient(fr.conn(client)).SignBeaconAttestation(ctx, attReq(parseAddr(f[3]), strings.Split(f[4], ",")))
		if err != nil {
			return "ERR:" + err.Error()
		}
		return respStr(res)
	case "atts":
		req := &pb.SignBeaconAttestationsRequest{}
		for _, it := range strings.Split(f[4], ";") {
			p := strings.Split(it, ",")
			req.Requests = append(req.Requests, attReq(parseAddr(p[0]), p[1:]))
		}
		res, err := pb.NewSignerClient(fr.conn(client)).SignBeaconAttestations(ctx, req)
		if err != nil {
			return "ERR:" + err.Error()
		}
		return multiStr(res)
	case "atts0":
		res, err := pb.NewSignerClient(fr.conn(client)).SignBeaconAttestations(ctx, &pb.SignBeaconAttestationsRequest{})
		if err != nil {
			return "ERR:" + err.Error()
		}
		return multiStr(res)
	case "prop":
		a, p := parseAddr(f[3]), strings.Split(f[4], ",")
		r := &pb.SignBeaconProposalRequest{Domain: unhexOpt(p[0]), Data: &pb.BeaconBlockHeader{Slot: u64(p[1]), ProposerIndex: u64(p[2]),
			ParentRoot: unhexOpt(p[3]), StateRoot: unhexOpt(p[4]), BodyRoot: unhexOpt(p[5])}}
		if a.key != nil {
			r.Id = &pb.SignBeaconProposalRequest_PublicKey{PublicKey: a.key}
		} else if a.name != "" {
			r.Id = &pb.SignBeaconProposalRequest_Account{Account: a.name}
		}
		res, err := pb.NewSignerClient(fr.conn(client)).SignBeaconProposal(ctx, r)
		if err != nil {
			return "ERR:" + err.Error()
		}
		return respStr(res)
	case "sign":
		res, err := pb.NewSignerClient(fr.connFrom(client, srcOf(f))).Sign(ctx, signReq(parseAddr(f[3]), strings.Split(f[4], ",")))
		if err != nil {
			return "ERR:" + err.Error()
		}
		return respStr(res)
	case "msign":
		req := &pb.MultisignRequest{}
		for _, it := range strings.Split(f[4], ";") {
			p := strings.Split(it, ",")
			req.Requests = append(req.Requests, signReq(parseAddr(p[0]), p[1:]))
		}
		res, err := pb.NewSignerClient(fr.connFrom(client, srcOf(f))).Multisign(ctx, req)
		if err != nil {
			return "ERR:" + err.Error()
		}
		return multiStr(res)
	}
	return ""
}
