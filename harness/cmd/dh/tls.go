package main

import (
	"bufio"
	"context"
	"crypto/rand"
	"crypto/rsa"
	"crypto/sha256"
	"crypto/tls"
	"crypto/x509"
	"crypto/x509/pkix"
	"encoding/pem"
	"fmt"
	"io"
	"math/big"
	"net"
	"os"
	"path/filepath"
	"strings"
	"sync"
	"time"

	"github.com/attestantio/dirk/testing/daemon"
	"github.com/attestantio/dirk/testing/resources"
	"github.com/rs/zerolog"
	pb "github.com/wealdtech/eth2-signer-api/pb/v1"
	"google.golang.org/grpc"
	"google.golang.org/grpc/credentials"
	"google.golang.org/grpc/credentials/insecure"
	"google.golang.org/protobuf/proto"
	"google.golang.org/protobuf/types/known/emptypb"
)

// tls / wire engines: a real daemon (testing/daemon.New) on 127.0.0.1, real gRPC clients.

func freePort() uint32 {
	l, err := net.Listen("tcp", "127.0.0.1:0")
	if err != nil {
		panic(err)
	}
	p := l.Addr().(*net.TCPAddr).Port
	l.Close()
	return uint32(p)
}

func startDaemon(dir string) uint32 {
	zerolog.SetGlobalLevel(zerolog.Disabled)
	port := freePort()
	peers := map[uint64]string{1: fmt.Sprintf("signer-test01:%d", port), 2: "signer-test02:2", 3: "signer-test03:3"}
	if _, _, err := daemon.New(context.Background(), dir, 1, port, peers); err != nil {
		panic(err)
	}
	// wait until it accepts connections
	for i := 0; i < 100; i++ {
		c, err := net.DialTimeout("tcp", fmt.Sprintf("127.0.0.1:%d", port), 100*time.Millisecond)
		if err == nil {
			c.Close()
			break
		}
		time.Sleep(50 * time.Millisecond)
	}
	return port
}

func caPool() *x509.CertPool {
	p := x509.NewCertPool()
	p.AppendCertsFromPEM(resources.CACrt)
	return p
}

func mustPair(crt, key []byte) tls.Certificate {
	c, err := tls.X509KeyPair(crt, key)
	if err != nil {
		panic(err)
	}
	return c
}

// mint creates a client certificate for cn signed by the given CA (or self-signed if ca == nil).
func mint(cn string, ca *x509.Certificate, caKey *rsa.PrivateKey, notBefore, notAfter time.Time) tls.Certificate {
	key, err := rsa.GenerateKey(rand.Reader, 2048)
	if err != nil {
		panic(err)
	}
	tpl := &x509.Certificate{
		SerialNumber: big.NewInt(time.Now().UnixNano()),
		Subject:      pkix.Name{CommonName: cn},
		NotBefore:    notBefore, NotAfter: notAfter,
		KeyUsage:    x509.KeyUsageDigitalSignature,
		ExtKeyUsage: []x509.ExtKeyUsage{x509.ExtKeyUsageClientAuth},
		DNSNames:    []string{cn},
	}
	parent, signer := tpl, key
	if ca != nil {
		parent, signer = ca, caKey
	}
	der, err := x509.CreateCertificate(rand.Reader, tpl, parent, &key.PublicKey, signer)
	if err != nil {
		panic(err)
	}
	return tls.Certificate{Certificate: [][]byte{der}, PrivateKey: key}
}

func newCA(cn string) (*x509.Certificate, *rsa.PrivateKey) {
	key, _ := rsa.GenerateKey(rand.Reader, 2048)
	tpl := &x509.Certificate{SerialNumber: big.NewInt(1), Subject: pkix.Name{CommonName: cn}, NotBefore: time.Now().Add(-time.Hour),
		NotAfter: time.Now().Add(24 * time.Hour), IsCA: true, KeyUsage: x509.KeyUsageCertSign, BasicConstraintsValid: true}
	der, _ := x509.CreateCertificate(rand.Reader, tpl, tpl, &key.PublicKey, key)
	c, _ := x509.ParseCertificate(der)
	return c, key
}

func loadRepoCA(repo string) (*x509.Certificate, *rsa.PrivateKey) {
	kb, err := os.ReadFile(filepath.Join(repo, "testing/resources/Testing_certificate_authority.key"))
	if err != nil {
		return nil, nil
	}
	blk, _ := pem.Decode(kb)
	if blk == nil {
		return nil, nil
	}
	key, err := x509.ParsePKCS1PrivateKey(blk.Bytes)
	if err != nil {
		return nil, nil
	}
	cb, _ := pem.Decode(resources.CACrt)
	ca, err := x509.ParseCertificate(cb.Bytes)
	if err != nil {
		return nil, nil
	}
	return ca, key
}

var (
	hostCA  *x509.Certificate
	hostKey *rsa.PrivateKey
)

type credKind struct {
	name string
	opt  grpc.DialOption
}

func tlsOpt(cert *tls.Certificate) grpc.DialOption {
	cfg := &tls.Config{RootCAs: caPool(), ServerName: "signer-test01", MinVersion: tls.VersionTLS13}
	if cert != nil {
		cfg.Certificates = []tls.Certificate{*cert}
	}
	return grpc.WithTransportCredentials(credentials.NewTLS(cfg))
}

// forgedTicket prepares a caller who holds a certificate for cn from an authority of its OWN and offers the daemon a TLS 1.3
// session-resumption ticket it obtained from its own endpoint, which encrypts tickets under `key` — a key the caller can
// compute from public data.  A server whose ticket key is that key would resume the session and believe the certificate in
// the ticket without verifying it against the configured authority.
func forgedTicket(cn string, key [32]byte) (grpc.DialOption, bool) {
	now := time.Now()
	oca, okey := newCA("Ticket forger's authority")
	leaf := mint(cn, oca, okey, now.Add(-time.Hour), now.Add(time.Hour))
	end := mint("signer-test01", oca, okey, now.Add(-time.Hour), now.Add(time.Hour))
	pool := x509.NewCertPool()
	pool.AddCert(oca)
	ecfg := &tls.Config{Certificates: []tls.Certificate{end}, ClientAuth: tls.RequireAndVerifyClientCert, ClientCAs: pool, MinVersion: tls.VersionTLS13, NextProtos: []string{"h2"}}
	ecfg.SetSessionTicketKeys([][32]byte{key})
	l, err := tls.Listen("tcp", "127.0.0.1:0", ecfg)
	if err != nil {
		return nil, false
	}
	defer l.Close()
	go func() {
		for {
			c, err := l.Accept()
			if err != nil {
				return
			}
			go func(c net.Conn) {
				defer c.Close()
				if c.(*tls.Conn).Handshake() != nil {
					return
				}
				_, _ = c.Write([]byte("ok"))
				_, _ = io.Copy(io.Discard, c)
			}(c)
		}
	}()
	ccfg := &tls.Config{Certificates: []tls.Certificate{leaf}, InsecureSkipVerify: true, ServerName: "signer-test01", MinVersion: tls.VersionTLS13, //nolint:gosec
		NextProtos: []string{"h2"}, ClientSessionCache: tls.NewLRUClientSessionCache(4)}
	c, err := tls.Dial("tcp", l.Addr().String(), ccfg)
	if err != nil {
		return nil, false
	}
	buf := make([]byte, 2)
	if _, err := io.ReadFull(c, buf); err != nil { // reading also takes delivery of the ticket
		c.Close()
		return nil, false
	}
	c.Close()
	return grpc.WithTransportCredentials(credentials.NewTLS(ccfg)), true
}

// serverLeaf reads the daemon's server certificate from a handshake (it is sent to anyone who connects).
func serverLeaf(port uint32) []byte {
	var leaf []byte
	c, err := tls.Dial("tcp", fmt.Sprintf("127.0.0.1:%d", port), &tls.Config{InsecureSkipVerify: true, ServerName: "signer-test01", MinVersion: tls.VersionTLS13, //nolint:gosec
		VerifyPeerCertificate: func(raw [][]byte, _ [][]*x509.Certificate) error {
			if len(raw) > 0 {
				leaf = raw[0]
			}
			return nil
		}})
	if err == nil {
		c.Close()
	}
	return leaf
}

func credKinds(repo string, port uint32) []credKind {
	kinds := []credKind{{"plaintext", grpc.WithTransportCredentials(insecure.NewCredentials())}, {"tlsnocert", tlsOpt(nil)}}
	now := time.Now()
	// resumption tickets forged under keys computable from public data
	guess := map[string][32]byte{"zero": {}, "servername": sha256.Sum256([]byte("signer-test01")), "cacert": sha256.Sum256(resources.CACrt)}
	if leaf := serverLeaf(port); leaf != nil {
		guess["servercert"] = sha256.Sum256(leaf)
		guess["servercertpem"] = sha256.Sum256(pem.EncodeToMemory(&pem.Block{Type: "CERTIFICATE", Bytes: leaf}))
	}
	if b, _ := pem.Decode(resources.CACrt); b != nil {
		guess["cacertder"] = sha256.Sum256(b.Bytes)
	}
	for _, src := range []string{"zero", "servername", "cacert", "cacertder", "servercert", "servercertpem"} {
		if k, ok := guess[src]; ok {
			if opt, ok := forgedTicket("client-test01", k); ok {
				kinds = append(kinds, credKind{"forgedticket:" + src + ":client-test01", opt})
			}
		}
	}
	ss := mint("client-test01", nil, nil, now.Add(-time.Hour), now.Add(time.Hour))
	kinds = append(kinds, credKind{"selfsigned:client-test01", tlsOpt(&ss)})
	oca, okey := newCA("Other authority")
	oc := mint("client-test01", oca, okey, now.Add(-time.Hour), now.Add(time.Hour))
	kinds = append(kinds, credKind{"otherca:client-test01", tlsOpt(&oc)})
	if hostCA != nil {
		hc := mint("client-test01", hostCA, hostKey, now.Add(-time.Hour), now.Add(time.Hour))
		hp := mint("signer-test02", hostCA, hostKey, now.Add(-time.Hour), now.Add(time.Hour))
		kinds = append(kinds, credKind{"hosttrusted:client-test01", tlsOpt(&hc)}, credKind{"hosttrusted:signer-test02", tlsOpt(&hp)})
	}
	if ca, key := loadRepoCA(repo); ca != nil {
		ex := mint("client-test01", ca, key, now.Add(-48*time.Hour), now.Add(-24*time.Hour))
		kinds = append(kinds, credKind{"expired:client-test01", tlsOpt(&ex)})
		nv := mint("client-test01", ca, key, now.Add(24*time.Hour), now.Add(48*time.Hour))
		kinds = append(kinds, credKind{"notyetvalid:client-test01", tlsOpt(&nv)})
		un := mint("client-test09", ca, key, now.Add(-time.Hour), now.Add(time.Hour))
		kinds = append(kinds, credKind{"valid:client-test09", tlsOpt(&un)})
		// subjects that differ from a permitted client's / a peer's name in letter case only: different identities
		cv1 := mint("Client-Test01", ca, key, now.Add(-time.Hour), now.Add(time.Hour))
		cv2 := mint("CLIENT-TEST02", ca, key, now.Add(-time.Hour), now.Add(time.Hour))
		cv3 := mint("Signer-Test02", ca, key, now.Add(-time.Hour), now.Add(time.Hour))
		kinds = append(kinds, credKind{"valid:Client-Test01", tlsOpt(&cv1)}, credKind{"valid:CLIENT-TEST02", tlsOpt(&cv2)}, credKind{"valid:Signer-Test02", tlsOpt(&cv3)})
	}
	c1 := mustPair(resources.ClientTest01Crt, resources.ClientTest01Key)
	c2 := mustPair(resources.ClientTest02Crt, resources.ClientTest02Key)
	c3 := mustPair(resources.ClientTest03Crt, resources.ClientTest03Key)
	s2 := mustPair(resources.SignerCerts[2], resources.SignerKeys[2])
	// a valid leaf followed by further certificates the authority never issued: only the leaf is verified, so only
	// the leaf's name may be believed
	ch2 := tls.Certificate{Certificate: [][]byte{c2.Certificate[0], ss.Certificate[0]}, PrivateKey: c2.PrivateKey}
	ch3 := tls.Certificate{Certificate: [][]byte{c3.Certificate[0], oc.Certificate[0], ss.Certificate[0]}, PrivateKey: c3.PrivateKey}
	chs := tls.Certificate{Certificate: [][]byte{s2.Certificate[0], ss.Certificate[0]}, PrivateKey: s2.PrivateKey}
	// a client's valid leaf followed by a PEER's genuine public certificate (no key needed for that)
	chp := tls.Certificate{Certificate: [][]byte{c1.Certificate[0], s2.Certificate[0]}, PrivateKey: c1.PrivateKey}
	kinds = append(kinds, credKind{"chain:client-test01+signer-test02", tlsOpt(&chp)})
	kinds = append(kinds, credKind{"chain:client-test02+client-test01", tlsOpt(&ch2)}, credKind{"chain:client-test03+client-test01+client-test01", tlsOpt(&ch3)},
		credKind{"chain:signer-test02+client-test01", tlsOpt(&chs)})
	kinds = append(kinds, credKind{"valid:client-test01", tlsOpt(&c1)}, credKind{"valid:client-test02", tlsOpt(&c2)},
		credKind{"valid:client-test03", tlsOpt(&c3)}, credKind{"valid:signer-test02", tlsOpt(&s2)})
	return kinds
}

type method struct {
	full string
	req  func(wallet string) proto.Message
	resp func() proto.Message
	sum  func(m proto.Message) string
}

func dom(b byte) []byte { d := make([]byte, 32); d[0] = b; return d }

func methods() []method {
	r32 := func(b byte) []byte { x := make([]byte, 32); x[0] = b; return x }
	signSum := func(m proto.Message) string { return m.(*pb.SignResponse).GetState().String() }
	multiSum := func(m proto.Message) string {
		var s []string
		for _, r := range m.(*pb.MultisignResponse).GetResponses() {
			s = append(s, r.GetState().String())
		}
		return strings.Join(s, "+")
	}
	return []method{
		{"/v1.Lister/ListAccounts", func(w string) proto.Message { return &pb.ListAccountsRequest{Paths: []string{w}} }, func() proto.Message { return &pb.ListAccountsResponse{} },
			func(m proto.Message) string {
				return fmt.Sprintf("%s:%d", m.(*pb.ListAccountsResponse).GetState(), len(m.(*pb.ListAccountsResponse).GetAccounts()))
			}},
		{"/v1.Signer/Sign", func(w string) proto.Message {
			return &pb.SignRequest{Id: &pb.SignRequest_Account{Account: w + "/Account 0"}, Data: r32(1), Domain: dom(2)}
		}, func() proto.Message { return &pb.SignResponse{} }, signSum},
		{"/v1.Signer/Multisign", func(w string) proto.Message {
			return &pb.MultisignRequest{Requests: []*pb.SignRequest{{Id: &pb.SignRequest_Account{Account: w + "/Account 1"}, Data: r32(1), Domain: dom(2)}}}
		}, func() proto.Message { return &pb.MultisignResponse{} }, multiSum},
		{"/v1.Signer/SignBeaconAttestation", func(w string) proto.Message {
			return &pb.SignBeaconAttestationRequest{Id: &pb.SignBeaconAttestationRequest_Account{Account: w + "/Account 2"}, Domain: dom(1),
				Data: &pb.AttestationData{Slot: 1, BeaconBlockRoot: r32(3), Source: &pb.Checkpoint{Epoch: 1, Root: r32(4)}, Target: &pb.Checkpoint{Epoch: uint64(time.Now().UnixNano() / 1000), Root: r32(5)}}}
		}, func() proto.Message { return &pb.SignResponse{} }, signSum},
		{"/v1.Signer/SignBeaconAttestations", func(w string) proto.Message {
			return &pb.SignBeaconAttestationsRequest{Requests: []*pb.SignBeaconAttestationRequest{{Id: &pb.SignBeaconAttestationRequest_Account{Account: w + "/Account 3"}, Domain: dom(1),
				Data: &pb.AttestationData{Slot: 1, BeaconBlockRoot: r32(3), Source: &pb.Checkpoint{Epoch: 1, Root: r32(4)}, Target: &pb.Checkpoint{Epoch: uint64(time.Now().UnixNano() / 1000), Root: r32(5)}}}}}
		}, func() proto.Message { return &pb.MultisignResponse{} }, multiSum},
		{"/v1.Signer/SignBeaconProposal", func(w string) proto.Message {
			return &pb.SignBeaconProposalRequest{Id: &pb.SignBeaconProposalRequest_Account{Account: w + "/Account 4"}, Domain: dom(0),
				Data: &pb.BeaconBlockHeader{Slot: uint64(time.Now().UnixNano() / 1000), ParentRoot: r32(1), StateRoot: r32(2), BodyRoot: r32(3)}}
		}, func() proto.Message { return &pb.SignResponse{} }, signSum},
		{"/v1.AccountManager/Lock", func(w string) proto.Message { return &pb.LockAccountRequest{Account: w + "/Account 5"} }, func() proto.Message { return &pb.LockAccountResponse{} },
			func(m proto.Message) string { return m.(*pb.LockAccountResponse).GetState().String() }},
		{"/v1.AccountManager/Unlock", func(w string) proto.Message {
			return &pb.UnlockAccountRequest{Account: w + "/Account 5", Passphrase: []byte("pass")}
		}, func() proto.Message { return &pb.UnlockAccountResponse{} },
			func(m proto.Message) string { return m.(*pb.UnlockAccountResponse).GetState().String() }},
		{"/v1.AccountManager/Generate", func(w string) proto.Message {
			return &pb.GenerateRequest{Account: fmt.Sprintf("%s/Gen %d", w, time.Now().UnixNano()), Passphrase: []byte("pass"), Participants: 1, SigningThreshold: 1}
		}, func() proto.Message { return &pb.GenerateResponse{} }, func(m proto.Message) string { return m.(*pb.GenerateResponse).GetState().String() }},
		{"/v1.WalletManager/Lock", func(w string) proto.Message { return &pb.LockWalletRequest{Wallet: w} }, func() proto.Message { return &pb.LockWalletResponse{} },
			func(m proto.Message) string { return m.(*pb.LockWalletResponse).GetState().String() }},
		{"/v1.WalletManager/Unlock", func(w string) proto.Message { return &pb.UnlockWalletRequest{Wallet: w, Passphrase: []byte("pass")} }, func() proto.Message { return &pb.UnlockWalletResponse{} },
			func(m proto.Message) string { return m.(*pb.UnlockWalletResponse).GetState().String() }},
		{"/v1.DKG/Prepare", func(w string) proto.Message {
			return &pb.PrepareRequest{Account: "Wallet 3/tls " + w, Threshold: 2, Participants: []*pb.Endpoint{{Id: 1, Name: "signer-test01", Port: 1}, {Id: 2, Name: "signer-test02", Port: 2}}}
		}, func() proto.Message { return &emptypb.Empty{} }, func(proto.Message) string { return "OK" }},
		{"/v1.DKG/Execute", func(w string) proto.Message { return &pb.ExecuteRequest{Account: "Wallet 3/none"} }, func() proto.Message { return &emptypb.Empty{} }, func(proto.Message) string { return "OK" }},
		{"/v1.DKG/Commit", func(w string) proto.Message {
			return &pb.CommitRequest{Account: "Wallet 3/none", ConfirmationData: r32(1)}
		}, func() proto.Message { return &pb.CommitResponse{} }, func(proto.Message) string { return "OK" }},
		{"/v1.DKG/Abort", func(w string) proto.Message { return &pb.AbortRequest{Account: "Wallet 3/tls " + w} }, func() proto.Message { return &emptypb.Empty{} }, func(proto.Message) string { return "OK" }},
		{"/v1.DKG/Contribute", func(w string) proto.Message { return &pb.ContributeRequest{Account: "Wallet 3/none", Secret: r32(1)} }, func() proto.Message { return &pb.ContributeResponse{} }, func(proto.Message) string { return "OK" }},
	}
}

// registeredMethods lists every method of every service in the pb descriptors of package v1.
func registeredMethods() []string {
	var out []string
	for _, sd := range []grpc.ServiceDesc{pb.Lister_ServiceDesc, pb.Signer_ServiceDesc, pb.AccountManager_ServiceDesc, pb.WalletManager_ServiceDesc, pb.DKG_ServiceDesc} {
		for _, m := range sd.Methods {
			out = append(out, "/"+sd.ServiceName+"/"+m.MethodName)
		}
	}
	return out
}

// tlsEngine prints one line per (credential kind, method, wallet):
//
//	<cred> <method> <wallet> refused|served:<summary>|apperr:<grpc code>
func tlsEngine(workdir, repo string) {
	// an authority the HOST trusts (system trust store of this process) but the daemon is not configured with:
	// a certificate it issued must be refused exactly like one from an unknown authority
	hostCA, hostKey = newCA("Some host-trusted authority")
	hostPem := filepath.Join(workdir, "host-trust.pem")
	_ = os.WriteFile(hostPem, pem.EncodeToMemory(&pem.Block{Type: "CERTIFICATE", Bytes: hostCA.Raw}), 0o600)
	_ = os.MkdirAll(filepath.Join(workdir, "empty-certs"), 0o700)
	os.Setenv("SSL_CERT_FILE", hostPem)
	os.Setenv("SSL_CERT_DIR", filepath.Join(workdir, "empty-certs"))
	port := startDaemon(filepath.Join(workdir, "daemon"))
	out := bufio.NewWriter(os.Stdout)
	defer out.Flush()
	ms := methods()
	have := map[string]bool{}
	for _, m := range ms {
		have[m.full] = true
	}
	for _, m := range registeredMethods() {
		if !have[m] {
			fmt.Fprintf(out, "UNCOVERED-METHOD %s\n", m)
		}
	}
	for _, ck := range credKinds(repo, port) {
		conn, err := grpc.NewClient(fmt.Sprintf("127.0.0.1:%d", port), ck.opt)
		if err != nil {
			fmt.Fprintf(out, "%s * * dialerror\n", ck.name)
			continue
		}
		for _, m := range ms {
			for _, w := range []string{"Wallet 1", "Wallet 2"} {
				ctx, cancel := context.WithTimeout(context.Background(), 10*time.Second)
				resp := m.resp()
				err := conn.Invoke(ctx, m.full, m.req(w), resp)
				cancel()
				res := ""
				switch {
				case err == nil:
					res = "served:" + m.sum(resp)
				case strings.Contains(err.Error(), "Unavailable") || strings.Contains(err.Error(), "connection") || strings.Contains(err.Error(), "handshake") || strings.Contains(err.Error(), "tls:") || strings.Contains(err.Error(), "EOF"):
					res = "refused"
				default:
					// the handler ran and returned an error (e.g. DKG "unknown sender"): the call was served
					res = "served:ERR(" + strings.ReplaceAll(strings.SplitN(err.Error(), "desc = ", 2)[len(strings.SplitN(err.Error(), "desc = ", 2))-1], " ", "_") + ")"
				}
				fmt.Fprintf(out, "%s %s %s %s\n", ck.name, m.full, strings.ReplaceAll(w, " ", "_"), res)
			}
		}
		conn.Close()
	}
	// the same identities at the same time: three permitted clients with different permissions send identical read-only
	// requests concurrently for a while; every distinct outcome each of them saw is printed as a row of its own (whatever is
	// shared between requests in flight must not carry one caller's identity into another's answer)
	type ckey struct{ cn, meth, wallet string }
	seen := map[ckey]map[string]bool{}
	var mu sync.Mutex
	var wg sync.WaitGroup
	stop := time.Now().Add(1500 * time.Millisecond)
	pairs := [][2][]byte{{resources.ClientTest01Crt, resources.ClientTest01Key}, {resources.ClientTest02Crt, resources.ClientTest02Key}, {resources.ClientTest03Crt, resources.ClientTest03Key}}
	for ci, pr := range pairs {
		cert := mustPair(pr[0], pr[1])
		cn := fmt.Sprintf("client-test%02d", ci+1)
		conn, err := grpc.NewClient(fmt.Sprintf("127.0.0.1:%d", port), tlsOpt(&cert))
		if err != nil {
			continue
		}
		defer conn.Close()
		for g := 0; g < 3; g++ {
			wg.Add(1)
			go func() {
				defer wg.Done()
				for time.Now().Before(stop) {
					for _, m := range ms[:2] { // ListAccounts, Sign (generic: stateless)
						for _, w := range []string{"Wallet 1", "Wallet 2"} {
							ctx, cancel := context.WithTimeout(context.Background(), 10*time.Second)
							resp := m.resp()
							err := conn.Invoke(ctx, m.full, m.req(w), resp)
							cancel()
							res := "refused"
							if err == nil {
								res = "served:" + m.sum(resp)
							}
							mu.Lock()
							k := ckey{cn, m.full, strings.ReplaceAll(w, " ", "_")}
							if seen[k] == nil {
								seen[k] = map[string]bool{}
							}
							seen[k][res] = true
							mu.Unlock()
						}
					}
				}
			}()
		}
	}
	wg.Wait()
	for k, rs := range seen {
		for r := range rs {
			fmt.Fprintf(out, "valid:%s %s %s %s\n", k.cn, k.meth, k.wallet, r)
		}
	}
}
