package main

import (
	"encoding/hex"
	"fmt"
	"strconv"
	"strings"
)

// Line-protocol helpers shared with the Lean driver (Driver/Proto.lean): every free-form string and
// byte string travels hex-encoded; "-" is nil/absent, "." is empty-but-present.

func unhex(s string) []byte {
	if s == "." {
		return []byte{}
	}
	b, err := hex.DecodeString(s)
	if err != nil {
		panic(fmt.Sprintf("bad hex %q", s))
	}
	return b
}

// unhexOpt returns nil for "-".
func unhexOpt(s string) []byte {
	if s == "-" {
		return nil
	}
	return unhex(s)
}

// unhexCap8 mimics protobuf-go decoding: a short byte field has capacity >= 8.
func unhexCap8(s string) []byte {
	if s == "-" {
		return nil
	}
	b := unhex(s)
	if len(b) < 8 {
		nb := make([]byte, len(b), 8)
		copy(nb, b)
		return nb
	}
	return b
}

func unhexStr(s string) string { return string(unhex(s)) }

func hexOrDot(b []byte) string {
	if len(b) == 0 {
		return "."
	}
	return hex.EncodeToString(b)
}

func u64(s string) uint64 {
	v, err := strconv.ParseUint(s, 10, 64)
	if err != nil {
		panic(fmt.Sprintf("bad uint %q", s))
	}
	return v
}

type addr struct {
	name string
	key  []byte
}

// dynResolver maps an account path to the public key of the account the current world's wallets hold under it
var dynResolver func(path string) []byte

func parseAddr(s string) addr {
	if s == "-" {
		return addr{}
	}
	p := strings.Split(s, ":")
	switch p[0] {
	case "n":
		return addr{name: unhexStr(p[1])}
	case "k":
		return addr{key: unhex(p[1])}
	case "b":
		return addr{name: unhexStr(p[1]), key: unhex(p[2])}
	case "d":
		// an account created through dirk at run time, addressed BY ITS PUBLIC KEY (looked up here by name, since the
		// key is only known once the account exists); by name if it does not exist (yet)
		if dynResolver != nil {
			if k := dynResolver(unhexStr(p[1])); k != nil {
				return addr{key: k}
			}
		}
		return addr{name: unhexStr(p[1])}
	}
	panic("bad addr " + s)
}

type faultSpec struct {
	fetchFail   map[int]bool
	storeFail   bool
	storeLanded bool
	// storeBlocked: badger refuses writes (ErrBlockedWrites, the state its Close and DropAll put it in first) while reads
	// still work, for the duration of the request.
	storeBlocked bool
	// storeClosing: shutdown begins (the service context is cancelled, the rules store starts closing) while the
	// request stands at its state write; the store is reopened after the request.
	storeClosing bool
	// lockStateFail: the accounts fetched for this request cannot say whether they are unlocked (IsUnlocked returns an error,
	// as a remote or hardware-backed account may)
	lockStateFail bool
	signFail    map[int]bool
	// rulesShort k > 0: the list RunRules hands the signer is cut to its first k verdicts (after the rules ran)
	rulesShort int
}

func parseFaults(s string) *faultSpec {
	f := &faultSpec{fetchFail: map[int]bool{}, signFail: map[int]bool{}}
	if s == "-" {
		return f
	}
	for _, tok := range strings.Split(s, ",") {
		switch {
		case tok == "s":
			f.storeFail = true
		case tok == "b":
			f.storeBlocked = true
		case tok == "c":
			f.storeClosing = true
		case tok == "u":
			f.lockStateFail = true
		case tok == "S":
			f.storeFail = true
			f.storeLanded = true
		case strings.HasPrefix(tok, "f"):
			i, _ := strconv.Atoi(tok[1:])
			f.fetchFail[i] = true
		case strings.HasPrefix(tok, "g"):
			i, _ := strconv.Atoi(tok[1:])
			f.signFail[i] = true
		case strings.HasPrefix(tok, "r"):
			i, err := strconv.Atoi(tok[1:])
			if err != nil || i <= 0 {
				panic("bad fault " + tok)
			}
			f.rulesShort = i
		default:
			panic("bad fault " + tok)
		}
	}
	return f
}

func (f *faultSpec) any() bool {
	return len(f.fetchFail) > 0 || f.storeFail || f.storeBlocked || f.storeClosing || f.lockStateFail || len(f.signFail) > 0 || f.rulesShort > 0
}
