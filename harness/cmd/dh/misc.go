package main

import (
	"bufio"
	"bytes"
	"encoding/gob"
	"encoding/hex"
	"fmt"
	"os"
	"runtime"
	"sort"
	"strconv"
	"strings"
	"sync"

	"github.com/attestantio/dirk/util"
)

// scatterEngine: lines "n p" -> the (offset, entries) pairs util.Scatter hands to its work function
// under GOMAXPROCS=p, sorted by offset: "o:c o:c …".
func scatterEngine() {
	sc := bufio.NewScanner(os.Stdin)
	out := bufio.NewWriter(os.Stdout)
	defer out.Flush()
	for sc.Scan() {
		f := strings.Fields(sc.Text())
		if len(f) != 3 || f[0] != "scatter" {
			continue
		}
		n, _ := strconv.Atoi(f[1])
		p, _ := strconv.Atoi(f[2])
		old := runtime.GOMAXPROCS(p)
		var mu sync.Mutex
		var got [][2]int
		_, err := util.Scatter(n, func(offset int, entries int, _ *sync.RWMutex) (any, error) {
			mu.Lock()
			got = append(got, [2]int{offset, entries})
			mu.Unlock()
			return nil, nil
		})
		runtime.GOMAXPROCS(old)
		if err != nil {
			fmt.Fprintln(out, "err")
			continue
		}
		sort.Slice(got, func(i, j int) bool { return got[i][0] < got[j][0] })
		parts := make([]string, len(got))
		for i, g := range got {
			parts[i] = fmt.Sprintf("%d:%d", g[0], g[1])
		}
		fmt.Fprintln(out, strings.Join(parts, " "))
	}
}

// The legacy (pre-version-byte) on-disk records were gob encodings of these two structs.
type signBeaconAttestationState struct {
	SourceEpoch int64
	TargetEpoch int64
}

type signBeaconProposalState struct {
	Slot int64
}

// gobEngine: lines "att s t" / "prop s" -> hex of Go's own gob encoding of the legacy record.
func gobEngine() {
	sc := bufio.NewScanner(os.Stdin)
	out := bufio.NewWriter(os.Stdout)
	defer out.Flush()
	for sc.Scan() {
		f := strings.Fields(sc.Text())
		var b bytes.Buffer
		switch f[0] {
		case "att":
			s, _ := strconv.ParseInt(f[1], 10, 64)
			t, _ := strconv.ParseInt(f[2], 10, 64)
			gob.NewEncoder(&b).Encode(&signBeaconAttestationState{SourceEpoch: s, TargetEpoch: t})
		case "prop":
			s, _ := strconv.ParseInt(f[1], 10, 64)
			gob.NewEncoder(&b).Encode(&signBeaconProposalState{Slot: s})
		}
		fmt.Fprintln(out, hex.EncodeToString(b.Bytes()))
	}
}
