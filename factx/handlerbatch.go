// handlerbatch.go — P19: the batch paths of the gRPC signer handlers
// (services/api/grpc/handlers/signer/signbeaconattestations.go: `SignBeaconAttestations`, multisign.go: `Multisign`,
// each with the `validate…Requests` function it calls), read as
//
//	attsEntryVerdictGen / msignEntryVerdictGen   the guards of the validation loop applied to ONE entry (state written, or none)
//	batchEarlyGen                                the responses returned before any response per entry is created
//	batchAfterValidateGen                        the responses returned right after the validation (none: the signer is called)
//	resultToStateGen                             the final switch: core.Result value ↦ (state name, is the signature copied)
//	handlerShapeGen                              canonical string facts (creation of the responses, order of the calls, the
//	                                             early-return test, how the signer's arguments are built, the signer call)
//
// Locals are recognised by ROLE (the statement that binds them), never by name, and are printed as their roles
// (h, ctx, req, res, i, request, accountNames, pubKeys, reqData, results, signatures).  A handler must be
//
//	func (h *Handler) F(ctx context.Context, req *pb.T) (*pb.MultisignResponse, error)
//
// and its body, apart from SILENT statements (call chains on the package logger `log`, not Fatal / Panic, whose arguments are
// literals, identifiers, fields, len(…) and generated getters of req / request / res), must be, in this order
// (anything else ⇒ kernelUntranslatable_…):
//
//	res := &pb.MultisignResponse{}
//	if C { [res.Responses = make([]*pb.SignResponse, K); res.Responses[j] = &pb.SignResponse{State: pb.ResponseState_X} (every j < K)]; return res, nil }   (any number; C over `req == nil`, `len(req.GetRequests()) == 0`, !, &&, ||)
//	res.Responses = make([]*pb.SignResponse, len(req.GetRequests()))
//	for i := range req.GetRequests() { res.Responses[i] = &pb.SignResponse{State: pb.ResponseState_X} }
//	V(ctx, req, res)                                    (V: a function of the same file, see below)
//	for i := range req.GetRequests() { if <res.Responses[i].State == pb.ResponseState_X || …> { return res, nil } }
//	A := make([]string, len(req.GetRequests()))   P := make([][]byte, len(req.GetRequests()))   D := make([]*rules.T, len(req.GetRequests()))   (any order)
//	for i, request := range req.GetRequests() { A[i] = request.GetAccount(); P[i] = request.GetPublicKey(); D[i] = &rules.T{ getter chains on request } }   (any order)
//	results, signatures := h.signer.M(ctx, handlers.GenerateCredentials(ctx), A, P, D)
//	for i := range results { switch results[i] { case core.ResultX[, …]: [res.Responses[i].State = pb.ResponseState_Y] [res.Responses[i].Signature = signatures[i]] … [default: …] } }
//	return res, nil
//
// and V must be `func V(_|ctx context.Context, req *pb.T, res *pb.MultisignResponse)` whose body is, apart from silent statements,
//
//	for i, request := range req.GetRequests() { if C { res.Responses[i].State = pb.ResponseState_X; return } … }
//
// with every C a Boolean combination of the per-entry tests listed in hbEntryAtoms.  A guard that does not `return`
// (e.g. `continue`) is refused: the emitted "first bad entry" reading would be wrong for it.
// `res.GetResponses()` / `.GetState()` are read as the fields (res and its entries are non-nil where they are used).
package main

import (
	"fmt"
	"go/ast"
	"go/token"
	"os"
	"path/filepath"
	"regexp"
	"sort"
	"strconv"
	"strings"
)

const hbDir = "services/api/grpc/handlers/signer/"
const hbAttsFile = hbDir + "signbeaconattestations.go"
const hbMsignFile = hbDir + "multisign.go"
const hbPbModule = "github.com/wealdtech/eth2-signer-api"

type hbAtom struct {
	subject string // canonical Go text of the tested expression
	kind    string // "nil": compared with nil; "empty": compared with ""; "call": a Bool call
	lean    string // the Lean Bool parameter that is true when the subject is nil / empty / the call holds
}

type hbSpec struct {
	tag, file, fn string
	entryName     string
	entryParams   []string
	atoms         []hbAtom
}

var hbCommonAtoms = []hbAtom{
	{"request", "nil", "entryNil"},
	{"request.GetAccount()", "empty", "accountEmpty"},
	{"request.GetPublicKey()", "nil", "keyNil"},
	{"strings.Contains(request.GetAccount(), \"/\")", "call", "nameHasSlash"},
	{"request.GetData()", "nil", "dataNil"},
}

var hbSpecs = map[string]*hbSpec{
	"Atts": {tag: "Atts", file: hbAttsFile, fn: "SignBeaconAttestations", entryName: "attsEntryVerdictGen",
		entryParams: []string{"entryNil", "accountEmpty", "keyNil", "nameHasSlash", "dataNil", "sourceNil", "targetNil"},
		atoms: append(append([]hbAtom{}, hbCommonAtoms...),
			hbAtom{"request.GetData().GetSource()", "nil", "sourceNil"}, hbAtom{"request.GetData().GetTarget()", "nil", "targetNil"})},
	"Msign": {tag: "Msign", file: hbMsignFile, fn: "Multisign", entryName: "msignEntryVerdictGen",
		entryParams: []string{"entryNil", "accountEmpty", "keyNil", "nameHasSlash", "dataNil", "domainNil"},
		atoms:       append(append([]hbAtom{}, hbCommonAtoms...), hbAtom{"request.GetDomain()", "nil", "domainNil"})},
}

// hbPkgs: names the translation interprets; the functions must not rebind them.
var hbPkgs = []string{"pb", "core", "rules", "handlers", "strings", "context", "log", "len", "make", "nil", "true", "false", "string", "byte",
	"error", "iota", "_"}

var hbImports = map[string]string{
	"pb":       hbPbModule + "/pb/v1",
	"core":     "github.com/attestantio/dirk/core",
	"rules":    "github.com/attestantio/dirk/rules",
	"handlers": "github.com/attestantio/dirk/services/api/grpc/handlers",
	"strings":  "strings",
	"context":  "context",
}

var hbRoles = map[string]bool{"h": true, "ctx": true, "req": true, "res": true, "i": true, "request": true, "accountNames": true,
	"pubKeys": true, "reqData": true, "results": true, "signatures": true}

type hbGuard struct {
	cond, state, text string
}

type hbEarly struct {
	cond   string
	states []string
	text   string
}

type hbArm struct {
	vals      []int
	isDefault bool
	state     string // "" = the state is left as it was
	copies    bool
	text      string
}

type hbShape struct {
	sp        *hbSpec
	early     []hbEarly
	init      string
	validate  string
	guards    []hbGuard
	valText   string
	retSet    []string
	arms      []hbArm
	facts     [][2]string
	texts     []string
	armsTexts []string
}

type hb struct {
	k    *ktrans
	sp   *hbSpec
	file *ast.File
	fn   string
	ren  map[string]string // actual identifier ↦ role
}

func (h *hb) fail(n ast.Node, f string, a ...interface{}) {
	where := ""
	if n != nil {
		where = fmt.Sprintf(" at %s line %d: %s", h.fn, fset.Position(n.Pos()).Line, src(n))
	}
	panic(untranslatable(fmt.Sprintf(f, a...) + where + " (" + h.sp.file + ")"))
}

// idents calls f on every identifier of n that is a use or a definition of a variable / package / function name:
// selector fields and the keys of composite literals are skipped.
func hbIdents(n ast.Node, f func(*ast.Ident)) {
	if n == nil {
		return
	}
	ast.Inspect(n, func(m ast.Node) bool {
		switch x := m.(type) {
		case *ast.SelectorExpr:
			hbIdents(x.X, f)
			return false
		case *ast.KeyValueExpr:
			hbIdents(x.Value, f)
			return false
		case *ast.Ident:
			f(x)
		}
		return true
	})
}

// canon prints n with every local printed as its role.
func (h *hb) canon(n ast.Node) string {
	var ids []*ast.Ident
	var old []string
	hbIdents(n, func(id *ast.Ident) {
		r, ok := h.ren[id.Name]
		if ok && r != id.Name {
			ids, old = append(ids, id), append(old, id.Name)
		}
		// an identifier spelled like a role but not bound to it would be printed like the role
		if hbRoles[id.Name] && !(ok && r == id.Name) {
			h.fail(id, "identifier %q is spelled like a role of the translation but is not bound to it", id.Name)
		}
	})
	for _, id := range ids {
		id.Name = h.ren[id.Name]
	}
	s := src(n)
	for i, id := range ids {
		id.Name = old[i]
	}
	// a composite literal written over several lines prints as `{ a, b, }`
	s = strings.ReplaceAll(strings.ReplaceAll(s, ", }", "}"), "{ ", "{")
	return s
}

// bind gives the identifier e a role; the name must be fresh and must not be one the translation interprets.
func (h *hb) bind(e ast.Expr, role string) {
	id, ok := e.(*ast.Ident)
	if !ok {
		h.fail(e, "identifier expected")
	}
	for _, p := range hbPkgs {
		if id.Name == p {
			h.fail(e, "%q is rebound", id.Name)
		}
	}
	if _, dup := h.ren[id.Name]; dup {
		h.fail(e, "%q is bound twice", id.Name)
	}
	for _, d := range h.file.Decls {
		if fd, ok := d.(*ast.FuncDecl); ok && fd.Recv == nil && fd.Name.Name == id.Name {
			h.fail(e, "%q is also a function of the file", id.Name)
		}
	}
	h.ren[id.Name] = role
}

func (h *hb) unbind(role string) {
	for n, r := range h.ren {
		if r == role {
			delete(h.ren, n)
		}
	}
}

// pureArg: what a log call may read — literals, identifiers, fields, len(…), and the generated (nil-safe, effect-free)
// getters of the pb messages req / request / res.
func (h *hb) pureArg(e ast.Expr) bool {
	switch x := e.(type) {
	case *ast.BasicLit, *ast.Ident:
		return true
	case *ast.ParenExpr:
		return h.pureArg(x.X)
	case *ast.SelectorExpr:
		return h.pureArg(x.X)
	case *ast.CallExpr:
		if src(x.Fun) == "len" && len(x.Args) == 1 {
			return h.pureArg(x.Args[0])
		}
		for c := ast.Expr(x); ; {
			call, ok := c.(*ast.CallExpr)
			if !ok {
				id, isID := c.(*ast.Ident)
				r := ""
				if isID {
					r = h.ren[id.Name]
				}
				return r == "req" || r == "request" || r == "res"
			}
			se, ok := call.Fun.(*ast.SelectorExpr)
			if !ok || len(call.Args) != 0 || !strings.HasPrefix(se.Sel.Name, "Get") {
				return false
			}
			c = se.X
		}
	}
	return false
}

// silent: a call chain on the package logger `log` (no Fatal / Panic) all of whose arguments are pure
func (h *hb) silent(st ast.Stmt) bool {
	es, ok := st.(*ast.ExprStmt)
	if !ok {
		return false
	}
	e := es.X
	if _, isCall := e.(*ast.CallExpr); !isCall {
		return false
	}
	for {
		switch x := e.(type) {
		case *ast.CallExpr:
			for _, a := range x.Args {
				if !h.pureArg(a) {
					return false
				}
			}
			e = x.Fun
		case *ast.SelectorExpr:
			if x.Sel.Name == "Fatal" || x.Sel.Name == "Panic" {
				return false
			}
			e = x.X
		case *ast.Ident:
			return x.Name == "log"
		default:
			return false
		}
	}
}

func (h *hb) loud(list []ast.Stmt) (out []ast.Stmt) {
	for _, st := range list {
		if !h.silent(st) {
			out = append(out, st)
		}
	}
	return
}

func (h *hb) is(n ast.Node, want string) bool { return h.canon(n) == want }

func (h *hb) expect(n ast.Node, want string) {
	if got := h.canon(n); got != want {
		h.fail(n, "expected `%s`, found `%s`", want, got)
	}
}

// stateConst: pb.ResponseState_X ↦ "X"
func (h *hb) stateConst(e ast.Expr) string {
	if se, ok := e.(*ast.SelectorExpr); ok {
		if id, ok := se.X.(*ast.Ident); ok && id.Name == "pb" && strings.HasPrefix(se.Sel.Name, "ResponseState_") {
			if n := strings.TrimPrefix(se.Sel.Name, "ResponseState_"); regexp.MustCompile(`^[A-Z]+$`).MatchString(n) {
				return n
			}
		}
	}
	h.fail(e, "a pb.ResponseState_… constant expected")
	return ""
}

// newResponse: &pb.SignResponse{State: pb.ResponseState_X} ↦ "X"
func (h *hb) newResponse(e ast.Expr) string {
	u, ok := e.(*ast.UnaryExpr)
	if ok && u.Op == token.AND {
		if cl, ok := u.X.(*ast.CompositeLit); ok && src(cl.Type) == "pb.SignResponse" && len(cl.Elts) == 1 {
			if kv, ok := cl.Elts[0].(*ast.KeyValueExpr); ok && src(kv.Key) == "State" {
				return h.stateConst(kv.Value)
			}
		}
	}
	h.fail(e, "`&pb.SignResponse{State: pb.ResponseState_…}` expected")
	return ""
}

// respState: the expression reads / names the state of response i (`res.Responses[i].State`, getters read as fields)
func (h *hb) respField(e ast.Expr, field string) bool {
	s := h.canon(e)
	s = strings.ReplaceAll(s, "res.GetResponses()", "res.Responses")
	if field == "State" {
		s = strings.ReplaceAll(s, ".GetState()", ".State")
	}
	return s == "res.Responses[i]."+field
}

func isReturn(st ast.Stmt) (*ast.ReturnStmt, bool) {
	r, ok := st.(*ast.ReturnStmt)
	return r, ok
}

func (h *hb) returnsRes(st ast.Stmt) bool {
	r, ok := isReturn(st)
	return ok && len(r.Results) == 2 && h.is(r.Results[0], "res") && src(r.Results[1]) == "nil"
}

// rangeReq: `for I[, R] := range req.GetRequests()`; binds I (and R) for the duration of the loop
func (h *hb) rangeReq(st ast.Stmt, withEntry bool) *ast.RangeStmt {
	x, ok := st.(*ast.RangeStmt)
	if !ok || x.Tok != token.DEFINE || x.Key == nil || !h.is(x.X, "req.GetRequests()") {
		h.fail(st, "`for … := range req.GetRequests()` expected")
	}
	if withEntry != (x.Value != nil) {
		h.fail(st, "unexpected loop variables")
	}
	h.bind(x.Key, "i")
	if withEntry {
		h.bind(x.Value, "request")
	}
	return x
}

func (h *hb) endLoop() { h.unbind("i"); h.unbind("request") }

const hbLen = "len(req.GetRequests())"

// ---- conditions -------------------------------------------------------------------------------------------

// hbCond: a Lean Bool term with its precedence (3 atom, 2 a chain of &&, 1 a chain of ||)
type hbCond struct {
	s    string
	prec int
}

func (c hbCond) at(p int) string {
	if c.prec < p {
		return "(" + c.s + ")"
	}
	return c.s
}

func hbNot(c hbCond) hbCond {
	if c.prec == 3 && strings.HasPrefix(c.s, "!") {
		return hbCond{c.s[1:], 3}
	}
	return hbCond{"!" + c.at(3), 3}
}

// boolCond translates a Boolean combination of atoms; atom returns ("", false) for an expression it does not know.
func (h *hb) boolCond(e ast.Expr, atom func(ast.Expr) (string, bool)) string {
	return h.boolCondP(e, atom).s
}

func (h *hb) boolCondP(e ast.Expr, atom func(ast.Expr) (string, bool)) hbCond {
	switch x := e.(type) {
	case *ast.ParenExpr:
		return h.boolCondP(x.X, atom)
	case *ast.UnaryExpr:
		if x.Op == token.NOT {
			return hbNot(h.boolCondP(x.X, atom))
		}
	case *ast.BinaryExpr:
		// Lean's && and || are left associative like Go's: the right operand of a chain is parenthesised
		switch x.Op {
		case token.LAND:
			return hbCond{h.boolCondP(x.X, atom).at(2) + " && " + h.boolCondP(x.Y, atom).at(3), 2}
		case token.LOR:
			return hbCond{h.boolCondP(x.X, atom).at(1) + " || " + h.boolCondP(x.Y, atom).at(2), 1}
		}
	}
	if s, ok := atom(e); ok {
		return hbCond{s, 3}
	}
	h.fail(e, "condition outside the fragment")
	return hbCond{}
}

func (h *hb) entryAtom(e ast.Expr) (string, bool) {
	switch x := e.(type) {
	case *ast.CallExpr:
		c := h.canon(x)
		for _, a := range h.sp.atoms {
			if a.kind == "call" && a.subject == c {
				return a.lean, true
			}
		}
	case *ast.BinaryExpr:
		if x.Op != token.EQL && x.Op != token.NEQ {
			return "", false
		}
		subj, other := x.X, x.Y
		if s := src(subj); s == "nil" || s == `""` {
			subj, other = other, subj
		}
		kind := map[string]string{"nil": "nil", `""`: "empty"}[src(other)]
		c := h.canon(subj)
		for _, a := range h.sp.atoms {
			if a.kind == kind && a.subject == c {
				if x.Op == token.NEQ {
					return "!" + a.lean, true
				}
				return a.lean, true
			}
		}
	}
	return "", false
}

func (h *hb) earlyAtom(e ast.Expr) (string, bool) {
	x, ok := e.(*ast.BinaryExpr)
	if !ok {
		return "", false
	}
	l, r := h.canon(x.X), src(x.Y)
	switch {
	case l == "req" && r == "nil" && x.Op == token.EQL:
		return "reqNil", true
	case l == "req" && r == "nil" && x.Op == token.NEQ:
		return "!reqNil", true
	case l == hbLen && r == "0" && x.Op == token.EQL:
		return "(n == 0)", true
	case l == hbLen && r == "0" && (x.Op == token.NEQ || x.Op == token.GTR):
		return "!(n == 0)", true
	}
	return "", false
}

// ---- the validation function ----------------------------------------------------------------------------------

func (h *hb) validation(name string, sh *hbShape) {
	fd := funcDecl(h.file, name)
	if fd == nil || fd.Body == nil || fd.Recv != nil {
		h.fail(nil, "validation function %s not found in the handler's file", name)
	}
	v := &hb{k: h.k, sp: h.sp, file: h.file, fn: name, ren: map[string]string{}}
	ps := flatFields(fd.Type.Params)
	if len(ps) != 3 || src(ps[0].typ) != "context.Context" || !strings.HasPrefix(src(ps[1].typ), "*pb.") || src(ps[2].typ) != "*pb.MultisignResponse" ||
		(fd.Type.Results != nil && len(fd.Type.Results.List) != 0) {
		v.fail(nil, "%s is not `func(context.Context, *pb.…Request, *pb.MultisignResponse)`", name)
	}
	if ps[0].name != nil && ps[0].name.Name != "_" {
		v.bind(ps[0].name, "ctx")
	}
	if ps[1].name == nil || ps[2].name == nil {
		v.fail(nil, "unnamed parameters")
	}
	v.bind(ps[1].name, "req")
	v.bind(ps[2].name, "res")
	body := v.loud(fd.Body.List)
	if len(body) != 1 {
		v.fail(nil, "the body of %s is not one loop over the entries", name)
	}
	loop := v.rangeReq(body[0], true)
	var parts []string
	for _, st := range v.loud(loop.Body.List) {
		x, ok := st.(*ast.IfStmt)
		if !ok || x.Init != nil || x.Else != nil {
			v.fail(st, "statement of the validation loop that is not a plain `if`")
		}
		cond := v.boolCond(x.Cond, v.entryAtom)
		blk := v.loud(x.Body.List)
		if len(blk) != 2 {
			v.fail(x, "a guard of the validation loop must write one state and return")
		}
		as, ok := blk[0].(*ast.AssignStmt)
		if !ok || as.Tok != token.ASSIGN || len(as.Lhs) != 1 || len(as.Rhs) != 1 || !v.respField(as.Lhs[0], "State") {
			v.fail(blk[0], "`res.Responses[i].State = pb.ResponseState_…` expected")
		}
		state := v.stateConst(as.Rhs[0])
		if r, ok := isReturn(blk[1]); !ok || len(r.Results) != 0 {
			v.fail(blk[1], "a guard of the validation loop must RETURN after writing its state (the validation stops at the first bad entry)")
		}
		text := fmt.Sprintf("if %s { res.Responses[i].State = pb.ResponseState_%s; return }", v.canon(x.Cond), state)
		sh.guards = append(sh.guards, hbGuard{cond, state, text})
		parts = append(parts, text)
	}
	if len(sh.guards) == 0 {
		v.fail(loop, "validation loop without guards")
	}
	sh.valText = "for i, request := range req.GetRequests() { " + strings.Join(parts, "; ") + " }"
	v.endLoop()
}

type hbField struct {
	name *ast.Ident
	typ  ast.Expr
}

func flatFields(fl *ast.FieldList) (out []hbField) {
	if fl == nil {
		return
	}
	for _, f := range fl.List {
		if len(f.Names) == 0 {
			out = append(out, hbField{nil, f.Type})
		}
		for _, n := range f.Names {
			out = append(out, hbField{n, f.Type})
		}
	}
	return
}

// ---- the handler ------------------------------------------------------------------------------------------------

// getterChain: request.GetA().GetB()…  (nil-safe generated getters: no effect, no panic)
func (h *hb) getterChain(e ast.Expr) bool {
	for {
		c, ok := e.(*ast.CallExpr)
		if !ok || len(c.Args) != 0 {
			return h.is(e, "request")
		}
		se, ok := c.Fun.(*ast.SelectorExpr)
		if !ok || !strings.HasPrefix(se.Sel.Name, "Get") {
			return false
		}
		e = se.X
	}
}

// dataLit: &rules.T{ F: <getter chain> | &rules.U{…}, … }
func (h *hb) dataLit(e ast.Expr) bool {
	u, ok := e.(*ast.UnaryExpr)
	if !ok || u.Op != token.AND {
		return false
	}
	cl, ok := u.X.(*ast.CompositeLit)
	if !ok || !strings.HasPrefix(src(cl.Type), "rules.") {
		return false
	}
	for _, el := range cl.Elts {
		kv, ok := el.(*ast.KeyValueExpr)
		if !ok {
			return false
		}
		if _, ok := kv.Key.(*ast.Ident); !ok {
			return false
		}
		if !h.getterChain(kv.Value) && !h.dataLit(kv.Value) {
			return false
		}
	}
	return true
}

func hbRecognise(k *ktrans, sp *hbSpec) *hbShape {
	f := parse(filepath.Join(k.repo, sp.file))
	h := &hb{k: k, sp: sp, file: f, fn: sp.fn, ren: map[string]string{}}
	fd := funcDecl(f, sp.fn)
	if fd == nil || fd.Body == nil {
		h.fail(nil, "function %s not found", sp.fn)
	}
	// imports
	got := map[string]string{}
	for _, im := range f.Imports {
		p, _ := strconv.Unquote(im.Path.Value)
		n := p[strings.LastIndex(p, "/")+1:]
		if im.Name != nil {
			n = im.Name.Name
		}
		got[n] = p
	}
	for n, p := range hbImports {
		if g, ok := got[n]; ok && g != p {
			h.fail(nil, "package name %s is not %s", n, p)
		}
	}
	for n := range got {
		if _, ok := hbImports[n]; !ok {
			h.fail(nil, "import %s is not one the translation knows", n)
		}
	}
	for _, d := range f.Decls {
		if gd, ok := d.(*ast.GenDecl); ok && gd.Tok != token.IMPORT {
			h.fail(gd, "package-level declaration in the handler's file")
		}
	}
	if fd.Recv == nil || len(fd.Recv.List) != 1 || len(fd.Recv.List[0].Names) != 1 || src(fd.Recv.List[0].Type) != "*Handler" {
		h.fail(nil, "%s is not a method of *Handler", sp.fn)
	}
	ps, rs := flatFields(fd.Type.Params), flatFields(fd.Type.Results)
	if len(ps) != 2 || src(ps[0].typ) != "context.Context" || !strings.HasPrefix(src(ps[1].typ), "*pb.") || ps[0].name == nil || ps[1].name == nil ||
		len(rs) != 2 || rs[0].name != nil || src(rs[0].typ) != "*pb.MultisignResponse" || src(rs[1].typ) != "error" {
		h.fail(nil, "%s is not `func(context.Context, *pb.…Request) (*pb.MultisignResponse, error)`", sp.fn)
	}
	h.bind(fd.Recv.List[0].Names[0], "h")
	h.bind(ps[0].name, "ctx")
	h.bind(ps[1].name, "req")

	sh := &hbShape{sp: sp}
	body := h.loud(fd.Body.List)
	pos := 0
	next := func(what string) ast.Stmt {
		if pos >= len(body) {
			h.fail(nil, "the handler ends where %s is expected", what)
		}
		pos++
		return body[pos-1]
	}
	text := func(s string) { sh.texts = append(sh.texts, s) }
	fact := func(k, v string) { sh.facts = append(sh.facts, [2]string{k, v}) }

	// res := &pb.MultisignResponse{}
	st := next("the creation of the response")
	as, ok := st.(*ast.AssignStmt)
	if !ok || as.Tok != token.DEFINE || len(as.Lhs) != 1 || len(as.Rhs) != 1 || src(as.Rhs[0]) != "&pb.MultisignResponse{}" {
		h.fail(st, "`res := &pb.MultisignResponse{}` expected")
	}
	h.bind(as.Lhs[0], "res")
	text(h.canon(st))

	// early exits
	for pos < len(body) {
		x, ok := body[pos].(*ast.IfStmt)
		if !ok {
			break
		}
		pos++
		if x.Init != nil || x.Else != nil {
			h.fail(x, "early exit with init / else")
		}
		cond := h.boolCond(x.Cond, h.earlyAtom)
		blk := h.loud(x.Body.List)
		if len(blk) == 0 || !h.returnsRes(blk[len(blk)-1]) {
			h.fail(x, "an early exit must end in `return res, nil`")
		}
		blk = blk[:len(blk)-1]
		var states []string
		if len(blk) > 0 {
			mk, ok := blk[0].(*ast.AssignStmt)
			var size int
			if ok && mk.Tok == token.ASSIGN && len(mk.Lhs) == 1 && len(mk.Rhs) == 1 && h.is(mk.Lhs[0], "res.Responses") {
				if c, isCall := mk.Rhs[0].(*ast.CallExpr); isCall && len(c.Args) == 2 && src(c.Fun) == "make" && src(c.Args[0]) == "[]*pb.SignResponse" {
					if n, err := strconv.Atoi(src(c.Args[1])); err == nil && n >= 0 && n < 64 {
						size, ok = n, true
					} else {
						ok = false
					}
				} else {
					ok = false
				}
			} else {
				ok = false
			}
			if !ok {
				h.fail(blk[0], "`res.Responses = make([]*pb.SignResponse, <literal>)` expected")
			}
			states = make([]string, size)
			for _, s := range blk[1:] {
				a, ok := s.(*ast.AssignStmt)
				if !ok || a.Tok != token.ASSIGN || len(a.Lhs) != 1 || len(a.Rhs) != 1 {
					h.fail(s, "statement of an early exit outside the fragment")
				}
				ix, ok := a.Lhs[0].(*ast.IndexExpr)
				if !ok || !h.is(ix.X, "res.Responses") {
					h.fail(s, "`res.Responses[<literal>] = …` expected")
				}
				j, err := strconv.Atoi(src(ix.Index))
				if err != nil || j < 0 || j >= size || states[j] != "" {
					h.fail(s, "index outside the slice, or written twice")
				}
				states[j] = h.newResponse(a.Rhs[0])
			}
			for j, s := range states {
				if s == "" {
					h.fail(x, "response %d of an early exit is left nil", j)
				}
			}
		}
		var parts []string
		for _, s := range blk {
			parts = append(parts, h.canon(s))
		}
		parts = append(parts, "return res, nil")
		t := "if " + h.canon(x.Cond) + " { " + strings.Join(parts, "; ") + " }"
		sh.early = append(sh.early, hbEarly{cond, states, t})
		text(t)
	}

	// res.Responses = make([]*pb.SignResponse, len(req.GetRequests()))
	st = next("the creation of the responses")
	mkText := "res.Responses = make([]*pb.SignResponse, " + hbLen + ")"
	h.expect(st, mkText)
	text(mkText)
	// for i := range req.GetRequests() { res.Responses[i] = &pb.SignResponse{State: pb.ResponseState_X} }
	st = next("the loop filling the responses")
	loop := h.rangeReq(st, false)
	fill := h.loud(loop.Body.List)
	if len(fill) != 1 {
		h.fail(st, "the loop filling the responses must have one statement")
	}
	fa, ok := fill[0].(*ast.AssignStmt)
	if !ok || fa.Tok != token.ASSIGN || len(fa.Lhs) != 1 || len(fa.Rhs) != 1 || !h.is(fa.Lhs[0], "res.Responses[i]") {
		h.fail(fill[0], "`res.Responses[i] = &pb.SignResponse{…}` expected")
	}
	sh.init = h.newResponse(fa.Rhs[0])
	fillText := "for i := range req.GetRequests() { " + h.canon(fill[0]) + " }"
	h.endLoop()
	text(fillText)
	fact("responses", mkText+"; "+fillText)

	// V(ctx, req, res)
	st = next("the call of the validation")
	es, ok := st.(*ast.ExprStmt)
	var call *ast.CallExpr
	if ok {
		call, ok = es.X.(*ast.CallExpr)
	}
	if ok {
		_, ok = call.Fun.(*ast.Ident)
	}
	if !ok || len(call.Args) != 3 || !h.is(call.Args[0], "ctx") || !h.is(call.Args[1], "req") || !h.is(call.Args[2], "res") {
		h.fail(st, "`<validation function>(ctx, req, res)` expected")
	}
	sh.validate = call.Fun.(*ast.Ident).Name
	if _, bound := h.ren[sh.validate]; bound {
		h.fail(st, "the validation function's name is a local")
	}
	h.validation(sh.validate, sh)
	text(sh.validate + "(ctx, req, res)")
	text(sh.validate + ": " + sh.valText)

	// for i := range req.GetRequests() { if res.Responses[i].State == X || … { return res, nil } }
	st = next("the early-return loop")
	loop = h.rangeReq(st, false)
	lb := h.loud(loop.Body.List)
	var rif *ast.IfStmt
	if len(lb) == 1 {
		rif, _ = lb[0].(*ast.IfStmt)
	}
	if rif == nil || rif.Init != nil || rif.Else != nil {
		h.fail(st, "the early-return loop must consist of one `if`")
	}
	if rb := h.loud(rif.Body.List); len(rb) != 1 || !h.returnsRes(rb[0]) {
		h.fail(rif, "the early-return test must `return res, nil`")
	}
	var walkOr func(e ast.Expr)
	walkOr = func(e ast.Expr) {
		switch x := e.(type) {
		case *ast.ParenExpr:
			walkOr(x.X)
			return
		case *ast.BinaryExpr:
			if x.Op == token.LOR {
				walkOr(x.X)
				walkOr(x.Y)
				return
			}
			if x.Op == token.EQL && h.respField(x.X, "State") {
				sh.retSet = append(sh.retSet, h.stateConst(x.Y))
				return
			}
		}
		h.fail(e, "early-return test outside the fragment (`res.Responses[i].State == pb.ResponseState_…` joined by ||)")
	}
	walkOr(rif.Cond)
	var tests []string
	for _, s := range sh.retSet {
		tests = append(tests, "res.Responses[i].State == pb.ResponseState_"+s)
	}
	earlyText := "for i := range req.GetRequests() { if " + strings.Join(tests, " || ") + " { return res, nil } }"
	h.endLoop()
	text(earlyText)
	fact("validation", sh.validate+"(ctx, req, res) is called after the responses are created and before the signer")
	fact("early return", earlyText)

	// the three slices
	type slice struct {
		id   *ast.Ident
		typ  string
		text string
	}
	var slices []slice
	for i := 0; i < 3; i++ {
		st = next("the creation of the signer's arguments")
		a, ok := st.(*ast.AssignStmt)
		if !ok || a.Tok != token.DEFINE || len(a.Lhs) != 1 || len(a.Rhs) != 1 {
			h.fail(st, "`X := make([]T, len(req.GetRequests()))` expected")
		}
		c, ok := a.Rhs[0].(*ast.CallExpr)
		if !ok || src(c.Fun) != "make" || len(c.Args) != 2 || !h.is(c.Args[1], hbLen) {
			h.fail(st, "`X := make([]T, len(req.GetRequests()))` expected")
		}
		id, ok := a.Lhs[0].(*ast.Ident)
		if !ok {
			h.fail(st, "identifier expected")
		}
		h.bind(id, fmt.Sprintf("slice#%d", i))
		slices = append(slices, slice{id, src(c.Args[0]), "make(" + src(c.Args[0]) + ", " + hbLen + ")"})
	}
	// the build loop
	st = next("the loop building the signer's arguments")
	loop = h.rangeReq(st, true)
	bl := h.loud(loop.Body.List)
	if len(bl) != 3 {
		h.fail(st, "the loop building the signer's arguments must have three assignments")
	}
	roleOf := map[string]string{}
	var dataText, dataType string
	for _, s := range bl {
		a, ok := s.(*ast.AssignStmt)
		if !ok || a.Tok != token.ASSIGN || len(a.Lhs) != 1 || len(a.Rhs) != 1 {
			h.fail(s, "assignment expected")
		}
		ix, ok := a.Lhs[0].(*ast.IndexExpr)
		if !ok || !h.is(ix.Index, "i") {
			h.fail(s, "`X[i] = …` expected")
		}
		id, ok := ix.X.(*ast.Ident)
		if ok {
			ok = strings.HasPrefix(h.ren[id.Name], "slice#")
		}
		if !ok {
			h.fail(s, "`X[i] = …` expected")
		}
		var role, wantType string
		switch {
		case h.is(a.Rhs[0], "request.GetAccount()"):
			role, wantType = "accountNames", "[]string"
		case h.is(a.Rhs[0], "request.GetPublicKey()"):
			role, wantType = "pubKeys", "[][]byte"
		case h.dataLit(a.Rhs[0]):
			role = "reqData"
			dataType = src(a.Rhs[0].(*ast.UnaryExpr).X.(*ast.CompositeLit).Type)
			wantType = "[]*" + dataType
			dataText = h.canon(a.Rhs[0])
		default:
			h.fail(s, "value outside the fragment")
		}
		found := false
		for _, sl := range slices {
			if sl.id.Name == id.Name && sl.typ == wantType {
				found = true
			}
		}
		if _, dup := roleOf[role]; dup || !found {
			h.fail(s, "the slice assigned is not one of the three created above (with the matching type), or is assigned twice")
		}
		roleOf[role] = id.Name
	}
	h.endLoop()
	for i := range slices {
		h.unbind(fmt.Sprintf("slice#%d", i))
	}
	for _, sl := range slices {
		for r, n := range roleOf {
			if n == sl.id.Name {
				h.bind(sl.id, r)
				text(r + " := " + sl.text)
			}
		}
	}
	if len(roleOf) != 3 || len(h.ren) != 7 {
		h.fail(st, "the three slices are not assigned one each")
	}
	text("for i, request := range req.GetRequests() { accountNames[i] = request.GetAccount(); pubKeys[i] = request.GetPublicKey(); reqData[i] = " + dataText + " }")
	fact("accountNames", "accountNames := make([]string, "+hbLen+"); for i, request := range req.GetRequests(): accountNames[i] = request.GetAccount()")
	fact("pubKeys", "pubKeys := make([][]byte, "+hbLen+"); for i, request := range req.GetRequests(): pubKeys[i] = request.GetPublicKey()")
	fact("reqData", "reqData := make([]*"+dataType+", "+hbLen+"); for i, request := range req.GetRequests(): reqData[i] = "+dataText)

	// results, signatures := h.signer.M(ctx, handlers.GenerateCredentials(ctx), accountNames, pubKeys, reqData)
	st = next("the signer call")
	sa, ok := st.(*ast.AssignStmt)
	if !ok || sa.Tok != token.DEFINE || len(sa.Lhs) != 2 || len(sa.Rhs) != 1 {
		h.fail(st, "`results, signatures := h.signer.…(…)` expected")
	}
	sc, ok := sa.Rhs[0].(*ast.CallExpr)
	if !ok {
		h.fail(st, "`results, signatures := h.signer.…(…)` expected")
	}
	se, ok := sc.Fun.(*ast.SelectorExpr)
	if !ok || !h.is(se.X, "h.signer") {
		h.fail(st, "`h.signer.…(…)` expected")
	}
	h.bind(sa.Lhs[0], "results")
	h.bind(sa.Lhs[1], "signatures")
	callText := "results, signatures := h.signer." + se.Sel.Name + "(ctx, handlers.GenerateCredentials(ctx), accountNames, pubKeys, reqData)"
	h.expect(st, callText)
	text(callText)
	fact("signer call", callText+" (the only call of the signer, after the early-return loop)")

	// for i := range results { switch results[i] { … } }
	st = next("the loop over the results")
	rl, ok := st.(*ast.RangeStmt)
	if !ok || rl.Tok != token.DEFINE || rl.Key == nil || rl.Value != nil || !h.is(rl.X, "results") {
		h.fail(st, "`for i := range results` expected")
	}
	h.bind(rl.Key, "i")
	rb := h.loud(rl.Body.List)
	var sw *ast.SwitchStmt
	if len(rb) == 1 {
		sw, _ = rb[0].(*ast.SwitchStmt)
	}
	if sw == nil || sw.Init != nil || sw.Tag == nil || !h.is(sw.Tag, "results[i]") {
		h.fail(st, "the loop over the results must consist of `switch results[i] { … }`")
	}
	core, cfail := enumValues(k.repo, coreResultFile, "Result")
	if cfail != "" {
		h.fail(nil, "core.Result: %s", cfail)
	}
	seen := map[int]bool{}
	for _, cs := range sw.Body.List {
		cc := cs.(*ast.CaseClause)
		arm := hbArm{isDefault: cc.List == nil}
		var names []string
		for _, e := range cc.List {
			sel, ok := e.(*ast.SelectorExpr)
			if !ok || src(sel.X) != "core" {
				h.fail(e, "case value that is not a core.Result enumerator")
			}
			v, ok := enumLookup(core, sel.Sel.Name)
			if !ok || seen[v] {
				h.fail(e, "unknown or repeated core.Result enumerator")
			}
			seen[v] = true
			arm.vals = append(arm.vals, v)
			names = append(names, "core."+sel.Sel.Name)
		}
		var parts []string
		for _, s := range h.loud(cc.Body) {
			a, ok := s.(*ast.AssignStmt)
			if !ok || a.Tok != token.ASSIGN || len(a.Lhs) != 1 || len(a.Rhs) != 1 {
				h.fail(s, "statement of a switch arm outside the fragment")
			}
			switch {
			case h.respField(a.Lhs[0], "State") && arm.state == "":
				arm.state = h.stateConst(a.Rhs[0])
				parts = append(parts, "res.Responses[i].State = pb.ResponseState_"+arm.state)
			case h.respField(a.Lhs[0], "Signature") && !arm.copies && h.is(a.Rhs[0], "signatures[i]"):
				arm.copies = true
				parts = append(parts, "res.Responses[i].Signature = signatures[i]")
			default:
				h.fail(s, "statement of a switch arm outside the fragment (one state, one `res.Responses[i].Signature = signatures[i]`)")
			}
		}
		head := "default:"
		if !arm.isDefault {
			head = "case " + strings.Join(names, ", ") + ":"
		}
		arm.text = strings.TrimSpace(head + " " + strings.Join(parts, "; "))
		sh.arms = append(sh.arms, arm)
		sh.armsTexts = append(sh.armsTexts, arm.text)
	}
	h.unbind("i")
	text("for i := range results { switch results[i] { " + strings.Join(sh.armsTexts, " ") + " } }")
	fact("result loop", "for i := range results { switch results[i] { … } }: response i takes the state and the signature the arm of results[i] gives it")

	st = next("the final return")
	if !h.returnsRes(st) || pos != len(body) {
		h.fail(st, "`return res, nil` expected as the last statement")
	}
	text("return res, nil")
	fact("return", "return res, nil")
	return sh
}

// ---- emission ---------------------------------------------------------------------------------------------------

func hbShapeOf(k *ktrans, tag string) *hbShape { return hbRecognise(k, hbSpecs[tag]) }

func guardList(b *strings.Builder, name, of string, texts []string) {
	fmt.Fprintf(b, "/-- the statements of %s the definitions above were translated from, locals printed as their roles, in order -/\ndef %s : List String := [\n", of, name)
	for i, t := range texts {
		sep := ","
		if i == len(texts)-1 {
			sep = ""
		}
		fmt.Fprintf(b, "  %s%s\n", leanStr(t), sep)
	}
	b.WriteString("]\n")
}

func transEntryVerdict(k *ktrans, _ *ast.FuncDecl) string {
	tag := "Atts"
	if k.spec.name == "msignEntryVerdictGen" {
		tag = "Msign"
	}
	sh := hbShapeOf(k, tag)
	var b strings.Builder
	fmt.Fprintf(&b, "/-- `%s` (%s), the function `%s` calls on the request: the guards of its loop `for i, request := range req.GetRequests()`\n"+
		"    applied to ONE entry, in source order.  `some s`: the guard writes `pb.ResponseState_s` into `res.Responses[i].State` and the function\n"+
		"    RETURNS (later entries are not looked at); `none`: the entry passes every guard.  Inputs: ", sh.validate, sh.sp.file, sh.sp.fn)
	var docs []string
	for _, a := range sh.sp.atoms {
		switch a.kind {
		case "nil":
			docs = append(docs, fmt.Sprintf("%s: `%s == nil`", a.lean, a.subject))
		case "empty":
			docs = append(docs, fmt.Sprintf("%s: `%s == \"\"`", a.lean, a.subject))
		default:
			docs = append(docs, fmt.Sprintf("%s: `%s`", a.lean, a.subject))
		}
	}
	fmt.Fprintf(&b, "%s\n    (generated getters: nil-safe); model counterpart: `%s`. -/\n", strings.Join(docs, "; "), k.spec.model)
	fmt.Fprintf(&b, "def %s (%s : Bool) : Option String :=\n", k.spec.name, strings.Join(sh.sp.entryParams, " "))
	for i, g := range sh.guards {
		kw := "  else if"
		if i == 0 {
			kw = "  if"
		}
		fmt.Fprintf(&b, "%s %s then some %s\n", kw, g.cond, leanStr(g.state))
	}
	b.WriteString("  else none\n\n")
	var texts []string
	for _, g := range sh.guards {
		texts = append(texts, g.text)
	}
	guardList(&b, k.spec.guards, "`"+sh.validate+"`'s loop", texts)
	return b.String()
}

// both: the two handlers' readings of one part; equal ⇒ one shared definition.
func hbBoth(k *ktrans) (a, m *hbShape) { return hbShapeOf(k, "Atts"), hbShapeOf(k, "Msign") }

func earlyBody(sh *hbShape) string {
	var b strings.Builder
	for i, e := range sh.early {
		kw := "  else if"
		if i == 0 {
			kw = "  if"
		}
		fmt.Fprintf(&b, "%s %s then some %s\n", kw, e.cond, leanList(e.states))
	}
	if len(sh.early) == 0 {
		return "  none\n"
	}
	b.WriteString("  else none\n")
	return b.String()
}

func afterBody(sh *hbShape) string {
	var tests []string
	for _, s := range sh.retSet {
		tests = append(tests, "s == "+leanStr(s))
	}
	init := leanStr(sh.init)
	return fmt.Sprintf("  let responses := match firstBad with\n    | some (i, v) => (List.replicate n %s).set i v\n    | none => List.replicate n %s\n"+
		"  if responses.any (fun s => %s) then some responses else none\n", init, init, strings.Join(tests, " || "))
}

// switchBody: the final switch as a function of the core.Result VALUE; an error text if a response can enter the switch in a
// state other than the initial one (then "the state is left as it was" is not a function of the result alone).
func switchBody(sh *hbShape) (string, string) {
	ret := map[string]bool{}
	for _, s := range sh.retSet {
		ret[s] = true
	}
	for _, g := range sh.guards {
		if !ret[g.state] && g.state != sh.init {
			return "", fmt.Sprintf("the validation of %s can write %s, which the early-return test does not catch: a response can enter the final switch in a state other than the initial one", sh.sp.fn, g.state)
		}
	}
	leaf := func(a hbArm) string {
		s := a.state
		if s == "" {
			s = sh.init
		}
		return fmt.Sprintf("(%s, %v)", leanStr(s), a.copies)
	}
	var b strings.Builder
	def := hbArm{}
	first := true
	for _, a := range sh.arms {
		if a.isDefault {
			def = a
			continue
		}
		var cs []string
		for _, v := range a.vals {
			cs = append(cs, fmt.Sprintf("coreResult = %d", v))
		}
		kw := "  else if"
		if first {
			kw, first = "  if", false
		}
		fmt.Fprintf(&b, "%s %s then %s\n", kw, strings.Join(cs, " ∨ "), leaf(a))
	}
	if first {
		return "  " + leaf(def) + "\n", ""
	}
	fmt.Fprintf(&b, "  else %s\n", leaf(def))
	return b.String(), ""
}

// shared emits `def <name> <sig> :=` once when both handlers give the same body, `<name minus Gen>AttsGen` / `…MsignGen` otherwise.
func shared(b *strings.Builder, name, sig, doc, bodyA, bodyM, identical string) {
	if bodyA == bodyM {
		fmt.Fprintf(b, "/-- %s\n    (`SignBeaconAttestations` and `Multisign` give the same definition: %s) -/\ndef %s %s :=\n%s\n", doc, identical, name, sig, bodyA)
		fmt.Fprintf(b, "/-- … the two handlers were translated separately and the results are textually identical -/\ndef %sSameInBothGen : Bool := true\n\n", strings.TrimSuffix(name, "Gen"))
		return
	}
	base := strings.TrimSuffix(name, "Gen")
	fmt.Fprintf(b, "/-- %s\n    (`SignBeaconAttestations`; `Multisign` DIFFERS, so there is no shared `%s`) -/\ndef %sAttsGen %s :=\n%s\n", doc, name, base, sig, bodyA)
	fmt.Fprintf(b, "/-- … `Multisign` -/\ndef %sMsignGen %s :=\n%s\n", base, sig, bodyM)
	fmt.Fprintf(b, "def %sSameInBothGen : Bool := false\n\n", base)
}

func prefixed(tag string, texts []string) (out []string) {
	for _, t := range texts {
		out = append(out, tag+": "+t)
	}
	return
}

func transBatchEarly(k *ktrans, _ *ast.FuncDecl) string {
	a, m := hbBoth(k)
	var b strings.Builder
	b.WriteString(pbStates(k))
	b.WriteString("/-- (fixed text, not translated from any source) what a Go loop `for i, e := range xs { if C₁(e) { r[i].State = v₁; return }; …; if Cₘ(e) { r[i].State = vₘ; return } }`\n" +
		"    does, given for every entry IN ORDER the verdict of its guards (`some v`: a guard holds, the first that does writes v; `none`: no guard\n" +
		"    holds): it stops at the FIRST entry whose verdict is `some v`, having written v at that index and nothing anywhere else. -/\n" +
		"def firstBadGen : List (Option String) → Option (Nat × String)\n  | [] => none\n  | some v :: _ => some (0, v)\n  | none :: rest => (firstBadGen rest).map (fun p => (p.1 + 1, p.2))\n\n")
	shared(&b, k.spec.name, "(reqNil : Bool) (n : Nat) : Option (List String)",
		"the handlers' exits before any per-entry response exists, in source order: `some l` = the states of the responses returned, `none` = the handler goes on.\n"+
			"    reqNil: `req == nil`; n: `len(req.GetRequests())` (0 for a nil request: the getter is nil-safe); model counterpart: `"+k.spec.model+"`.",
		earlyBody(a), earlyBody(m), "the `if`s before `res.Responses = make(…, len(req.GetRequests()))`")
	var texts []string
	for _, e := range a.early {
		texts = append(texts, "SignBeaconAttestations: "+e.text)
	}
	for _, e := range m.early {
		texts = append(texts, "Multisign: "+e.text)
	}
	guardList(&b, k.spec.guards, "the two handlers", texts)
	return b.String()
}

func transBatchAfterValidate(k *ktrans, _ *ast.FuncDecl) string {
	a, m := hbBoth(k)
	var b strings.Builder
	shared(&b, k.spec.name, "(n : Nat) (firstBad : Option (Nat × String)) : Option (List String)",
		"what the handlers return right after the validation: the n = `len(req.GetRequests())` responses are created in the state shown by `List.replicate`,\n"+
			"    the validation writes at most one of them — firstBad = `some (i, v)`: it stopped at entry i and wrote v there, CONTRACT: i is the least index < n whose\n"+
			"    entry verdict (`attsEntryVerdictGen` / `msignEntryVerdictGen`) is `some v`, i.e. `firstBadGen` of the entries' verdicts; `none`: every entry passed —\n"+
			"    and the loop after it returns the responses as soon as ONE of them is in a state of the test shown; `none`: it does not, the signer is called;\n    model counterpart: `"+k.spec.model+"`.",
		afterBody(a), afterBody(m), "creation state, early-return test")
	guardList(&b, k.spec.guards, "the two handlers",
		append(prefixed("SignBeaconAttestations", a.texts[len(a.early)+1:len(a.early)+6]), prefixed("Multisign", m.texts[len(m.early)+1:len(m.early)+6])...))
	return b.String()
}

func transResultToState(k *ktrans, _ *ast.FuncDecl) string {
	a, m := hbBoth(k)
	ba, fa := switchBody(a)
	bm, fm := switchBody(m)
	if fa != "" {
		k.fail(nil, "%s", fa)
	}
	if fm != "" {
		k.fail(nil, "%s", fm)
	}
	var b strings.Builder
	shared(&b, k.spec.name, "(coreResult : Nat) : String × Bool",
		"the `switch results[i]` that ends the handlers, arm by arm in source order, on `core.Result` VALUES (`coreResultValuesGen`): the state response i ends in and whether\n"+
			"    `res.Responses[i].Signature = signatures[i]` is executed.  A value no arm names (last line) leaves the response as it was created — every response is still in\n"+
			"    its creation state when the signer is called, every state the validation writes being caught by the early-return test; model counterpart: `"+k.spec.model+"`.",
		ba, bm, "arms, states, signature copies")
	guardList(&b, k.spec.guards, "the two handlers", append(prefixed("SignBeaconAttestations", a.armsTexts), prefixed("Multisign", m.armsTexts)...))
	return b.String()
}

func transHandlerShape(k *ktrans, _ *ast.FuncDecl) string {
	a, m := hbBoth(k)
	var facts []string
	if len(a.facts) != len(m.facts) {
		k.fail(nil, "the two handlers give different numbers of facts")
	}
	for i := range a.facts {
		if a.facts[i][0] != m.facts[i][0] {
			k.fail(nil, "the two handlers' facts are not aligned")
		}
		if a.facts[i][1] == m.facts[i][1] {
			facts = append(facts, a.facts[i][0]+": "+a.facts[i][1])
		} else {
			facts = append(facts, a.facts[i][0]+" [SignBeaconAttestations]: "+a.facts[i][1], a.facts[i][0]+" [Multisign]: "+m.facts[i][1])
		}
	}
	var b strings.Builder
	fmt.Fprintf(&b, "/-- `SignBeaconAttestations` and `Multisign` (%s*.go), canonical facts about the batch path, locals printed as their roles; a fact that reads the same\n"+
		"    in both handlers is listed once, the others once per handler.  The handlers' bodies consist of exactly the statements of `%s` (and log calls); model counterpart: `%s`. -/\n",
		hbDir, k.spec.guards, k.spec.model)
	fmt.Fprintf(&b, "def %s : List String := [\n", k.spec.name)
	for i, f := range facts {
		sep := ","
		if i == len(facts)-1 {
			sep = ""
		}
		fmt.Fprintf(&b, "  %s%s\n", leanStr(f), sep)
	}
	b.WriteString("]\n\n")
	guardList(&b, k.spec.guards, "the two handlers", append(prefixed("SignBeaconAttestations", a.texts), prefixed("Multisign", m.texts)...))
	return b.String()
}

// ---- pb.ResponseState values --------------------------------------------------------------------------------------

// pbStates: the enumerators of pb.ResponseState with their values, read from responsestate.pb.go of the module version go.mod
// requires, if that module can be found (vendor directory, $GOMODCACHE, $GOPATH/pkg/mod, ~/go/pkg/mod); `none` otherwise.
func pbStates(k *ktrans) string {
	version := ""
	if gm, err := os.ReadFile(filepath.Join(k.repo, "go.mod")); err == nil {
		if m := regexp.MustCompile(`(?m)^\s*` + regexp.QuoteMeta(hbPbModule) + `\s+(v[^\s]+)`).FindSubmatch(gm); m != nil {
			version = string(m[1])
		}
	}
	var dirs []string
	dirs = append(dirs, filepath.Join(k.repo, "vendor", hbPbModule, "pb", "v1"))
	if version != "" {
		var roots []string
		if c := os.Getenv("GOMODCACHE"); c != "" {
			roots = append(roots, c)
		}
		for _, gp := range filepath.SplitList(os.Getenv("GOPATH")) {
			roots = append(roots, filepath.Join(gp, "pkg", "mod"))
		}
		if home, err := os.UserHomeDir(); err == nil {
			roots = append(roots, filepath.Join(home, "go", "pkg", "mod"))
		}
		for _, r := range roots {
			dirs = append(dirs, filepath.Join(r, hbPbModule+"@"+version, "pb", "v1"))
		}
	}
	for _, d := range dirs {
		if _, err := os.Stat(filepath.Join(d, "responsestate.pb.go")); err != nil {
			continue
		}
		vals, fail := enumValues(d, "responsestate.pb.go", "ResponseState")
		if fail != "" {
			continue
		}
		for i := range vals {
			vals[i].name = strings.TrimPrefix(vals[i].name, "ResponseState_")
		}
		sort.SliceStable(vals, func(i, j int) bool { return vals[i].val < vals[j].val })
		return fmt.Sprintf("/-- the enumerators of `pb.ResponseState` (%s %s, pb/v1/responsestate.pb.go, found in the vendor directory or the module cache) with their values,\n"+
			"    `ResponseState_` stripped; `none` when the module's source cannot be located.  The kernels below name states by these NAMES. -/\n"+
			"def pbResponseStateValuesGen : Option (List (String × Nat)) := some %s\n\n", hbPbModule, version, leanEnum(vals))
	}
	return fmt.Sprintf("/-- the source of `pb.ResponseState` (%s %s) was not found (no vendor directory, module cache not readable): the kernels below name states by NAME only -/\n"+
		"def pbResponseStateValuesGen : Option (List (String × Nat)) := none\n\n", hbPbModule, version)
}
