// factx regenerates Dirk/Gen/Facts.lean from /repo's current source: the handful of facts that
// behaviour cannot reveal (or reveals only by accident) and that the Lean obligations in
// Dirk/Props/FactsOk.lean are stated about.  It uses go/parser + go/ast only (no type checking), and
// emits `none`/empty values when the construct it looks for is not found, so that a refactor shows
// up as a failed obligation rather than being silently ignored.
//
//	factx <repo> <out.lean>
package main

import (
	"bytes"
	"fmt"
	"go/ast"
	"go/parser"
	"go/printer"
	"go/token"
	"os"
	"path/filepath"
	"sort"
	"strings"
)

var fset = token.NewFileSet()

func parse(path string) *ast.File {
	f, err := parser.ParseFile(fset, path, nil, parser.SkipObjectResolution)
	if err != nil {
		return nil
	}
	return f
}

func src(n ast.Node) string {
	var b bytes.Buffer
	printer.Fprint(&b, fset, n)
	return strings.Join(strings.Fields(b.String()), " ")
}

func leanStr(s string) string {
	return "\"" + strings.ReplaceAll(strings.ReplaceAll(s, "\\", "\\\\"), "\"", "\\\"") + "\""
}

func leanList(xs []string) string {
	q := make([]string, len(xs))
	for i, x := range xs {
		q[i] = leanStr(x)
	}
	return "[" + strings.Join(q, ", ") + "]"
}

// funcDecl finds a function or method by name.
func funcDecl(f *ast.File, name string) *ast.FuncDecl {
	if f == nil {
		return nil
	}
	for _, d := range f.Decls {
		if fd, ok := d.(*ast.FuncDecl); ok && fd.Name.Name == name {
			return fd
		}
	}
	return nil
}

func main() {
	repo, out := os.Args[1], os.Args[2]
	// the decision kernels, translated to Lean next to the facts file (kernels.go)
	writeKernels(repo, filepath.Dir(out))
	var b strings.Builder
	b.WriteString("/-\n  Dirk.Gen.Facts — REGENERATED on every run by /verif/factx from /repo's current source. Do not edit.\n-/\nnamespace Dirk.Gen\n\n")

	// ---- rules/standard/storage.go: badger options of NewStore
	sync := "none"
	if fd := funcDecl(parse(filepath.Join(repo, "rules/standard/storage.go")), "NewStore"); fd != nil {
		ast.Inspect(fd, func(n ast.Node) bool {
			if as, ok := n.(*ast.AssignStmt); ok && len(as.Lhs) == 1 && len(as.Rhs) == 1 {
				if sel, ok := as.Lhs[0].(*ast.SelectorExpr); ok && sel.Sel.Name == "SyncWrites" {
					sync = "some " + leanStr(src(as.Rhs[0]))
				}
			}
			return true
		})
	}
	fmt.Fprintf(&b, "/-- rules/standard/storage.go, NewStore: the value assigned to the SyncWrites option -/\ndef storeSyncWrites : Option String := %s\n\n", sync)
	// every option of the badger store that NewStore sets (fields assigned on the options value, With… methods called on it)
	var storeOpts []string
	if fd := funcDecl(parse(filepath.Join(repo, "rules/standard/storage.go")), "NewStore"); fd != nil {
		optVars := map[string]bool{}
		ast.Inspect(fd, func(n ast.Node) bool {
			if as, ok := n.(*ast.AssignStmt); ok {
				for i, r := range as.Rhs {
					if c, ok := r.(*ast.CallExpr); ok && i < len(as.Lhs) {
						fn := src(c.Fun)
						if strings.HasSuffix(fn, "badger.DefaultOptions") || strings.HasSuffix(fn, "badger.LSMOnlyOptions") {
							optVars[src(as.Lhs[i])] = true
						}
					}
				}
			}
			return true
		})
		seenOpt := map[string]bool{}
		ast.Inspect(fd, func(n ast.Node) bool {
			switch x := n.(type) {
			case *ast.AssignStmt:
				for _, l := range x.Lhs {
					if se, ok := l.(*ast.SelectorExpr); ok && optVars[src(se.X)] && !seenOpt[se.Sel.Name] {
						seenOpt[se.Sel.Name] = true
						storeOpts = append(storeOpts, se.Sel.Name)
					}
				}
			case *ast.CallExpr:
				if se, ok := x.Fun.(*ast.SelectorExpr); ok && optVars[src(se.X)] && !seenOpt[se.Sel.Name+"()"] {
					seenOpt[se.Sel.Name+"()"] = true
					storeOpts = append(storeOpts, se.Sel.Name+"()")
				}
			}
			return true
		})
		sort.Strings(storeOpts)
	}
	fmt.Fprintf(&b, "/-- NewStore: every badger option it sets -/\ndef storeOptionsSet : List String := %s\n\n", leanList(storeOpts))

	// ---- services/api/grpc/service.go: TLS configuration, credentials, services, interceptors
	svc := parse(filepath.Join(repo, "services/api/grpc/service.go"))
	clientAuth, minVersion, clientCAs := "none", "none", "false"
	credsAppended := false
	newServerCalls := 0
	newServerUsesOpts := false
	var interceptors []string
	if fd := funcDecl(svc, "createServer"); fd != nil {
		ast.Inspect(fd, func(n ast.Node) bool {
			switch x := n.(type) {
			case *ast.CompositeLit:
				if strings.HasSuffix(src(x.Type), "tls.Config") {
					for _, e := range x.Elts {
						if kv, ok := e.(*ast.KeyValueExpr); ok {
							switch src(kv.Key) {
							case "ClientAuth":
								clientAuth = "some " + leanStr(src(kv.Value))
							case "MinVersion":
								minVersion = "some " + leanStr(src(kv.Value))
							case "ClientCAs":
								clientCAs = "true"
							}
						}
					}
				}
			case *ast.CallExpr:
				fn := src(x.Fun)
				if fn == "append" && len(x.Args) >= 2 && src(x.Args[0]) == "grpcOpts" && strings.HasPrefix(src(x.Args[1]), "grpc.Creds(") {
					credsAppended = true
				}
				if fn == "grpc.NewServer" {
					newServerCalls++
					if len(x.Args) == 1 && src(x.Args[0]) == "grpcOpts" && x.Ellipsis.IsValid() {
						newServerUsesOpts = true
					}
				}
				if strings.HasSuffix(fn, "ChainUnaryServer") {
					for _, a := range x.Args {
						if c, ok := a.(*ast.CallExpr); ok {
							interceptors = append(interceptors, src(c.Fun))
						}
					}
				}
			}
			return true
		})
	}
	var services []string
	allNewServer := 0
	if svc != nil {
		ast.Inspect(svc, func(n ast.Node) bool {
			if c, ok := n.(*ast.CallExpr); ok {
				fn := src(c.Fun)
				if strings.HasPrefix(fn, "pb.Register") && strings.HasSuffix(fn, "Server") {
					services = append(services, strings.TrimSuffix(strings.TrimPrefix(fn, "pb.Register"), "Server"))
				}
				if fn == "grpc.NewServer" {
					allNewServer++
				}
			}
			return true
		})
	}
	// any other grpc.NewServer in the non-test, non-mock sources of the module would be a second, unprotected server
	otherServers := []string{}
	filepath.Walk(repo, func(p string, info os.FileInfo, err error) error {
		if err != nil || info.IsDir() || !strings.HasSuffix(p, ".go") || strings.HasSuffix(p, "_test.go") {
			return nil
		}
		rel, _ := filepath.Rel(repo, p)
		if strings.HasPrefix(rel, "testing/") || strings.Contains(rel, "/mock/") || rel == "services/api/grpc/service.go" {
			return nil
		}
		data, _ := os.ReadFile(p)
		if bytes.Contains(data, []byte("grpc.NewServer(")) {
			otherServers = append(otherServers, rel)
		}
		return nil
	})
	// every field the server's tls.Config is given (in its literal or by a later assignment) and every method called on it
	tlsFields, tlsCalls := tlsConfigUse(funcDecl(svc, "createServer"))
	fmt.Fprintf(&b, "/-- createServer: all fields set on the server's tls.Config, and all methods called on it -/\ndef tlsConfigFields : List String := %s\ndef tlsConfigCalls : List String := %s\n", leanList(tlsFields), leanList(tlsCalls))
	// every switch over a rules.Result outside the rules packages: which enumerators it names, whether it has a default
	enum, sws := resultSwitches(repo)
	fmt.Fprintf(&b, "/-- rules/service.go: the enumerators of rules.Result; and every switch over them outside package rules: (where, enumerators named, has a default) -/\ndef rulesResults : List String := %s\ndef resultSwitches : List (String × List String × Bool) := [%s]\n\n", leanList(enum), strings.Join(sws, ", "))
	fmt.Fprintf(&b, "/-- services/api/grpc/service.go, createServer: fields of the server's tls.Config -/\ndef tlsClientAuth : Option String := %s\ndef tlsMinVersion : Option String := %s\ndef tlsClientCAsSet : Bool := %s\n", clientAuth, minVersion, clientCAs)
	fmt.Fprintf(&b, "/-- the TLS credentials are appended to the options handed to the one and only grpc.NewServer -/\ndef grpcCredsInstalled : Bool := %v\ndef grpcNewServerCalls : Nat := %d\ndef otherGrpcServers : List String := %s\n",
		credsAppended && newServerUsesOpts, allNewServer, leanList(otherServers))
	fmt.Fprintf(&b, "def registeredServices : List String := %s\ndef interceptorChain : List String := %s\n\n", leanList(services), leanList(interceptors))

	// ---- services/api/grpc/interceptors/clientinfo.go: where the client name comes from
	nameExpr := "none"
	if fd := funcDecl(parse(filepath.Join(repo, "services/api/grpc/interceptors/clientinfo.go")), "ClientInfoInterceptor"); fd != nil {
		ast.Inspect(fd, func(n ast.Node) bool {
			if c, ok := n.(*ast.CallExpr); ok && src(c.Fun) == "context.WithValue" && len(c.Args) == 3 && strings.Contains(src(c.Args[1]), "ClientName") {
				nameExpr = "some " + leanStr(src(c.Args[2]))
			}
			return true
		})
	}
	certsFrom := "none"
	if fd := funcDecl(parse(filepath.Join(repo, "services/api/grpc/interceptors/clientinfo.go")), "ClientInfoInterceptor"); fd != nil {
		ast.Inspect(fd, func(n ast.Node) bool {
			if as, ok := n.(*ast.AssignStmt); ok && len(as.Lhs) == 1 && len(as.Rhs) == 1 {
				l := src(as.Lhs[0])
				if l == "peerCerts" || l == "peerCert" {
					if certsFrom == "none" {
						certsFrom = "some " + leanStr(l+" := "+src(as.Rhs[0]))
					} else {
						certsFrom = strings.TrimSuffix(certsFrom, "\"") + "; " + l + " := " + strings.ReplaceAll(src(as.Rhs[0]), "\"", "\\\"") + "\""
					}
				}
			}
			return true
		})
	}
	fmt.Fprintf(&b, "/-- services/api/grpc/interceptors/clientinfo.go: the expression stored as the client name, and where the certificate comes from -/\ndef clientNameExpr : Option String := %s\ndef clientCertSource : Option String := %s\n\n", nameExpr, certsFrom)

	// ---- rules/standard/service.go: action bytes
	actions := map[string]string{}
	if f := parse(filepath.Join(repo, "rules/standard/service.go")); f != nil {
		ast.Inspect(f, func(n ast.Node) bool {
			if vs, ok := n.(*ast.ValueSpec); ok && len(vs.Names) == 1 && len(vs.Values) == 1 && strings.HasPrefix(vs.Names[0].Name, "action") {
				actions[vs.Names[0].Name] = src(vs.Values[0])
			}
			return true
		})
	}
	var ak []string
	for k := range actions {
		ak = append(ak, k)
	}
	sort.Strings(ak)
	var al []string
	for _, k := range ak {
		al = append(al, k+"="+actions[k])
	}
	fmt.Fprintf(&b, "/-- rules/standard/service.go: record-key action bytes -/\ndef actionBytes : List String := %s\n\n", leanList(al))

	// ---- panic-capable sites in the packages client requests reach
	sites := panicSites(repo)
	fmt.Fprintf(&b, "/-- syntactic inventory of panic-capable constructs (explicit panic, unchecked type assertion, slicing with\n    constant bounds of a request-supplied byte field, allocation sized by a request field) in the packages that\n    client requests reach -/\ndef panicSites : List String := [\n")
	for i, s := range sites {
		sep := ","
		if i == len(sites)-1 {
			sep = ""
		}
		fmt.Fprintf(&b, "  %s%s\n", leanStr(s), sep)
	}
	b.WriteString("]\n\nend Dirk.Gen\n")

	old, _ := os.ReadFile(out)
	if string(old) != b.String() {
		os.MkdirAll(filepath.Dir(out), 0o755)
		if err := os.WriteFile(out, []byte(b.String()), 0o644); err != nil {
			fmt.Fprintln(os.Stderr, err)
			os.Exit(1)
		}
	}
}

var reachDirs = []string{
	"services/api/grpc/handlers/signer", "services/api/grpc/handlers/lister", "services/api/grpc/handlers/accountmanager",
	"services/api/grpc/handlers/walletmanager", "services/api/grpc/handlers/receiver", "services/api/grpc/handlers",
	"services/api/grpc/interceptors", "services/signer/standard", "services/ruler/golang", "rules/standard",
	"services/lister/standard", "services/accountmanager/standard", "services/walletmanager/standard",
	"services/process/standard", "services/fetcher/mem", "services/checker/static", "services/locker/syncmap",
	"services/peers/static", "services/unlocker/local", "util",
}

// panicSites lists, per function, the constructs that can panic on attacker-influenced input and that a
// purely syntactic pass can recognise reliably: explicit panic(...) calls, type assertions without the
// comma-ok form, slice expressions with constant bounds (x[0:4]), and make(...) whose size is not a
// constant or len(...) expression.
func panicSites(repo string) []string {
	var out []string
	for _, d := range reachDirs {
		ents, _ := os.ReadDir(filepath.Join(repo, d))
		for _, e := range ents {
			if e.IsDir() || !strings.HasSuffix(e.Name(), ".go") || strings.HasSuffix(e.Name(), "_test.go") {
				continue
			}
			f := parse(filepath.Join(repo, d, e.Name()))
			if f == nil {
				continue
			}
			for _, decl := range f.Decls {
				fd, ok := decl.(*ast.FuncDecl)
				if !ok || fd.Body == nil {
					continue
				}
				fn := fd.Name.Name
				if fd.Recv != nil && len(fd.Recv.List) == 1 {
					fn = strings.TrimPrefix(src(fd.Recv.List[0].Type), "*") + "." + fn
				}
				okAssert := map[ast.Node]bool{}
				ast.Inspect(fd.Body, func(n ast.Node) bool {
					switch x := n.(type) {
					case *ast.AssignStmt:
						if len(x.Lhs) == 2 && len(x.Rhs) == 1 {
							if ta, ok := x.Rhs[0].(*ast.TypeAssertExpr); ok {
								okAssert[ta] = true
							}
						}
					case *ast.ValueSpec:
						if len(x.Names) == 2 && len(x.Values) == 1 {
							if ta, ok := x.Values[0].(*ast.TypeAssertExpr); ok {
								okAssert[ta] = true
							}
						}
					case *ast.TypeSwitchStmt:
						ast.Inspect(x.Assign, func(m ast.Node) bool {
							if ta, ok := m.(*ast.TypeAssertExpr); ok {
								okAssert[ta] = true
							}
							return true
						})
					}
					return true
				})
				ast.Inspect(fd.Body, func(n ast.Node) bool {
					switch x := n.(type) {
					case *ast.CallExpr:
						switch src(x.Fun) {
						case "panic":
							out = append(out, fmt.Sprintf("%s/%s:%s:panic:%s", d, e.Name(), fn, src(x)))
						case "make":
							if len(x.Args) >= 2 {
								sz := src(x.Args[1])
								if _, isLit := x.Args[1].(*ast.BasicLit); !isLit && !strings.HasPrefix(sz, "len(") && !strings.Contains(sz, "len(") {
									out = append(out, fmt.Sprintf("%s/%s:%s:make:%s", d, e.Name(), fn, src(x)))
								}
							}
						}
					case *ast.TypeAssertExpr:
						if x.Type != nil && !okAssert[x] {
							out = append(out, fmt.Sprintf("%s/%s:%s:assert:%s", d, e.Name(), fn, src(x)))
						}
					case *ast.SliceExpr:
						_, lo := x.Low.(*ast.BasicLit)
						_, hi := x.High.(*ast.BasicLit)
						if (x.Low == nil || lo) && hi {
							out = append(out, fmt.Sprintf("%s/%s:%s:slice:%s", d, e.Name(), fn, src(x)))
						}
					}
					return true
				})
			}
		}
	}
	sort.Strings(out)
	return out
}

// tlsConfigUse lists the fields set on any tls.Config built in fd (keys of the literal, later `v.X = …` assignments on a
// variable holding it) and the methods called on such a variable.
func tlsConfigUse(fd *ast.FuncDecl) (fields []string, calls []string) {
	if fd == nil {
		return nil, nil
	}
	vars := map[string]bool{}
	isCfgLit := func(e ast.Expr) bool {
		if u, ok := e.(*ast.UnaryExpr); ok {
			e = u.X
		}
		cl, ok := e.(*ast.CompositeLit)
		return ok && strings.HasSuffix(src(cl.Type), "tls.Config")
	}
	ast.Inspect(fd, func(n ast.Node) bool {
		switch x := n.(type) {
		case *ast.CompositeLit:
			if strings.HasSuffix(src(x.Type), "tls.Config") {
				for _, e := range x.Elts {
					if kv, ok := e.(*ast.KeyValueExpr); ok {
						fields = append(fields, src(kv.Key))
					}
				}
			}
		case *ast.AssignStmt:
			for i, r := range x.Rhs {
				if isCfgLit(r) && i < len(x.Lhs) {
					vars[src(x.Lhs[i])] = true
				}
			}
		case *ast.ValueSpec:
			for i, r := range x.Values {
				if isCfgLit(r) && i < len(x.Names) {
					vars[x.Names[i].Name] = true
				}
			}
		}
		return true
	})
	ast.Inspect(fd, func(n ast.Node) bool {
		switch x := n.(type) {
		case *ast.AssignStmt:
			for _, l := range x.Lhs {
				if se, ok := l.(*ast.SelectorExpr); ok && vars[src(se.X)] {
					fields = append(fields, se.Sel.Name)
				}
			}
		case *ast.CallExpr:
			if se, ok := x.Fun.(*ast.SelectorExpr); ok && vars[src(se.X)] {
				calls = append(calls, se.Sel.Name)
			}
		}
		return true
	})
	sort.Strings(fields)
	sort.Strings(calls)
	return fields, calls
}

// resultSwitches: the enumerators of rules.Result, and for every switch statement outside rules/ (non-test sources) with a
// case naming one of them: "(\"file:func\", [names], hasDefault)".
func resultSwitches(repo string) (enum []string, out []string) {
	if f := parse(filepath.Join(repo, "rules/service.go")); f != nil {
		ast.Inspect(f, func(n ast.Node) bool {
			gd, ok := n.(*ast.GenDecl)
			if !ok || gd.Tok.String() != "const" {
				return true
			}
			isResult := false
			for _, sp := range gd.Specs {
				vs := sp.(*ast.ValueSpec)
				if vs.Type != nil {
					isResult = src(vs.Type) == "Result"
				} else if len(vs.Values) > 0 {
					isResult = false
				}
				if isResult {
					for _, nm := range vs.Names {
						enum = append(enum, nm.Name)
					}
				}
			}
			return true
		})
	}
	isEnum := map[string]bool{}
	for _, e := range enum {
		isEnum["rules."+e] = true
	}
	filepath.Walk(repo, func(p string, info os.FileInfo, err error) error {
		if err != nil || info.IsDir() || !strings.HasSuffix(p, ".go") || strings.HasSuffix(p, "_test.go") {
			return nil
		}
		rel, _ := filepath.Rel(repo, p)
		if strings.HasPrefix(rel, "rules/") || strings.HasPrefix(rel, "testing/") || strings.Contains(rel, "/mock/") {
			return nil
		}
		f := parse(p)
		if f == nil {
			return nil
		}
		for _, d := range f.Decls {
			fd, ok := d.(*ast.FuncDecl)
			if !ok || fd.Body == nil {
				continue
			}
			ast.Inspect(fd.Body, func(n ast.Node) bool {
				sw, ok := n.(*ast.SwitchStmt)
				if !ok {
					return true
				}
				var names []string
				hasDefault := false
				for _, c := range sw.Body.List {
					cc := c.(*ast.CaseClause)
					if cc.List == nil {
						hasDefault = true
					}
					for _, e := range cc.List {
						if isEnum[src(e)] {
							names = append(names, strings.TrimPrefix(src(e), "rules."))
						}
					}
				}
				if len(names) > 0 {
					sort.Strings(names)
					out = append(out, fmt.Sprintf("(%s, %s, %v)", leanStr(rel+":"+fd.Name.Name), leanList(names), hasDefault))
				}
				return true
			})
		}
		return nil
	})
	sort.Strings(out)
	return enum, out
}
