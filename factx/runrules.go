// runrules.go — P17: the ruler's `RunRules` and the head of `runRules` (services/ruler/golang/runner.go): the validation
// scans, the duplicate-key refusal, the LOCK PROTOCOL around the rules call, and the choice between the per-entry and
// the batch path.
//
// `RunRules` is read by a strict recogniser: EVERY statement of its body must be one of the shapes below (anything else ⇒
// kernelUntranslatable_…).  Parameters and locals are recognised by ROLE (position / the statement that created them),
// never by name, and printed canonically (`rulesData`, `results`, `i`, `key`, `pubKeyMap`), so a renaming changes nothing.
//
//	log… / span… calls with pure arguments          span, ctx := opentracing.StartSpanFromContext(ctx, "…")
//	defer span.Finish()          L := log.With()….Logger()                                                   (ignored)
//	if len(D) OP c { log…; return []rules.Result{rules.X…} }         (before R exists; the answer for such a length)
//	R := make([]rules.Result, len(D))                                (every position: the zero enumerator of rules.Result)
//	for I := range D|R { R[I] = rules.Y }                            (directly after it: every position Y)
//	for I := range D { BODY }                                        (a SCAN loop), BODY made of
//	    if D[I] == nil | D[I].Data == nil | len(D[I].PubKey) == 0 { log…; R[I] = rules.Z; return R }
//	    var K [W]byte          copy(K[:], D[I].PubKey)               (K: the first W bytes of the key, zero padded)
//	    if _, E := M[K]; E { log…; R[I] = rules.Z; return R }         (M := make(map[[W]byte]bool) before the loop)
//	    M[K] = true                                                  (last statement, after the lookup)
//	if action == ruler.A || action == ruler.B … { … }                (no else: the LOCKING actions), containing scan loops,
//	    M := make(map[[W]byte]bool), and then the locker calls:
//	    S.locker.PreLock()          S.locker.PostLock()
//	    for I := range D { var K [W]byte; copy(K[:], D[I].PubKey); S.locker.Lock(K); defer S.locker.Unlock(K) }
//	return S.runRules(ctx, credentials, action, D)                   (the function's own parameters, in order)
//
// and, so that an explicit unlock shows up as what it is instead of being refused: `X := S.runRules(…)` followed by a
// second `if <the same actions> { for I := range D { var K…; copy…; S.locker.Unlock(K) } }` and `return X`.
//
// A scan loop is translated as "the first index at which each guard's condition holds" (one Option Nat parameter per
// guard kind) combined by `scanExitGen` IN SOURCE ORDER of the guards; loops and the locking `if` are chained in source
// order by continuation.  The locker calls are collected in execution order; `lockCallsTokGen` is produced FROM that list
// (a deferred call registered by a forward loop runs, at the return, in reverse order).
package main

import (
	"fmt"
	"go/ast"
	"go/token"
	"os"
	"path/filepath"
	"sort"
	"strconv"
	"strings"
)

const (
	rrFile        = "services/ruler/golang/runner.go"
	rrActionsFile = "services/ruler/service.go"
	rrBatchFn     = "runRulesForMultipleBeaconAttestations"
	rrAttestConst = "ActionSignBeaconAttestation"
)

// rrReserved: names the translation interprets; the function must not define them.
var rrReserved = []string{"rules", "ruler", "opentracing", "fmt", "len", "make", "copy", "nil", "true", "false", "byte", "bool", "_"}

var stringConstsCache = map[string][2]map[string]string{}

// stringConsts: the untyped package-level constants — and variables (that is how services/ruler/service.go declares the
// actions) — of `file` whose (initial) value is a string literal.  For a variable the value is only meaningful if nothing
// ever assigns to it: `assigned` lists the variables that some non-test file of the repository assigns to, or takes the
// address of (matched by NAME, whatever the package qualifier; bare identifiers only inside the declaring directory).
func stringConsts(repo, file string) (out map[string]string, assigned map[string]string) {
	if c, ok := stringConstsCache[repo+"\x00"+file]; ok {
		return c[0], c[1]
	}
	out, assigned = map[string]string{}, map[string]string{}
	defer func() { stringConstsCache[repo+"\x00"+file] = [2]map[string]string{out, assigned} }()
	f := parse(filepath.Join(repo, file))
	if f == nil {
		return
	}
	vars := map[string]bool{}
	for _, d := range f.Decls {
		gd, ok := d.(*ast.GenDecl)
		if !ok || (gd.Tok != token.CONST && gd.Tok != token.VAR) {
			continue
		}
		for _, sp := range gd.Specs {
			vs := sp.(*ast.ValueSpec)
			if vs.Type != nil || len(vs.Names) != len(vs.Values) {
				continue
			}
			for i, nm := range vs.Names {
				if lit, ok := vs.Values[i].(*ast.BasicLit); ok && lit.Kind == token.STRING {
					if s, err := strconv.Unquote(lit.Value); err == nil && printable(s) {
						out[nm.Name] = s
						if gd.Tok == token.VAR {
							vars[nm.Name] = true
						}
					}
				}
			}
		}
	}
	if len(vars) == 0 {
		return
	}
	home := filepath.Dir(filepath.Join(repo, file))
	filepath.Walk(repo, func(path string, info os.FileInfo, err error) error {
		if err != nil || info.IsDir() || !strings.HasSuffix(path, ".go") || strings.HasSuffix(path, "_test.go") {
			return nil
		}
		g := parse(path)
		if g == nil {
			return nil
		}
		rel, _ := filepath.Rel(repo, path)
		target := func(e ast.Expr) {
			switch x := e.(type) {
			case *ast.SelectorExpr:
				if vars[x.Sel.Name] {
					assigned[x.Sel.Name] = rel
				}
			case *ast.Ident:
				if vars[x.Name] && filepath.Dir(path) == home {
					assigned[x.Name] = rel
				}
			}
		}
		ast.Inspect(g, func(n ast.Node) bool {
			switch x := n.(type) {
			case *ast.AssignStmt:
				if x.Tok != token.DEFINE {
					for _, l := range x.Lhs {
						target(l)
					}
				}
			case *ast.IncDecStmt:
				target(x.X)
			case *ast.UnaryExpr:
				if x.Op == token.AND {
					target(x.X)
				}
			}
			return true
		})
		return nil
	})
	return
}

// actionValue: the value of ruler.<name>, refused when it is not a literal or may change at run time.
func (r *rrShape) actionValue(n ast.Node, name string) string {
	v, ok := r.consts[name]
	if !ok {
		r.fail(n, "ruler.%s is not declared with a string literal in %s", name, rrActionsFile)
	}
	if where, bad := r.assigned[name]; bad {
		r.fail(n, "ruler.%s is a variable that %s assigns to (or takes the address of)", name, where)
	}
	return v
}

type rrGuard struct {
	kind  string // nil, nilData, emptyKey, dupKey
	param string
	val   int
}

var rrParams = map[string]string{"nil": "firstNil", "nilData": "firstNilData", "emptyKey": "firstEmptyKey", "dupKey": "firstDupKey"}

// rrNode: one step of the validation, in source order.
type rrNode struct {
	kind   string // "len" (answer for a length), "scan", "lockif", "pass" (the rules are called)
	cond   string // len: Lean condition over n
	vals   []int  // len: the list returned
	guards []rrGuard
	body   []rrNode
}

// rrOp: one locker-relevant action, in execution order.
type rrOp struct {
	kind  string   // pre, post, loop, inner (the rules call)
	toks  []string // loop: canonical tokens of its body
	lock  bool     // loop: Lock(K)
	unl   bool     // loop: Unlock(K) (explicit)
	dfr   bool     // loop: defer Unlock(K)
	width int      // loop: W of its key
	ret   bool     // inner: `return S.runRules(…)` (else `X := S.runRules(…)`)
}

type rrShape struct {
	k                         *ktrans
	ctx, creds, action, data  string
	results, mapName, innerTo string
	initVal                   int
	rules                     []enumVal
	consts, assigned          map[string]string
	nodes                     []rrNode
	ops                       []rrOp
	lockActs                  []string // constant names, in source order
	lockCond                  string   // canonical text of the locking condition
	dupW, mapW                int
	dupExpr                   string
	lockerSeen                int
	nilChecked                bool
	used                      map[string]bool
	returned                  bool
	texts, ptexts             []string
}

func (r *rrShape) fail(n ast.Node, f string, a ...interface{}) { r.k.fail(n, f, a...) }

// ---- silent statements -------------------------------------------------------------------------

func (r *rrShape) pure(e ast.Expr) bool {
	switch x := e.(type) {
	case nil:
		return true
	case *ast.BasicLit, *ast.Ident:
		return true
	case *ast.ParenExpr:
		return r.pure(x.X)
	case *ast.SelectorExpr:
		return r.pure(x.X)
	case *ast.IndexExpr:
		return r.pure(x.X) && r.pure(x.Index)
	case *ast.SliceExpr:
		return r.pure(x.X) && r.pure(x.Low) && r.pure(x.High) && r.pure(x.Max)
	case *ast.CallExpr:
		switch src(x.Fun) {
		case "fmt.Sprintf", "len":
			for _, a := range x.Args {
				if !r.pure(a) {
					return false
				}
			}
			return x.Ellipsis == token.NoPos
		}
	}
	return false
}

// silentChain: a method-call chain rooted at a logger / span, all of whose arguments are pure.
func (r *rrShape) silentChain(e ast.Expr) bool {
	for {
		switch x := e.(type) {
		case *ast.CallExpr:
			for _, a := range x.Args {
				if !r.pure(a) {
					return false
				}
			}
			e = x.Fun
		case *ast.SelectorExpr:
			if x.Sel.Name == "Fatal" || x.Sel.Name == "Panic" {
				return false
			}
			e = x.X
		case *ast.Ident:
			return r.k.silent[x.Name]
		default:
			return false
		}
	}
}

func (r *rrShape) isRole(e ast.Expr, name string) bool {
	id, ok := e.(*ast.Ident)
	return ok && name != "" && id.Name == name
}

func (r *rrShape) freshName(n ast.Node, e ast.Expr) string {
	id, ok := e.(*ast.Ident)
	if !ok {
		r.fail(n, "definition of other than a local")
	}
	for _, w := range append([]string{r.k.recv, r.ctx, r.creds, r.action, r.data, r.results, r.mapName, r.innerTo}, rrReserved...) {
		if w != "" && id.Name == w {
			r.fail(n, "%s is rebound", id.Name)
		}
	}
	if r.k.silent[id.Name] {
		r.fail(n, "%s is rebound", id.Name)
	}
	return id.Name
}

func (r *rrShape) silent(st ast.Stmt, top bool) bool {
	switch x := st.(type) {
	case *ast.EmptyStmt:
		return true
	case *ast.ExprStmt:
		_, isCall := x.X.(*ast.CallExpr)
		return isCall && r.silentChain(x.X)
	case *ast.DeferStmt:
		return r.silentChain(x.Call)
	case *ast.AssignStmt:
		if x.Tok != token.DEFINE || len(x.Rhs) != 1 {
			return false
		}
		call, ok := x.Rhs[0].(*ast.CallExpr)
		if !ok {
			return false
		}
		if src(call.Fun) == "opentracing.StartSpanFromContext" {
			// span, ctx := opentracing.StartSpanFromContext(ctx, "…"): at the top level only (ctx keeps its role)
			if !top || len(x.Lhs) != 2 || len(call.Args) != 2 || !r.isRole(call.Args[0], r.ctx) {
				return false
			}
			if lit, ok := call.Args[1].(*ast.BasicLit); !ok || lit.Kind != token.STRING {
				return false
			}
			if !r.isRole(x.Lhs[1], r.ctx) && src(x.Lhs[1]) != "_" {
				return false
			}
			if src(x.Lhs[0]) != "_" {
				r.k.silent[r.freshName(st, x.Lhs[0])] = true
			}
			return true
		}
		if len(x.Lhs) != 1 || !r.silentChain(call) {
			return false
		}
		if src(x.Lhs[0]) != "_" {
			id, ok := x.Lhs[0].(*ast.Ident)
			if !ok {
				return false
			}
			if !r.k.silent[id.Name] { // `log := log.With()…` rebinding a logger by a logger is fine
				r.k.silent[r.freshName(st, x.Lhs[0])] = true
			}
		}
		return true
	}
	return false
}

// ---- small recognisers -------------------------------------------------------------------------

func (r *rrShape) rulesValue(n ast.Node, e ast.Expr) int {
	se, ok := e.(*ast.SelectorExpr)
	if !ok || src(se.X) != "rules" {
		r.fail(n, "not a rules.Result enumerator: %s", src(e))
	}
	v, ok := enumLookup(r.rules, se.Sel.Name)
	if !ok {
		r.fail(n, "rules.%s is not an enumerator of rules.Result in %s", se.Sel.Name, rulesResultFile)
	}
	return v
}

// isLenData: `len(D)`
func (r *rrShape) isLenData(e ast.Expr) bool {
	c, ok := e.(*ast.CallExpr)
	return ok && src(c.Fun) == "len" && len(c.Args) == 1 && r.isRole(c.Args[0], r.data)
}

var rrCmp = map[token.Token]string{token.EQL: "=", token.NEQ: "≠", token.LSS: "<", token.LEQ: "≤", token.GTR: ">", token.GEQ: "≥"}

// lenCond: `len(D) OP <integer literal>` as a Lean proposition over n.
func (r *rrShape) lenCond(e ast.Expr) (string, bool) {
	b, ok := e.(*ast.BinaryExpr)
	if !ok {
		return "", false
	}
	op, ok := rrCmp[b.Op]
	lit, isLit := b.Y.(*ast.BasicLit)
	if !ok || !isLit || lit.Kind != token.INT || !r.isLenData(b.X) {
		return "", false
	}
	v, err := strconv.ParseUint(lit.Value, 10, 31)
	if err != nil {
		return "", false
	}
	return fmt.Sprintf("n %s %d", op, v), true
}

// entry: `D[I]`; entryField: `D[I].F`
func (r *rrShape) isEntry(e ast.Expr, idx string) bool {
	ix, ok := e.(*ast.IndexExpr)
	return ok && r.isRole(ix.X, r.data) && r.isRole(ix.Index, idx)
}

func (r *rrShape) isEntryField(e ast.Expr, idx, field string) bool {
	se, ok := e.(*ast.SelectorExpr)
	return ok && se.Sel.Name == field && r.isEntry(se.X, idx)
}

// isLocker: `S.locker.M(args…)`; returns M and the arguments.
func (r *rrShape) lockerCall(e ast.Expr) (string, []ast.Expr, bool) {
	c, ok := e.(*ast.CallExpr)
	if !ok || c.Ellipsis != token.NoPos {
		return "", nil, false
	}
	m, ok := c.Fun.(*ast.SelectorExpr)
	if !ok {
		return "", nil, false
	}
	l, ok := m.X.(*ast.SelectorExpr)
	if !ok || l.Sel.Name != "locker" || !r.isRole(l.X, r.k.recv) {
		return "", nil, false
	}
	return m.Sel.Name, c.Args, true
}

func mentionsSelector(n ast.Node, sel string) (c int) {
	ast.Inspect(n, func(m ast.Node) bool {
		if se, ok := m.(*ast.SelectorExpr); ok && se.Sel.Name == sel {
			c++
		}
		return true
	})
	return c
}

// rangeOver: `for I := range X {…}` with I a fresh identifier and no value variable; returns I.
func (r *rrShape) rangeOver(x *ast.RangeStmt, over ...string) (string, bool) {
	if x.Tok != token.DEFINE || x.Value != nil || x.Key == nil {
		return "", false
	}
	id, ok := x.Key.(*ast.Ident)
	if !ok || id.Name == "_" {
		return "", false
	}
	for _, o := range over {
		if r.isRole(x.X, o) {
			return r.freshName(x, x.Key), true
		}
	}
	return "", false
}

// keyArray: `var K [W]byte`
func (r *rrShape) keyArray(st ast.Stmt) (string, int, bool) {
	ds, ok := st.(*ast.DeclStmt)
	if !ok {
		return "", 0, false
	}
	gd, ok := ds.Decl.(*ast.GenDecl)
	if !ok || gd.Tok != token.VAR || len(gd.Specs) != 1 {
		return "", 0, false
	}
	vs := gd.Specs[0].(*ast.ValueSpec)
	if len(vs.Names) != 1 || len(vs.Values) != 0 || vs.Type == nil {
		return "", 0, false
	}
	w, ok := byteArrayWidth(vs.Type)
	if !ok {
		return "", 0, false
	}
	return r.freshName(st, vs.Names[0]), w, true
}

func byteArrayWidth(t ast.Expr) (int, bool) {
	at, ok := t.(*ast.ArrayType)
	if !ok || at.Len == nil || src(at.Elt) != "byte" {
		return 0, false
	}
	lit, ok := at.Len.(*ast.BasicLit)
	if !ok || lit.Kind != token.INT {
		return 0, false
	}
	w, err := strconv.ParseUint(lit.Value, 10, 16)
	if err != nil || w == 0 {
		return 0, false
	}
	return int(w), true
}

// keyCopy: `copy(K[:], D[I].PubKey)`
func (r *rrShape) keyCopy(st ast.Stmt, idx string) (string, bool) {
	es, ok := st.(*ast.ExprStmt)
	if !ok {
		return "", false
	}
	c, ok := es.X.(*ast.CallExpr)
	if !ok || src(c.Fun) != "copy" || len(c.Args) != 2 || !r.isEntryField(c.Args[1], idx, "PubKey") {
		return "", false
	}
	sl, ok := c.Args[0].(*ast.SliceExpr)
	if !ok || sl.Low != nil || sl.High != nil || sl.Max != nil {
		return "", false
	}
	id, ok := sl.X.(*ast.Ident)
	if !ok {
		return "", false
	}
	return id.Name, true
}

// keyState: the `[W]byte` locals of one loop iteration.
type rrKeys struct {
	width  map[string]int
	filled map[string]bool
}

// ---- scan loops --------------------------------------------------------------------------------

// guardBlock: `{ log…; R[I] = rules.Z; return R }`; returns Z's value.
func (r *rrShape) guardBlock(b *ast.BlockStmt, idx string) int {
	var rest []ast.Stmt
	for _, s := range b.List {
		if !r.silent(s, false) {
			rest = append(rest, s)
		}
	}
	if len(rest) != 2 {
		r.fail(b, "guard block is not `log…; %s[%s] = rules.X; return %s`", r.results, idx, r.results)
	}
	as, ok := rest[0].(*ast.AssignStmt)
	if !ok || as.Tok != token.ASSIGN || len(as.Lhs) != 1 || len(as.Rhs) != 1 {
		r.fail(rest[0], "guard block does not write %s[%s]", r.results, idx)
	}
	ix, ok := as.Lhs[0].(*ast.IndexExpr)
	if !ok || !r.isRole(ix.X, r.results) || !r.isRole(ix.Index, idx) {
		r.fail(rest[0], "guard block does not write %s[%s]", r.results, idx)
	}
	ret, ok := rest[1].(*ast.ReturnStmt)
	if !ok || len(ret.Results) != 1 || !r.isRole(ret.Results[0], r.results) {
		r.fail(rest[1], "guard block does not end in `return %s`", r.results)
	}
	return r.rulesValue(rest[0], as.Rhs[0])
}

func (r *rrShape) guardText(kind string, val int) string {
	cond := map[string]string{
		"nil": "rulesData[i] == nil", "nilData": "rulesData[i].Data == nil", "emptyKey": "len(rulesData[i].PubKey) == 0",
		"dupKey": "_, exists := pubKeyMap[key]; exists",
	}[kind]
	name := "?"
	for _, e := range r.rules {
		if e.val == val {
			name = e.name
		}
	}
	return "if " + cond + " { results[i] = rules." + name + "; return results }"
}

func (r *rrShape) scanLoop(x *ast.RangeStmt, idx string) rrNode {
	if r.results == "" {
		r.fail(x, "scan loop before the result list exists")
	}
	if len(r.ops) > 0 {
		r.fail(x, "scan loop (early return) after a locker call")
	}
	node := rrNode{kind: "scan"}
	keys := rrKeys{map[string]int{}, map[string]bool{}}
	nilHere := r.nilChecked
	lookedUp, inserted := false, false
	var texts []string
	for _, s := range x.Body.List {
		if r.silent(s, false) {
			continue
		}
		if inserted {
			r.fail(s, "statement after the map insertion")
		}
		if k, w, ok := r.keyArray(s); ok {
			keys.width[k] = w
			texts = append(texts, fmt.Sprintf("var key [%d]byte", w))
			continue
		}
		if k, ok := r.keyCopy(s, idx); ok {
			if keys.width[k] == 0 || keys.filled[k] {
				r.fail(s, "copy into something other than a fresh [W]byte declared in this iteration")
			}
			if !nilHere {
				r.fail(s, "%s[%s] is dereferenced before it was compared with nil", r.data, idx)
			}
			keys.filled[k] = true
			texts = append(texts, "copy(key[:], rulesData[i].PubKey)")
			continue
		}
		switch y := s.(type) {
		case *ast.IfStmt:
			if y.Else != nil {
				r.fail(s, "guard with an else")
			}
			kind := ""
			if y.Init == nil {
				b, ok := y.Cond.(*ast.BinaryExpr)
				if !ok || b.Op != token.EQL {
					r.fail(s, "guard condition outside the fragment")
				}
				switch {
				case r.isEntry(b.X, idx) && src(b.Y) == "nil":
					kind = "nil"
				case r.isEntryField(b.X, idx, "Data") && src(b.Y) == "nil":
					kind = "nilData"
				case src(b.Y) == "0":
					if c, ok := b.X.(*ast.CallExpr); ok && src(c.Fun) == "len" && len(c.Args) == 1 && r.isEntryField(c.Args[0], idx, "PubKey") {
						kind = "emptyKey"
					}
				}
			} else {
				// _, E := M[K]; E
				as, ok := y.Init.(*ast.AssignStmt)
				if ok && as.Tok == token.DEFINE && len(as.Lhs) == 2 && len(as.Rhs) == 1 && src(as.Lhs[0]) == "_" {
					if ix, isIx := as.Rhs[0].(*ast.IndexExpr); isIx && r.isRole(ix.X, r.mapName) {
						e := r.freshName(s, as.Lhs[1])
						k, isId := ix.Index.(*ast.Ident)
						if !isId || !keys.filled[k.Name] || !r.isRole(y.Cond, e) {
							r.fail(s, "map lookup outside the fragment (`_, E := M[K]; E` with K the filled key array)")
						}
						if keys.width[k.Name] != r.mapW {
							r.fail(s, "the map is indexed by a key of another width")
						}
						kind = "dupKey"
						r.dupW = r.mapW
						r.dupExpr = fmt.Sprintf("var key [%d]byte; copy(key[:], rulesData[i].PubKey)", r.mapW)
						lookedUp = true
					}
				}
			}
			if kind == "" {
				r.fail(s, "guard condition outside the fragment")
			}
			if kind != "nil" && !nilHere {
				r.fail(s, "%s[%s] is dereferenced before it was compared with nil", r.data, idx)
			}
			if kind == "nil" {
				nilHere = true
			}
			if r.used[kind] {
				r.fail(s, "the same condition is tested twice")
			}
			r.used[kind] = true
			g := rrGuard{kind: kind, param: rrParams[kind], val: r.guardBlock(y.Body, idx)}
			node.guards = append(node.guards, g)
			texts = append(texts, r.guardText(kind, g.val))
			continue
		case *ast.AssignStmt:
			// M[K] = true
			if y.Tok == token.ASSIGN && len(y.Lhs) == 1 && len(y.Rhs) == 1 && src(y.Rhs[0]) == "true" {
				if ix, ok := y.Lhs[0].(*ast.IndexExpr); ok && r.isRole(ix.X, r.mapName) {
					k, isId := ix.Index.(*ast.Ident)
					if !isId || !keys.filled[k.Name] || keys.width[k.Name] != r.mapW {
						r.fail(s, "map insertion of something other than the filled key array")
					}
					inserted = true
					texts = append(texts, "pubKeyMap[key] = true")
					continue
				}
			}
		}
		r.fail(s, "unsupported statement in a scan loop")
	}
	if lookedUp && !inserted {
		r.fail(x, "the map is looked up but never filled")
	}
	if len(node.guards) == 0 {
		r.fail(x, "loop without a guard")
	}
	// the loop ran to its end: every entry passed its nil test
	for _, g := range node.guards {
		if g.kind == "nil" {
			r.nilChecked = true
		}
	}
	r.texts = append(r.texts, "for i := range rulesData { "+strings.Join(texts, "; ")+" }")
	return node
}

// ---- locker loops ------------------------------------------------------------------------------

func (r *rrShape) lockLoop(x *ast.RangeStmt, idx string, afterInner bool) {
	if !r.nilChecked {
		r.fail(x, "%s[%s] is dereferenced before it was compared with nil", r.data, idx)
	}
	op := rrOp{kind: "loop"}
	keys := rrKeys{map[string]int{}, map[string]bool{}}
	keyArg := func(s ast.Stmt, args []ast.Expr) string {
		if len(args) != 1 {
			r.fail(s, "locker call with other than one argument")
		}
		k, ok := args[0].(*ast.Ident)
		if !ok || !keys.filled[k.Name] {
			r.fail(s, "locker call on something other than the key array filled in this iteration")
		}
		w := keys.width[k.Name]
		if op.width != 0 && op.width != w {
			r.fail(s, "locker calls of one loop use keys of different widths")
		}
		op.width = w
		return fmt.Sprintf("key%d(PubKey)", w)
	}
	var texts []string
	for _, s := range x.Body.List {
		if r.silent(s, false) {
			continue
		}
		if k, w, ok := r.keyArray(s); ok {
			keys.width[k] = w
			texts = append(texts, fmt.Sprintf("var key [%d]byte", w))
			continue
		}
		if k, ok := r.keyCopy(s, idx); ok {
			if keys.width[k] == 0 || keys.filled[k] {
				r.fail(s, "copy into something other than a fresh [W]byte declared in this iteration")
			}
			keys.filled[k] = true
			texts = append(texts, "copy(key[:], rulesData[i].PubKey)")
			continue
		}
		switch y := s.(type) {
		case *ast.ExprStmt:
			if m, args, ok := r.lockerCall(y.X); ok {
				r.lockerSeen++
				switch {
				case m == "Lock" && !op.lock && !afterInner:
					op.lock = true
					op.toks = append(op.toks, "Lock("+keyArg(s, args)+")")
					texts = append(texts, "s.locker.Lock(key)")
					continue
				case m == "Unlock" && afterInner && !op.unl:
					op.unl = true
					op.toks = append(op.toks, "Unlock("+keyArg(s, args)+")")
					texts = append(texts, "s.locker.Unlock(key)")
					continue
				case m == "Unlock":
					r.fail(s, "an Unlock that is not a `defer` inside the locking loop (nor in a loop of its own after the rules call)")
				}
				r.fail(s, "unsupported locker call in a loop: %s", m)
			}
		case *ast.DeferStmt:
			if m, args, ok := r.lockerCall(y.Call); ok {
				r.lockerSeen++
				if m != "Unlock" || op.dfr || afterInner {
					r.fail(s, "unsupported deferred locker call: %s", m)
				}
				op.dfr = true
				op.toks = append(op.toks, "defer Unlock("+keyArg(s, args)+")")
				texts = append(texts, "defer s.locker.Unlock(key)")
				continue
			}
		}
		r.fail(s, "unsupported statement in a locker loop")
	}
	if len(op.toks) == 0 {
		r.fail(x, "locker loop without a locker call")
	}
	r.ops = append(r.ops, op)
	r.ptexts = append(r.ptexts, "for i := range rulesData { "+strings.Join(texts, "; ")+" }")
}

// ---- the locking `if` --------------------------------------------------------------------------

// lockingCond: `action == ruler.A || action == ruler.B || …`; returns the constant names in source order.
func (r *rrShape) lockingCond(e ast.Expr) ([]string, bool) {
	switch x := e.(type) {
	case *ast.ParenExpr:
		return r.lockingCond(x.X)
	case *ast.BinaryExpr:
		switch x.Op {
		case token.LOR:
			a, ok1 := r.lockingCond(x.X)
			b, ok2 := r.lockingCond(x.Y)
			return append(a, b...), ok1 && ok2
		case token.EQL:
			l, c := x.X, x.Y
			if !r.isRole(l, r.action) {
				l, c = c, l
			}
			se, ok := c.(*ast.SelectorExpr)
			if ok && r.isRole(l, r.action) && src(se.X) == "ruler" {
				return []string{se.Sel.Name}, true
			}
		}
	}
	return nil, false
}

func (r *rrShape) lockIf(x *ast.IfStmt, acts []string) rrNode {
	node := rrNode{kind: "lockif"}
	if x.Init != nil || x.Else != nil {
		r.fail(x, "the locking `if` has an init statement or an else")
	}
	for _, a := range acts {
		r.actionValue(x.Cond, a)
	}
	canon := "action == ruler." + strings.Join(acts, " || action == ruler.")
	second := r.lockActs != nil
	if second {
		// the explicit-unlock shape: the same actions, after the rules call, unlock loops only
		sa, sb := append([]string{}, acts...), append([]string{}, r.lockActs...)
		sort.Strings(sa)
		sort.Strings(sb)
		if r.innerTo == "" || strings.Join(sa, ",") != strings.Join(sb, ",") {
			r.fail(x, "a second `if` over the action that is not the unlocking counterpart of the first")
		}
	} else {
		if r.results == "" || r.innerTo != "" {
			r.fail(x, "the locking `if` is misplaced")
		}
		r.lockActs, r.lockCond = acts, canon
	}
	r.texts = append(r.texts, "if "+canon+" {")
	r.ptexts = append(r.ptexts, "if "+canon+" {")
	for _, s := range x.Body.List {
		if r.silent(s, false) {
			continue
		}
		switch y := s.(type) {
		case *ast.AssignStmt:
			// M := make(map[[W]byte]bool)
			if !second && y.Tok == token.DEFINE && len(y.Lhs) == 1 && len(y.Rhs) == 1 && r.mapName == "" && len(r.ops) == 0 {
				if c, ok := y.Rhs[0].(*ast.CallExpr); ok && src(c.Fun) == "make" && len(c.Args) == 1 {
					if mt, ok := c.Args[0].(*ast.MapType); ok && src(mt.Value) == "bool" {
						if w, ok := byteArrayWidth(mt.Key); ok {
							r.mapName, r.mapW = r.freshName(s, y.Lhs[0]), w
							r.texts = append(r.texts, fmt.Sprintf("pubKeyMap := make(map[[%d]byte]bool)", w))
							continue
						}
					}
				}
			}
		case *ast.RangeStmt:
			idx, ok := r.rangeOver(y, r.data)
			if !ok {
				r.fail(s, "a loop that is not `for i := range %s`", r.data)
			}
			if mentionsSelector(y.Body, "locker") > 0 {
				r.lockLoop(y, idx, second)
			} else if !second {
				node.body = append(node.body, r.scanLoop(y, idx))
			} else {
				r.fail(s, "unsupported loop after the rules call")
			}
			continue
		case *ast.ExprStmt:
			if m, args, ok := r.lockerCall(y.X); ok && !second && len(args) == 0 && (m == "PreLock" || m == "PostLock") {
				r.lockerSeen++
				r.ops = append(r.ops, rrOp{kind: map[string]string{"PreLock": "pre", "PostLock": "post"}[m]})
				r.ptexts = append(r.ptexts, "s.locker."+m+"()")
				continue
			}
		}
		r.fail(s, "unsupported statement in the locking `if`")
	}
	r.texts = append(r.texts, "}")
	r.ptexts = append(r.ptexts, "}")
	return node
}

// ---- the body of RunRules ----------------------------------------------------------------------

// innerCall: `S.runRules(ctx, credentials, action, D)`
func (r *rrShape) innerCall(e ast.Expr) bool {
	c, ok := e.(*ast.CallExpr)
	if !ok || c.Ellipsis != token.NoPos || len(c.Args) != 4 {
		return false
	}
	se, ok := c.Fun.(*ast.SelectorExpr)
	if !ok || se.Sel.Name != "runRules" || !r.isRole(se.X, r.k.recv) {
		return false
	}
	for i, want := range []string{r.ctx, r.creds, r.action, r.data} {
		if !r.isRole(c.Args[i], want) {
			r.fail(e, "argument %d of the rules call is not RunRules' own parameter", i+1)
		}
	}
	return true
}

// rrRoles: the receiver and the four parameters, by position and type; bodyChecks: also that the body defines none of
// the names the translation reads, and contains no `go` statement, function literal, label or select.
func rrRecognise(k *ktrans, fd *ast.FuncDecl, bodyChecks bool) *rrShape {
	r := &rrShape{k: k, used: map[string]bool{}}
	if k.recv == "" || src(fd.Recv.List[0].Type) != "*Service" || resultTypes(fd) != "[]rules.Result" {
		k.fail(nil, "%s is not a method of *Service returning []rules.Result", k.spec.fn)
	}
	ps := flatParams(fd)
	want := []string{"context.Context", "*checker.Credentials", "string", "[]*ruler.RulesData"}
	if len(ps) != len(want) {
		k.fail(nil, "%s does not take %d parameters", k.spec.fn, len(want))
	}
	for i, p := range ps {
		if p.typ != want[i] || p.name == "_" {
			k.fail(nil, "parameter %d of %s is not a named %s", i+1, k.spec.fn, want[i])
		}
	}
	r.ctx, r.creds, r.action, r.data = ps[0].name, ps[1].name, ps[2].name, ps[3].name
	var fail string
	if r.rules, fail = enumValues(k.repo, rulesResultFile, "Result"); fail != "" {
		k.fail(nil, "rules.Result: %s", fail)
	}
	r.consts, r.assigned = stringConsts(k.repo, rrActionsFile)
	if !bodyChecks {
		return r
	}
	defs := definitions(fd.Body)
	for _, n := range append([]string{k.recv, r.creds, r.action, r.data}, rrReserved...) {
		if n != "_" && len(defs[n]) > 0 {
			k.fail(nil, "%s rebinds %s", k.spec.fn, n)
		}
	}
	for _, p := range ps {
		for _, n := range append([]string{k.recv}, rrReserved...) {
			if p.name == n {
				k.fail(nil, "a parameter of %s hides %s", k.spec.fn, n)
			}
		}
	}
	ast.Inspect(fd.Body, func(n ast.Node) bool {
		switch n.(type) {
		case *ast.GoStmt:
			k.fail(n, "a `go` statement")
		case *ast.FuncLit:
			k.fail(n, "a function literal")
		case *ast.LabeledStmt, *ast.SelectStmt:
			k.fail(n, "unsupported statement")
		}
		return true
	})
	return r
}

func (r *rrShape) walkRunRules(fd *ast.FuncDecl) {
	k := r.k
	filling := false
	for _, s := range fd.Body.List {
		if r.returned {
			r.fail(s, "statement after the final return")
		}
		if r.silent(s, true) {
			continue
		}
		wasFilling := filling
		filling = false
		switch x := s.(type) {
		case *ast.IfStmt:
			if c, ok := r.lenCond(x.Cond); ok && x.Init == nil && x.Else == nil && r.results == "" {
				// if len(D) OP c { log…; return []rules.Result{…} }
				var rest []ast.Stmt
				for _, b := range x.Body.List {
					if !r.silent(b, false) {
						rest = append(rest, b)
					}
				}
				if len(rest) == 1 {
					if ret, ok := rest[0].(*ast.ReturnStmt); ok && len(ret.Results) == 1 {
						if cl, ok := ret.Results[0].(*ast.CompositeLit); ok && cl.Type != nil && src(cl.Type) == "[]rules.Result" {
							node := rrNode{kind: "len", cond: c}
							for _, el := range cl.Elts {
								node.vals = append(node.vals, r.rulesValue(el, el))
							}
							r.nodes = append(r.nodes, node)
							r.texts = append(r.texts, "if "+strings.Replace(src(x.Cond), r.data, "rulesData", 1)+" { return "+src(ret.Results[0])+" }")
							continue
						}
					}
				}
				r.fail(s, "the guard on the number of entries does not return a literal result list")
			}
			if acts, ok := r.lockingCond(x.Cond); ok {
				if node := r.lockIf(x, acts); len(node.body) > 0 || r.innerTo == "" {
					r.nodes = append(r.nodes, node) // (the unlocking counterpart after the rules call checks nothing)
				}
				continue
			}
		case *ast.AssignStmt:
			if n, ok := makeDefine(s, "[]rules.Result"); ok && r.results == "" {
				if !r.isLenData(x.Rhs[0].(*ast.CallExpr).Args[1]) {
					r.fail(s, "the result list is not created with len(%s) entries", r.data)
				}
				zero := -1
				for _, e := range r.rules {
					if e.val == 0 {
						zero = 0
					}
				}
				if zero != 0 {
					r.fail(s, "rules.Result has no enumerator for its zero value")
				}
				r.results, r.initVal = r.freshName(s, x.Lhs[0]), 0
				_ = n
				filling = true
				r.texts = append(r.texts, "results := make([]rules.Result, len(rulesData))")
				continue
			}
			// X := S.runRules(…)  (the explicit-unlock shape)
			if x.Tok == token.DEFINE && len(x.Lhs) == 1 && len(x.Rhs) == 1 && r.innerTo == "" && r.results != "" && r.innerCall(x.Rhs[0]) {
				r.innerTo = r.freshName(s, x.Lhs[0])
				r.ops = append(r.ops, rrOp{kind: "inner"})
				r.ptexts = append(r.ptexts, "out := s.runRules(ctx, credentials, action, rulesData)")
				continue
			}
		case *ast.RangeStmt:
			if wasFilling {
				// for I := range D|R { R[I] = rules.Y }
				if idx, ok := r.rangeOver(x, r.data, r.results); ok && len(x.Body.List) == 1 {
					if as, ok := x.Body.List[0].(*ast.AssignStmt); ok && as.Tok == token.ASSIGN && len(as.Lhs) == 1 && len(as.Rhs) == 1 {
						if ix, ok := as.Lhs[0].(*ast.IndexExpr); ok && r.isRole(ix.X, r.results) && r.isRole(ix.Index, idx) {
							r.initVal = r.rulesValue(as, as.Rhs[0])
							filling = true
							r.texts = append(r.texts, "for i := range rulesData { results[i] = "+src(as.Rhs[0])+" }")
							continue
						}
					}
				}
			}
			idx, ok := r.rangeOver(x, r.data)
			if !ok {
				r.fail(s, "a loop that is not `for i := range %s`", r.data)
			}
			if r.innerTo != "" || mentionsSelector(x.Body, "locker") > 0 {
				r.fail(s, "a locker loop outside the locking `if`")
			}
			r.nodes = append(r.nodes, r.scanLoop(x, idx))
			continue
		case *ast.ReturnStmt:
			if len(x.Results) == 1 && r.results != "" {
				if r.innerTo == "" && r.innerCall(x.Results[0]) {
					r.ops = append(r.ops, rrOp{kind: "inner", ret: true})
					r.nodes = append(r.nodes, rrNode{kind: "pass"})
					r.ptexts = append(r.ptexts, "return s.runRules(ctx, credentials, action, rulesData)")
					r.texts = append(r.texts, "return s.runRules(ctx, credentials, action, rulesData)")
					r.returned = true
					continue
				}
				if r.innerTo != "" && r.isRole(x.Results[0], r.innerTo) {
					r.nodes = append(r.nodes, rrNode{kind: "pass"})
					r.ptexts = append(r.ptexts, "return out")
					r.texts = append(r.texts, "out := s.runRules(ctx, credentials, action, rulesData); …; return out")
					r.returned = true
					continue
				}
			}
		}
		r.fail(s, "unsupported statement in %s", k.spec.fn)
	}
	if !r.returned {
		k.fail(nil, "%s does not end in a return of the rules call", k.spec.fn)
	}
	if n := mentionsSelector(fd.Body, "locker"); n != r.lockerSeen {
		k.fail(nil, "%s touches the locker outside the recognised calls", k.spec.fn)
	}
	if r.mapName != "" {
		c := countIdent(fd.Body, r.mapName)
		if (r.used["dupKey"] && c != 3) || (!r.used["dupKey"] && c != 1 && c != 2) {
			k.fail(nil, "the key map is used outside its creation, the lookup and the insertion")
		}
	}
}

// ---- emission: validation ----------------------------------------------------------------------

func intList(vs []int) string {
	q := make([]string, len(vs))
	for i, v := range vs {
		q[i] = strconv.Itoa(v)
	}
	return "[" + strings.Join(q, ", ") + "]"
}

func (r *rrShape) render(nodes []rrNode, ind string) string {
	if len(nodes) == 0 {
		r.k.fail(nil, "a path through %s ends without a return", r.k.spec.fn)
	}
	n, rest := nodes[0], nodes[1:]
	switch n.kind {
	case "pass":
		return "none"
	case "len":
		return "if " + n.cond + " then some " + intList(n.vals) + "\n" + ind + "else " + r.render(rest, ind)
	case "scan":
		var gs []string
		for _, g := range n.guards {
			gs = append(gs, fmt.Sprintf("(%s, %d)", g.param, g.val))
		}
		return "match scanExitGen [" + strings.Join(gs, ", ") + "] with\n" +
			ind + fmt.Sprintf("| some (i, v) => some ((List.replicate n %d).set i v)\n", r.initVal) +
			ind + "| none =>\n" + ind + "  " + r.render(rest, ind+"  ")
	case "lockif":
		body := append(append([]rrNode{}, n.body...), rest...)
		return "if locking then\n" + ind + "  (" + r.render(body, ind+"   ") + ")\n" + ind + "else\n" + ind + "  " + r.render(rest, ind+"  ")
	}
	r.k.fail(nil, "internal: unknown node")
	return ""
}

const rrFixed = `/-- (fixed text, not translated from any source) what a Go loop ` + "`for i := range xs { if C₁(i) { r[i] = v₁; return r }; …; if Cₘ(i) { r[i] = vₘ; return r } }`" + `
    does, given for each guard IN SOURCE ORDER the first index at which its condition holds (` + "`none`" + `: at no index) and
    the value it writes: it returns at the SMALLEST of these indices, through the guard that comes first in the source
    among those whose condition holds there; ` + "`none`" + `: the loop runs to its end.  (Dirk/Props/KernelsEq.lean,
    ` + "`scanExit_eq_run`" + `, proves this against a step-by-step execution of such a loop.) -/
def scanExitGen : List (Option Nat × Nat) → Option (Nat × Nat)
  | [] => none
  | (none, _) :: rest => scanExitGen rest
  | (some i, v) :: rest =>
    match scanExitGen rest with
    | some (j, w) => if j < i then some (j, w) else some (i, v)
    | none => some (i, v)

/-- (fixed text) ` + "`var key [w]byte; copy(key[:], pubKey)`" + `: the first w bytes of pubKey, zero padded -/
def keyOfWidthGen (w : Nat) (pubKey : Bytes) : Bytes := (pubKey ++ List.replicate w 0).take w

`

func transRunRulesValidate(k *ktrans, fd *ast.FuncDecl) string {
	r := rrRecognise(k, fd, true)
	r.walkRunRules(fd)
	var b strings.Builder
	b.WriteString(rrFixed)
	k.docHead(&b, "the checks made before any lock is taken.  `none`: they pass (the locks are taken if `locking`, and `runRules` is called);\n"+
		"    `some l`: the list returned early, as `rules.Result` enumerator values (`rulesResultValuesGen`).\n"+
		"    n = `len(rulesData)`; locking = the condition of the locking `if` (`runRulesIsLockingGen action`).  Each `first…` parameter is the\n"+
		"    least i < n at which the corresponding condition, read as a predicate of the index i alone, holds (`none`: at no i < n):\n"+
		"    firstNil: `rulesData[i] == nil`; firstNilData: `rulesData[i].Data == nil`; firstEmptyKey: `len(rulesData[i].PubKey) == 0`;\n"+
		"    firstDupKey: `pubKeyMap[key]` exists, i.e. the key of entry i (`runRulesKeyGen`) equals the key of an entry j < i — the map is\n"+
		"    created empty before the loop and entry j's key is inserted at the end of iteration j, the only writes to it.\n"+
		"    Where the Go cannot evaluate a condition (a guard before it returns first, or an earlier loop has returned) its value is\n"+
		"    irrelevant: `scanExitGen` only looks at the smallest index, ties going to the guard that comes first in the source.\n"+
		"    One `match scanExitGen […]` per Go loop, in source order, the guards of a loop in source order")
	fmt.Fprintf(&b, "def runRulesValidateGen (n : Nat) (firstNil firstNilData : Option Nat) (locking : Bool) (firstEmptyKey firstDupKey : Option Nat) : Option (List Nat) :=\n  %s\n\n", r.render(r.nodes, "  "))

	// the locking actions
	var vals, conds []string
	for _, a := range r.lockActs {
		vals = append(vals, r.consts[a])
		conds = append(conds, "action == "+leanStr(r.consts[a]))
	}
	if len(conds) == 0 {
		conds = []string{"false"}
	}
	fmt.Fprintf(&b, "/-- … the actions for which the checks on the keys are made and the locks are taken: the names compared with in the condition of the\n    locking `if` (`%s`), by VALUE (%s: declared with a string literal, and — being variables — assigned to nowhere in the\n    repository's non-test files), in source order -/\ndef runRulesLockingActionsGen : List String := %s\n\n",
		r.lockCond, rrActionsFile, leanList(vals))
	fmt.Fprintf(&b, "/-- … that condition itself -/\ndef runRulesIsLockingGen (action : String) : Bool :=\n  %s\n\n", strings.Join(conds, " || "))
	expr := r.dupExpr
	if !r.used["dupKey"] {
		expr = "(no duplicate-key check)"
	}
	fmt.Fprintf(&b, "/-- … how the key of the duplicate check's map is built (locals printed as their roles), its width in bytes, and the same as a function -/\n"+
		"def runRulesDupKeyExprGen : String := %s\ndef runRulesKeyWidthGen : Nat := %d\ndef runRulesKeyGen (pubKey : Bytes) : Bytes := keyOfWidthGen %d pubKey\n\n",
		leanStr(expr), r.dupW, r.dupW)
	k.emitGuardTexts(&b, r.texts)
	return b.String()
}

// ---- emission: lock protocol -------------------------------------------------------------------

func transRunRulesProtocol(k *ktrans, fd *ast.FuncDecl) string {
	r := rrRecognise(k, fd, true)
	r.walkRunRules(fd)
	var toks, pieces, deferred []string
	mapKey := func(fn string, w int, rev bool) string {
		l := "keys"
		if rev {
			l = "keys.reverse"
		}
		return fmt.Sprintf("%s.map (fun k => %s (keyOfWidthGen %d k))", l, fn, w)
	}
	lockW := 0
	for _, op := range r.ops {
		switch op.kind {
		case "pre":
			toks = append(toks, "PreLock")
			pieces = append(pieces, "[pre]")
		case "post":
			toks = append(toks, "PostLock")
			pieces = append(pieces, "[post]")
		case "loop":
			toks = append(toks, "for-each-in-order: "+strings.Join(op.toks, "; "))
			if op.lock {
				pieces = append(pieces, mapKey("lock", op.width, false))
				lockW = op.width
			}
			if op.unl {
				pieces = append(pieces, mapKey("unlock", op.width, false))
			}
			if op.dfr {
				// registered once per iteration of a forward loop: run at the return, last registered first
				deferred = append([]string{mapKey("unlock", op.width, true)}, deferred...)
			}
		case "inner":
			pieces = append(pieces, "inner")
			if op.ret {
				toks = append(toks, "return runRules")
			} else {
				toks = append(toks, "call runRules")
			}
		}
	}
	if r.innerTo != "" {
		toks = append(toks, "return")
	}
	pieces = append(pieces, deferred...)

	var b strings.Builder
	k.docHead(&b, "the locker calls and the rules call of the locking actions, in source order, loops made explicit, locals printed as\n"+
		"    their roles (`keyW(PubKey)` = `var key [W]byte; copy(key[:], rulesData[i].PubKey)`).  Nothing else in the function touches the locker,\n"+
		"    there is no `go` statement, no return between the first and the last of them except the one shown, every loop is `for i := range rulesData`")
	fmt.Fprintf(&b, "def runRulesLockProtocolGen : List String := %s\n\n", leanList(toks))
	fmt.Fprintf(&b, "/-- … the width of the key handed to `Lock` -/\ndef runRulesLockKeyWidthGen : Nat := %d\n\n", lockW)
	fmt.Fprintf(&b, "/-- … the calls this makes for the concrete public keys `keys` (in request order) when the rules call makes the calls `inner`,\n"+
		"    DERIVED from the list above: a `for i := range` loop visits the keys in order; a `defer` registered in such a loop runs when the\n"+
		"    function returns — after the rules call — last registered first, hence `keys.reverse` -/\n"+
		"def lockCallsTokGen {τ : Type} (pre post : τ) (lock unlock : Bytes → τ) (keys : List Bytes) (inner : List τ) : List τ :=\n  %s\n\n",
		strings.Join(pieces, " ++ "))
	b.WriteString("/-- … the same with strings as tokens -/\n" +
		"def lockTokGen (k : Bytes) : String := \"lock \" ++ toString k\n" +
		"def unlockTokGen (k : Bytes) : String := \"unlock \" ++ toString k\n" +
		"def lockCallsGen (keys : List Bytes) (inner : List String) : List String :=\n" +
		"  lockCallsTokGen \"pre\" \"post\" lockTokGen unlockTokGen keys inner\n\n")
	k.emitGuardTexts(&b, r.ptexts)
	return b.String()
}

// ---- the head of runRules ----------------------------------------------------------------------

func transRunRulesPath(k *ktrans, fd *ast.FuncDecl) string {
	r := rrRecognise(k, fd, false)
	var head *ast.IfStmt
	var after int
	for i, s := range fd.Body.List {
		if r.silent(s, true) {
			continue
		}
		x, ok := plainIf(s)
		if !ok {
			k.fail(s, "the first statement of %s is not the choice of the path", k.spec.fn)
		}
		head, after = x, len(fd.Body.List)-i-1
		break
	}
	if head == nil || after == 0 {
		k.fail(nil, "%s has no path choice followed by the per-entry path", k.spec.fn)
	}
	// { return S.runRulesForMultipleBeaconAttestations(ctx, credentials, D) }
	ok := false
	if len(head.Body.List) == 1 {
		if ret, isRet := head.Body.List[0].(*ast.ReturnStmt); isRet && len(ret.Results) == 1 {
			if c, isCall := ret.Results[0].(*ast.CallExpr); isCall && len(c.Args) == 3 && c.Ellipsis == token.NoPos {
				se, isSel := c.Fun.(*ast.SelectorExpr)
				ok = isSel && se.Sel.Name == rrBatchFn && r.isRole(se.X, k.recv) &&
					r.isRole(c.Args[0], r.ctx) && r.isRole(c.Args[1], r.creds) && r.isRole(c.Args[2], r.data)
			}
		}
	}
	if !ok {
		k.fail(head, "the path choice does not return %s.%s(ctx, credentials, rulesData)", k.recv, rrBatchFn)
	}
	if countIdent(fd.Body, rrBatchFn) != 1 {
		k.fail(nil, "%s is mentioned more than once", rrBatchFn)
	}
	att := r.actionValue(nil, rrAttestConst)
	var cond func(e ast.Expr) (string, string)
	cond = func(e ast.Expr) (string, string) {
		switch x := e.(type) {
		case *ast.ParenExpr:
			a, t := cond(x.X)
			return "(" + a + ")", "(" + t + ")"
		case *ast.BinaryExpr:
			if x.Op == token.LAND || x.Op == token.LOR {
				a, ta := cond(x.X)
				c, tc := cond(x.Y)
				op := " && "
				if x.Op == token.LOR {
					op = " || "
				}
				return a + op + c, ta + op + tc
			}
			if c, ok := r.lenCond(e); ok {
				return "decide (" + c + ")", "len(rulesData) " + x.Op.String() + " " + src(x.Y)
			}
			if x.Op == token.EQL || x.Op == token.NEQ {
				l, c := x.X, x.Y
				if !r.isRole(l, r.action) {
					l, c = c, l
				}
				if se, ok := c.(*ast.SelectorExpr); ok && r.isRole(l, r.action) && src(se.X) == "ruler" && se.Sel.Name == rrAttestConst {
					if x.Op == token.NEQ {
						return "!isAttestation", "action != ruler." + rrAttestConst
					}
					return "isAttestation", "action == ruler." + rrAttestConst
				}
			}
		}
		k.fail(e, "path condition outside the fragment (len(rulesData) OP literal, action ==/!= ruler.%s, &&, ||)", rrAttestConst)
		return "", ""
	}
	lean, text := cond(head.Cond)
	var b strings.Builder
	k.docHead(&b, "its first statement, the choice of the path: 1 = the batch path (`return s."+rrBatchFn+"(ctx, credentials, rulesData)`),\n"+
		"    0 = the per-entry path (the rest of the function).  n = `len(rulesData)`; isAttestation: `action == ruler."+rrAttestConst+"`")
	fmt.Fprintf(&b, "def runRulesPathGen (n : Nat) (isAttestation : Bool) : Nat :=\n  if %s then 1\n  else 0\n\n", lean)
	fmt.Fprintf(&b, "/-- … the value of `ruler.%s` (%s) -/\ndef runRulesAttestationActionGen : String := %s\n\n", rrAttestConst, rrActionsFile, leanStr(att))
	k.emitGuardTexts(&b, []string{"if " + text + " { return s." + rrBatchFn + "(ctx, credentials, rulesData) }", "(the per-entry path)"})
	return b.String()
}
