// signloop.go — P15: the "Carry out the signing" loop at the end of SignBeaconAttestations and Multisign
// (services/signer/standard), cut into two kernels per function:
//
//   - signLoopPos…Gen: ONE visited position of the loop body, read as a decision tree over the rules verdict (the
//     `switch rulesResults[i]`, arm by arm in source order, `continue` = leaf) and the error results of the allow-listed
//     calls (`attestation.HashTreeRoot()`, `generateSigningRoot`, `signRoot`), giving the core.Result written to
//     results[i] (as the enumerator's integer value) and whether signatures[i] is assigned;
//   - signLoopBound…Gen & co: the length handed to util.Scatter for that loop, the `for` header, the variable the switch
//     reads, and how `results` / `signatures` are created — as canonical source strings.
//
// The enumerator VALUES of rules.Result and core.Result are computed from their iota blocks (enumValues).
// The function skeleton must be
//
//	func (s *Service) F(…) ([]core.Result, [][]byte) {
//	    …
//	    R := make([]core.Result, N)  [for I := range R { R[I] = core.X }]*
//	    …
//	    S := make([][]byte, N)
//	    …
//	    V := s.ruler.RunRules(…)
//	    …
//	    _, err = util.Scatter(L, func(offset int, entries int, _ *sync.RWMutex) (any, error) {
//	        for i := A; C; P { BODY }                      (the only Scatter whose closure mentions S)
//	        return <no mention of R, S>, nil
//	    })
//	    [log… | if err != nil { log… }]*
//	    return R, S
//	}
//
// with S mentioned nowhere else, V defined once and only read (len(V), V[…]).  BODY may contain (anything else ⇒ kernelUntranslatable_…):
//
//	log…/s.monitor… calls with pure arguments not mentioning R or S        (ignored)
//	switch V[i] { case rules.X[, rules.Y]: …; [default: …] }                (no init, no fallthrough / break)
//	R[i] = core.ResultX         S[i] = <pure expression | local.Marshal()>
//	continue                                                              (last statement of its block, unlabelled)
//	x := &T{…pure…} / T{…}     copy(x…[:], <pure>)                         (the attestation struct, x a fresh local)
//	x, err := x.HashTreeRoot() | generateSigningRoot(ctx, pure…) | signRoot(ctx, pure…)   (in this order, fresh x)
//	if err != nil { … }                                                   (no init, no else; err from the last such call)
package main

import (
	"fmt"
	"go/ast"
	"go/token"
	"path/filepath"
	"strconv"
	"strings"
)

// ---------------------------------------------------------------------------------------------
// enumerator values of an iota block

type enumVal struct {
	name string
	val  int
}

type enumErr string

// evalIota: the value of a constant expression made of iota, integer literals, + - * and parentheses.
func evalIota(e ast.Expr, iota int) int {
	switch x := e.(type) {
	case *ast.Ident:
		if x.Name == "iota" {
			return iota
		}
	case *ast.BasicLit:
		if x.Kind == token.INT {
			if v, err := strconv.ParseInt(x.Value, 0, 32); err == nil {
				return int(v)
			}
		}
	case *ast.ParenExpr:
		return evalIota(x.X, iota)
	case *ast.BinaryExpr:
		a, b := evalIota(x.X, iota), evalIota(x.Y, iota)
		switch x.Op {
		case token.ADD:
			return a + b
		case token.SUB:
			return a - b
		case token.MUL:
			return a * b
		}
	}
	panic(enumErr("constant expression outside the fragment (iota, integer literals, + - *): " + src(e)))
}

// enumValues: the constants of type `typ` declared in the const blocks of `file`, in declaration order, with their
// values.  Implicit repetition of the previous expression (and type) follows the Go specification.
func enumValues(repo, file, typ string) (out []enumVal, fail string) {
	defer func() {
		if r := recover(); r != nil {
			e, ok := r.(enumErr)
			if !ok {
				panic(r)
			}
			out, fail = nil, string(e)
		}
	}()
	f := parse(filepath.Join(repo, file))
	if f == nil {
		return nil, "cannot parse " + file
	}
	for _, d := range f.Decls {
		gd, ok := d.(*ast.GenDecl)
		if !ok || gd.Tok != token.CONST {
			continue
		}
		var exprs []ast.Expr
		curType := ""
		for j, sp := range gd.Specs {
			vs := sp.(*ast.ValueSpec)
			if len(vs.Values) > 0 {
				exprs = vs.Values
				curType = ""
				if vs.Type != nil {
					curType = src(vs.Type)
				}
			} else if vs.Type != nil {
				panic(enumErr("typed constant without a value: " + src(vs)))
			}
			if curType != typ {
				continue
			}
			if len(vs.Names) != len(exprs) {
				panic(enumErr("constant specification with mismatched names and values: " + src(vs)))
			}
			for n, nm := range vs.Names {
				v := evalIota(exprs[n], j)
				if v < 0 {
					panic(enumErr("negative enumerator value: " + nm.Name))
				}
				if nm.Name != "_" {
					out = append(out, enumVal{nm.Name, v})
				}
			}
		}
	}
	if len(out) == 0 {
		return nil, "no constant of type " + typ + " in " + file
	}
	seen := map[int]string{}
	for _, e := range out {
		if o, dup := seen[e.val]; dup {
			return nil, fmt.Sprintf("enumerators %s and %s of %s have the same value", o, e.name, typ)
		}
		seen[e.val] = e.name
	}
	return out, ""
}

func leanEnum(vals []enumVal) string {
	var q []string
	for _, v := range vals {
		q = append(q, fmt.Sprintf("(%s, %d)", leanStr(v.name), v.val))
	}
	return "[" + strings.Join(q, ", ") + "]"
}

func enumLookup(vals []enumVal, name string) (int, bool) {
	for _, v := range vals {
		if v.name == name {
			return v.val, true
		}
	}
	return 0, false
}

const (
	rulesResultFile = "rules/service.go"
	coreResultFile  = "core/result.go"
)

// resultEnums: the block of enumerator facts emitted once, before the signing-loop kernels.
func resultEnums(repo string) string {
	var b strings.Builder
	rv, rfail := enumValues(repo, rulesResultFile, "Result")
	if rfail != "" {
		fmt.Fprintf(&b, "/-- the enumerators of rules.Result (%s) could not be evaluated -/\ndef kernelUntranslatable_rulesResultValuesGen : String :=\n  %s\n\n", rulesResultFile, leanStr(rfail))
	} else {
		fmt.Fprintf(&b, "/-- %s: the enumerators of `rules.Result` with the values their iota block gives them, in declaration order -/\ndef rulesResultValuesGen : List (String × Nat) := %s\n\n", rulesResultFile, leanEnum(rv))
	}
	cv, cfail := enumValues(repo, coreResultFile, "Result")
	if cfail != "" {
		fmt.Fprintf(&b, "/-- the enumerators of core.Result (%s) could not be evaluated -/\ndef kernelUntranslatable_coreResultValuesGen : String :=\n  %s\n", coreResultFile, leanStr(cfail))
		return b.String()
	}
	fmt.Fprintf(&b, "/-- %s: the enumerators of `core.Result` with the values their iota block gives them, in declaration order -/\ndef coreResultValuesGen : List (String × Nat) := %s\n\n", coreResultFile, leanEnum(cv))
	zero, ok := enumLookup(cv, "ResultUnknown")
	fmt.Fprintf(&b, "/-- the zero value of `core.Result` (what `make([]core.Result, n)` fills the slice with) is the enumerator ResultUnknown -/\ndef coreResultZeroIsUnknownGen : Bool := %v\n", ok && zero == 0)
	return b.String()
}

// ---------------------------------------------------------------------------------------------
// the skeleton of the function around the signing loop

type signLoop struct {
	results, signatures string     // R, S
	resultsInit         ast.Stmt   // R := make([]core.Result, N)
	resultsFill         []ast.Stmt // the `for I := range R { R[I] = core.X }` loops directly after it
	sigInit             ast.Stmt   // S := make([][]byte, N)
	scatterStmt         ast.Stmt
	scatter             *ast.CallExpr
	closure             *ast.FuncLit
	loop                *ast.ForStmt
	idx                 string
	reserved            map[string]bool
}

// signPkgs: the packages and builtins the translation interprets by name; the function must not rebind them.
var signPkgs = []string{"core", "rules", "util", "sync", "spec", "copy", "len", "make", "nil", "true", "false", "uint64", "int64", "iota"}

// definitions: every identifier fd's body defines (:=, var, range, function-literal parameters), with positions.
func definitions(n ast.Node) map[string][]token.Pos {
	out := map[string][]token.Pos{}
	add := func(e ast.Expr) {
		if id, ok := e.(*ast.Ident); ok && id.Name != "_" {
			out[id.Name] = append(out[id.Name], id.Pos())
		}
	}
	ast.Inspect(n, func(m ast.Node) bool {
		switch x := m.(type) {
		case *ast.AssignStmt:
			if x.Tok == token.DEFINE {
				for _, l := range x.Lhs {
					add(l)
				}
			}
		case *ast.ValueSpec:
			for _, nm := range x.Names {
				add(nm)
			}
		case *ast.RangeStmt:
			if x.Tok == token.DEFINE {
				if x.Key != nil {
					add(x.Key)
				}
				if x.Value != nil {
					add(x.Value)
				}
			}
		case *ast.FuncLit:
			for _, f := range x.Type.Params.List {
				for _, nm := range f.Names {
					add(nm)
				}
			}
		case *ast.TypeSwitchStmt:
			if as, ok := x.Assign.(*ast.AssignStmt); ok {
				for _, l := range as.Lhs {
					add(l)
				}
			}
		case *ast.LabeledStmt:
			add(x.Label)
		}
		return true
	})
	return out
}

func countIdent(n ast.Node, name string) (c int) {
	ast.Inspect(n, func(m ast.Node) bool {
		if id, ok := m.(*ast.Ident); ok && id.Name == name {
			c++
		}
		return true
	})
	return c
}

// makeDefine: `X := make(T, n)` with X an identifier; returns X.
func makeDefine(st ast.Stmt, typ string) (string, bool) {
	as, ok := st.(*ast.AssignStmt)
	if !ok || as.Tok != token.DEFINE || len(as.Lhs) != 1 || len(as.Rhs) != 1 {
		return "", false
	}
	id, ok := as.Lhs[0].(*ast.Ident)
	call, isCall := as.Rhs[0].(*ast.CallExpr)
	if !ok || !isCall || src(call.Fun) != "make" || len(call.Args) != 2 || src(call.Args[0]) != typ {
		return "", false
	}
	return id.Name, true
}

const scatterClosureType = "func(offset int, entries int, _ *sync.RWMutex) (any, error)"

func (k *ktrans) signSkeleton(fd *ast.FuncDecl) *signLoop {
	sh := &signLoop{reserved: map[string]bool{}}
	if k.recv == "" || resultTypes(fd) != "[]core.Result, [][]byte" {
		k.fail(nil, "%s is not a method returning ([]core.Result, [][]byte)", k.spec.fn)
	}
	list := fd.Body.List
	if len(list) == 0 {
		k.fail(nil, "%s has an empty body", k.spec.fn)
	}
	ret, ok := list[len(list)-1].(*ast.ReturnStmt)
	if !ok || len(ret.Results) != 2 {
		k.fail(list[len(list)-1], "%s does not end in `return R, S`", k.spec.fn)
	}
	rid, ok1 := ret.Results[0].(*ast.Ident)
	sid, ok2 := ret.Results[1].(*ast.Ident)
	if !ok1 || !ok2 || rid.Name == sid.Name {
		k.fail(ret, "%s does not end in `return R, S`", k.spec.fn)
	}
	sh.results, sh.signatures = rid.Name, sid.Name
	defs := definitions(fd.Body)
	for _, p := range signPkgs {
		if len(defs[p]) > 0 {
			k.fail(nil, "%s rebinds %s", k.spec.fn, p)
		}
	}
	// the creation of R (with the fill loops directly after it) and of S, at the top level of the body
	for i, st := range list {
		if n, ok := makeDefine(st, "[]core.Result"); ok && n == sh.results {
			if sh.resultsInit != nil {
				k.fail(st, "%s is created twice", sh.results)
			}
			sh.resultsInit = st
			for _, nx := range list[i+1:] {
				if !k.isFill(nx, sh.results) {
					break
				}
				sh.resultsFill = append(sh.resultsFill, nx)
			}
		}
		if n, ok := makeDefine(st, "[][]byte"); ok && n == sh.signatures {
			if sh.sigInit != nil {
				k.fail(st, "%s is created twice", sh.signatures)
			}
			sh.sigInit = st
		}
	}
	if sh.resultsInit == nil || sh.sigInit == nil {
		k.fail(nil, "%s does not create %s with make([]core.Result, n) and %s with make([][]byte, n) at its top level", k.spec.fn, sh.results, sh.signatures)
	}
	for _, p := range defs[sh.results] {
		if p > sh.resultsInit.Pos() {
			k.fail(nil, "%s is redefined after its creation", sh.results)
		}
	}
	if len(defs[sh.signatures]) != 1 {
		k.fail(nil, "%s is defined more than once", sh.signatures)
	}
	// the signing loop: the only top-level util.Scatter whose closure mentions S
	for _, st := range list {
		as, ok := st.(*ast.AssignStmt)
		if !ok || len(as.Rhs) != 1 {
			continue
		}
		call, ok := as.Rhs[0].(*ast.CallExpr)
		if !ok || src(call.Fun) != "util.Scatter" || len(call.Args) != 2 {
			continue
		}
		fl, ok := call.Args[1].(*ast.FuncLit)
		if !ok || !mentionsIdent(fl, sh.signatures) {
			continue
		}
		if sh.scatter != nil {
			k.fail(st, "more than one util.Scatter writes %s", sh.signatures)
		}
		for _, l := range as.Lhs {
			if n := src(l); n != "_" && n != "err" {
				k.fail(st, "the result of util.Scatter is kept")
			}
		}
		sh.scatterStmt, sh.scatter, sh.closure = st, call, fl
	}
	if sh.scatter == nil {
		k.fail(nil, "no top-level util.Scatter(n, func…) of %s mentions %s", k.spec.fn, sh.signatures)
	}
	if sh.scatterStmt.Pos() < sh.resultsInit.Pos() || sh.scatterStmt.Pos() < sh.sigInit.Pos() {
		k.fail(sh.scatterStmt, "the signing loop precedes the creation of its outputs")
	}
	// between the signing loop and the final return: log calls and `if err != nil { log… }` only
	after := false
	for _, st := range list[:len(list)-1] {
		if st == sh.scatterStmt {
			after = true
			continue
		}
		if !after || k.silentStmt(st) {
			continue
		}
		x, ok := plainIf(st)
		if !ok || !isErrNotNil(x.Cond) {
			k.fail(st, "unsupported statement between the signing loop and the final return")
		}
		for _, bs := range x.Body.List {
			if !k.silentStmt(bs) {
				k.fail(bs, "unsupported statement between the signing loop and the final return")
			}
		}
	}
	// S: created, written in the signing loop, returned at the end — mentioned nowhere else
	if countIdent(fd.Body, sh.signatures) != 2+countIdent(sh.closure, sh.signatures) {
		k.fail(nil, "%s is mentioned outside its creation, the signing loop and the final return", sh.signatures)
	}
	if t := src(sh.closure.Type); t != scatterClosureType {
		k.fail(sh.closure.Type, "the closure handed to util.Scatter is not %s", scatterClosureType)
	}
	body := sh.closure.Body.List
	if len(body) != 2 {
		k.fail(sh.closure, "the closure is not `for … { … }; return …, nil`")
	}
	loop, ok := body[0].(*ast.ForStmt)
	cret, ok2 := body[1].(*ast.ReturnStmt)
	if !ok || !ok2 || len(cret.Results) != 2 || src(cret.Results[1]) != "nil" ||
		mentionsIdent(cret, sh.results) || mentionsIdent(cret, sh.signatures) {
		k.fail(sh.closure, "the closure is not `for … { … }; return …, nil`")
	}
	if loop.Init == nil || loop.Cond == nil || loop.Post == nil {
		k.fail(loop, "for loop without init, condition or post statement")
	}
	init, ok := loop.Init.(*ast.AssignStmt)
	if !ok || init.Tok != token.DEFINE || len(init.Lhs) != 1 || len(init.Rhs) != 1 {
		k.fail(loop, "for loop does not define one index variable")
	}
	iv, ok := init.Lhs[0].(*ast.Ident)
	if !ok || iv.Name == "_" {
		k.fail(loop, "for loop does not define one index variable")
	}
	sh.loop, sh.idx = loop, iv.Name
	// names the loop body must not rebind
	for _, n := range signPkgs {
		sh.reserved[n] = true
	}
	for _, n := range []string{k.recv, sh.results, sh.signatures, sh.idx, "offset", "entries", "log", "err", "_"} {
		sh.reserved[n] = true
	}
	for _, p := range flatParams(fd) {
		sh.reserved[p.name] = true
	}
	return sh
}

// isFill: `for I := range R { R[I] = core.X }`
func (k *ktrans) isFill(st ast.Stmt, r string) bool {
	rs, ok := st.(*ast.RangeStmt)
	if !ok || rs.Tok != token.DEFINE || rs.Value != nil || src(rs.X) != r || len(rs.Body.List) != 1 {
		return false
	}
	key, ok := rs.Key.(*ast.Ident)
	if !ok {
		return false
	}
	as, ok := rs.Body.List[0].(*ast.AssignStmt)
	return ok && as.Tok == token.ASSIGN && len(as.Lhs) == 1 && len(as.Rhs) == 1 && src(as.Lhs[0]) == r+"["+key.Name+"]" &&
		strings.HasPrefix(src(as.Rhs[0]), "core.")
}

// switchTags: the switch statements in the loop body whose tag is `V[i]`.
func (sh *signLoop) switchTags() (out []*ast.SwitchStmt) {
	ast.Inspect(sh.loop.Body, func(n ast.Node) bool {
		if sw, ok := n.(*ast.SwitchStmt); ok && sw.Tag != nil {
			if ix, ok := sw.Tag.(*ast.IndexExpr); ok && src(ix.Index) == sh.idx {
				if _, isId := ix.X.(*ast.Ident); isId {
					out = append(out, sw)
				}
			}
		}
		return true
	})
	return out
}

// verdictsDef: the top-level statement `V := <recv>.ruler.RunRules(…)`, the only definition of V, before the loop.
func (k *ktrans) verdictsDef(fd *ast.FuncDecl, sh *signLoop, v string) ast.Stmt {
	var def ast.Stmt
	for _, st := range fd.Body.List {
		as, ok := st.(*ast.AssignStmt)
		if !ok || as.Tok != token.DEFINE || len(as.Lhs) != 1 || len(as.Rhs) != 1 || src(as.Lhs[0]) != v {
			continue
		}
		call, ok := as.Rhs[0].(*ast.CallExpr)
		if ok && src(call.Fun) == k.recv+".ruler.RunRules" {
			def = st
		}
	}
	if def == nil || len(definitions(fd.Body)[v]) != 1 || def.Pos() > sh.scatterStmt.Pos() {
		k.fail(nil, "%s is not defined exactly once, at the top level, by %s.ruler.RunRules(…), before the signing loop", v, k.recv)
	}
	// V is read only: besides its definition it occurs in len(V) and V[i]
	ast.Inspect(fd.Body, func(n ast.Node) bool {
		switch x := n.(type) {
		case *ast.AssignStmt:
			for _, l := range x.Lhs {
				if rootOf(l) == v && n != ast.Node(def) {
					k.fail(x, "%s is written after the rules call", v)
				}
			}
		case *ast.CallExpr:
			if src(x.Fun) != "len" {
				for _, a := range x.Args {
					if mentionsIdent(a, v) && !isLenOrIndexOnly(a, v) {
						k.fail(x, "%s is handed to a call", v)
					}
				}
			}
		case *ast.UnaryExpr:
			if x.Op == token.AND && mentionsIdent(x, v) {
				k.fail(x, "the address of %s is taken", v)
			}
		}
		return true
	})
	return def
}

// isLenOrIndexOnly: every occurrence of v inside e is `len(v)` or `v[…]`.
func isLenOrIndexOnly(e ast.Expr, v string) bool {
	total, good := countIdent(e, v), 0
	ast.Inspect(e, func(n ast.Node) bool {
		switch x := n.(type) {
		case *ast.CallExpr:
			if src(x.Fun) == "len" && len(x.Args) == 1 && src(x.Args[0]) == v {
				good++
			}
		case *ast.IndexExpr:
			if src(x.X) == v {
				good++
			}
		}
		return true
	})
	return total == good
}

// rootOf: like rootIdent, also through slices, dereferences and address-of.
func rootOf(e ast.Expr) string {
	for {
		switch x := e.(type) {
		case *ast.Ident:
			return x.Name
		case *ast.SelectorExpr:
			e = x.X
		case *ast.IndexExpr:
			e = x.X
		case *ast.SliceExpr:
			e = x.X
		case *ast.ParenExpr:
			e = x.X
		case *ast.StarExpr:
			e = x.X
		default:
			return ""
		}
	}
}

// ---------------------------------------------------------------------------------------------
// kernel: loop bound, index header, creation of the outputs

func transSignLoopBound(k *ktrans, fd *ast.FuncDecl) string {
	sh := k.signSkeleton(fd)
	sws := sh.switchTags()
	if len(sws) != 1 {
		k.fail(sh.loop, "the signing loop does not contain exactly one `switch V[%s]`", sh.idx)
	}
	v := src(sws[0].Tag.(*ast.IndexExpr).X)
	def := k.verdictsDef(fd, sh, v)
	suffix := strings.TrimSuffix(strings.TrimPrefix(k.spec.name, "signLoopBound"), "Gen") // Att / Multi
	var fills []string
	for _, f := range sh.resultsFill {
		fills = append(fills, src(f))
	}
	var b strings.Builder
	k.docHead(&b, "the length handed to util.Scatter for the final (signing) loop, as written")
	fmt.Fprintf(&b, "def %s : String := %s\n\n", k.spec.name, leanStr(src(sh.scatter.Args[0])))
	fmt.Fprintf(&b, "/-- … the header of the `for` loop inside its closure (`%s`) -/\ndef signLoopIndex%sGen : String := %s\n\n",
		scatterClosureType, suffix, leanStr(src(sh.loop.Init)+"; "+src(sh.loop.Cond)+"; "+src(sh.loop.Post)))
	fmt.Fprintf(&b, "/-- … the tag of the switch in its body, and the statement that defines the variable it reads -/\ndef signLoopSwitchTag%sGen : String := %s\ndef signLoopVerdicts%sGen : String := %s\n\n",
		suffix, leanStr(src(sws[0].Tag)), suffix, leanStr(src(def)))
	fmt.Fprintf(&b, "/-- … how the returned result slice is created, the fill loops directly after that, and how the returned signature slice is created -/\ndef signLoopInit%sGen : String := %s\ndef signLoopInitFill%sGen : List String := %s\ndef signLoopSigInit%sGen : String := %s\n\n",
		suffix, leanStr(src(sh.resultsInit)), suffix, leanList(fills), suffix, leanStr(src(sh.sigInit)))
	k.emitGuardTexts(&b, []string{
		src(sh.resultsInit), strings.Join(fills, "; "), src(sh.sigInit), src(def),
		"util.Scatter(" + src(sh.scatter.Args[0]) + ", " + src(sh.closure.Type) + " { for " + src(sh.loop.Init) + "; " + src(sh.loop.Cond) + "; " + src(sh.loop.Post) + " { switch " + src(sws[0].Tag) + " … } })",
		src(fd.Body.List[len(fd.Body.List)-1]),
	})
	return b.String()
}

// ---------------------------------------------------------------------------------------------
// kernel: one visited position

// signCalls: the allow-listed calls whose error result is an input, in the order they must occur.
type signCall struct{ fn, param string }

var signCallsAtt = []signCall{{"HashTreeRoot", "rootErr"}, {"generateSigningRoot", "signingRootErr"}, {"signRoot", "signErr"}}
var signCallsMulti = []signCall{{"generateSigningRoot", "signingRootErr"}, {"signRoot", "signErr"}}

type posState struct {
	res      string // value written to results[i] so far ("" = none yet)
	sig      bool   // signatures[i] assigned
	errParam string // the input standing for `err != nil` ("" = err not set by an allow-listed call)
	nextCall int
	locals   map[string]bool // locals the body has defined
	structs  map[string]bool // … those holding a struct literal (may be the target of copy, the receiver of HashTreeRoot)
}

func (s posState) fork() posState {
	c := s
	c.locals, c.structs = map[string]bool{}, map[string]bool{}
	for n := range s.locals {
		c.locals[n] = true
	}
	for n := range s.structs {
		c.structs[n] = true
	}
	return c
}

type pnode struct {
	leaf      string
	cond      string
	then, els *pnode
	block     bool // render as an indented block even in else position
}

func (n *pnode) render(ind string) string {
	if n.cond == "" {
		return n.leaf
	}
	var b strings.Builder
	b.WriteString("if " + n.cond + " then")
	if n.then.cond == "" {
		b.WriteString(" " + n.then.leaf)
	} else {
		b.WriteString("\n" + ind + "  " + n.then.render(ind+"  "))
	}
	b.WriteString("\n" + ind + "else")
	if n.els.cond == "" || !n.els.block {
		b.WriteString(" " + n.els.render(ind))
	} else {
		b.WriteString("\n" + ind + "  " + n.els.render(ind+"  "))
	}
	return b.String()
}

type posTrans struct {
	k        *ktrans
	sh       *signLoop
	verdicts string // V
	calls    []signCall
	rules    []enumVal
	core     []enumVal
	sawTag   bool
}

// signPure: an expression whose evaluation has no effect on R, S or V: literals, identifiers, selectors, index and slice
// expressions, struct literals (and their addresses) of such, and the conversions spec.Slot(…) etc.
func (p *posTrans) signPure(e ast.Expr) bool {
	switch x := e.(type) {
	case nil:
		return true
	case *ast.BasicLit:
		return true
	case *ast.Ident:
		return x.Name != p.sh.results && x.Name != p.sh.signatures
	case *ast.ParenExpr:
		return p.signPure(x.X)
	case *ast.SelectorExpr:
		return p.signPure(x.X)
	case *ast.IndexExpr:
		return p.signPure(x.X) && p.signPure(x.Index)
	case *ast.SliceExpr:
		return p.signPure(x.X) && p.signPure(x.Low) && p.signPure(x.High) && p.signPure(x.Max)
	case *ast.UnaryExpr:
		_, lit := x.X.(*ast.CompositeLit)
		return x.Op == token.AND && lit && p.signPure(x.X)
	case *ast.CompositeLit:
		for _, el := range x.Elts {
			if kv, ok := el.(*ast.KeyValueExpr); ok {
				if !p.signPure(kv.Value) {
					return false
				}
			} else if !p.signPure(el) {
				return false
			}
		}
		return true
	case *ast.CallExpr:
		switch src(x.Fun) {
		case "spec.Slot", "spec.CommitteeIndex", "spec.Epoch", "spec.Root", "spec.ValidatorIndex", "uint64", "int64", "len":
			return len(x.Args) == 1 && p.signPure(x.Args[0])
		}
	}
	return false
}

// silent: log / monitor calls that cannot touch R or S.
func (p *posTrans) silent(st ast.Stmt) bool {
	es, ok := st.(*ast.ExprStmt)
	if !ok {
		return false
	}
	call, ok := es.X.(*ast.CallExpr)
	if !ok || mentionsIdent(st, p.sh.results) || mentionsIdent(st, p.sh.signatures) {
		return false
	}
	if p.k.silentChain(call) {
		return true
	}
	// <recv>.monitor.M(pure…)
	if se, ok := call.Fun.(*ast.SelectorExpr); ok && src(se.X) == p.k.recv+".monitor" {
		for _, a := range call.Args {
			if !pureArg(a) {
				return false
			}
		}
		return true
	}
	return false
}

func (p *posTrans) fresh(n ast.Node, e ast.Expr, st *posState) string {
	id, ok := e.(*ast.Ident)
	if !ok || p.sh.reserved[id.Name] || id.Name == p.verdicts || p.k.silent[id.Name] {
		p.k.fail(n, "unusable local name %s", src(e))
	}
	st.locals[id.Name] = true
	delete(st.structs, id.Name)
	return id.Name
}

func (p *posTrans) coreValue(n ast.Node, e ast.Expr) string {
	se, ok := e.(*ast.SelectorExpr)
	if !ok || src(se.X) != "core" {
		p.k.fail(n, "value written to %s[%s] is not a core.Result enumerator", p.sh.results, p.sh.idx)
	}
	v, ok := enumLookup(p.core, se.Sel.Name)
	if !ok {
		p.k.fail(n, "core.%s is not an enumerator of core.Result in %s", se.Sel.Name, coreResultFile)
	}
	return strconv.Itoa(v)
}

func (p *posTrans) leaf(n ast.Node, st posState) *pnode {
	if st.res == "" {
		p.k.fail(n, "a path through the loop body ends without writing %s[%s]", p.sh.results, p.sh.idx)
	}
	return &pnode{leaf: fmt.Sprintf("(%s, %v)", st.res, st.sig)}
}

// walk: the decision tree of a statement list executed from state st; falling off its end ends the iteration.
func (p *posTrans) walk(list []ast.Stmt, st posState, end ast.Node) *pnode {
	k, sh := p.k, p.sh
	for i, s := range list {
		if p.silent(s) {
			continue
		}
		switch x := s.(type) {
		case *ast.EmptyStmt:
			continue
		case *ast.BranchStmt:
			if x.Tok != token.CONTINUE || x.Label != nil {
				k.fail(s, "unsupported branch statement")
			}
			// `continue` ends the iteration whatever follows it in its block
			return p.leaf(s, st)
		case *ast.AssignStmt:
			if x.Tok == token.ASSIGN && len(x.Lhs) == 1 && len(x.Rhs) == 1 {
				switch src(x.Lhs[0]) {
				case sh.results + "[" + sh.idx + "]":
					st.res = p.coreValue(s, x.Rhs[0])
					continue
				case sh.signatures + "[" + sh.idx + "]":
					ok := p.signPure(x.Rhs[0])
					if c, isCall := x.Rhs[0].(*ast.CallExpr); isCall && len(c.Args) == 0 {
						if se, isSel := c.Fun.(*ast.SelectorExpr); isSel && se.Sel.Name == "Marshal" && p.signPure(se.X) {
							ok = true
						}
					}
					if !ok {
						k.fail(s, "unsupported value assigned to %s[%s]", sh.signatures, sh.idx)
					}
					st.sig = true
					continue
				}
				k.fail(s, "unsupported assignment in the signing loop")
			}
			if x.Tok != token.DEFINE || len(x.Rhs) != 1 {
				k.fail(s, "unsupported assignment in the signing loop")
			}
			// x := &T{…} / T{…}
			if len(x.Lhs) == 1 {
				rhs := x.Rhs[0]
				if u, ok := rhs.(*ast.UnaryExpr); ok {
					rhs = u.X
				}
				if _, lit := rhs.(*ast.CompositeLit); !lit || !p.signPure(x.Rhs[0]) {
					k.fail(s, "unsupported definition in the signing loop")
				}
				st.structs[p.fresh(s, x.Lhs[0], &st)] = true
				continue
			}
			// x, err := <allow-listed call>
			call, ok := x.Rhs[0].(*ast.CallExpr)
			if !ok || len(x.Lhs) != 2 || src(x.Lhs[1]) != "err" {
				k.fail(s, "unsupported definition in the signing loop")
			}
			if st.nextCall >= len(p.calls) {
				k.fail(s, "call outside the allow-list, repeated or out of order")
			}
			want := p.calls[st.nextCall]
			switch fn := call.Fun.(type) {
			case *ast.Ident:
				if fn.Name != want.fn || fn.Name == "HashTreeRoot" || len(call.Args) == 0 || src(call.Args[0]) != "ctx" {
					k.fail(s, "call outside the allow-list, repeated or out of order (expected %s)", want.fn)
				}
				for _, a := range call.Args[1:] {
					if !p.signPure(a) {
						k.fail(s, "argument of %s outside the pure fragment", fn.Name)
					}
				}
			case *ast.SelectorExpr:
				recv, isId := fn.X.(*ast.Ident)
				if fn.Sel.Name != want.fn || want.fn != "HashTreeRoot" || !isId || !st.structs[recv.Name] || len(call.Args) != 0 {
					k.fail(s, "call outside the allow-list, repeated or out of order (expected %s)", want.fn)
				}
			default:
				k.fail(s, "call outside the allow-list")
			}
			if src(x.Lhs[0]) != "_" {
				p.fresh(s, x.Lhs[0], &st)
			}
			st.nextCall++
			st.errParam = want.param
			continue
		case *ast.ExprStmt:
			// copy(x…[:], pure)
			call, ok := x.X.(*ast.CallExpr)
			if !ok || src(call.Fun) != "copy" || len(call.Args) != 2 || !st.structs[rootOf(call.Args[0])] ||
				!p.signPure(call.Args[0]) || !p.signPure(call.Args[1]) {
				k.fail(s, "unsupported call in the signing loop")
			}
			continue
		case *ast.IfStmt:
			if x.Init != nil || x.Else != nil || !isErrNotNil(x.Cond) {
				k.fail(s, "unsupported if in the signing loop (only `if err != nil { … }`)")
			}
			if st.errParam == "" {
				k.fail(s, "err is tested before an allow-listed call sets it")
			}
			rest := list[i+1:]
			thenList := append(append([]ast.Stmt{}, x.Body.List...), rest...)
			return &pnode{cond: st.errParam, then: p.walk(thenList, st.fork(), end), els: p.walk(rest, st.fork(), end)}
		case *ast.SwitchStmt:
			ix, isIx := x.Tag.(*ast.IndexExpr)
			if x.Init != nil || !isIx || src(ix.Index) != sh.idx || src(ix.X) != p.verdicts || p.sawTag {
				k.fail(x.Tag, "unsupported switch in the signing loop (only one `switch %s[%s]`)", p.verdicts, sh.idx)
			}
			rest := list[i+1:]
			type arm struct {
				cond string
				body []ast.Stmt
			}
			var arms []arm
			var deflt []ast.Stmt
			hasDefault := false
			for _, c := range x.Body.List {
				cc := c.(*ast.CaseClause)
				for _, bs := range cc.Body {
					if br, ok := bs.(*ast.BranchStmt); ok && br.Tok != token.CONTINUE {
						k.fail(bs, "break / fallthrough / goto in a switch arm")
					}
				}
				if cc.List == nil {
					hasDefault, deflt = true, cc.Body
					continue
				}
				var cs []string
				for _, e := range cc.List {
					se, ok := e.(*ast.SelectorExpr)
					if !ok || src(se.X) != "rules" {
						k.fail(e, "case value is not a rules.Result enumerator")
					}
					v, ok := enumLookup(p.rules, se.Sel.Name)
					if !ok {
						k.fail(e, "rules.%s is not an enumerator of rules.Result in %s", se.Sel.Name, rulesResultFile)
					}
					cs = append(cs, fmt.Sprintf("verdict = %d", v))
				}
				arms = append(arms, arm{strings.Join(cs, " ∨ "), cc.Body})
			}
			_ = hasDefault
			// no arm matches: the default arm if there is one, else straight to the code after the switch
			p.sawTag = true
			node := p.walk(append(append([]ast.Stmt{}, deflt...), rest...), st.fork(), end)
			node.block = true
			for j := len(arms) - 1; j >= 0; j-- {
				body := append(append([]ast.Stmt{}, arms[j].body...), rest...)
				node = &pnode{cond: arms[j].cond, then: p.walk(body, st.fork(), end), els: node}
			}
			p.sawTag = false
			return node
		}
		k.fail(s, "unsupported statement in the signing loop")
	}
	return p.leaf(end, st)
}

// effects: the non-silent statements of a list as source text (for the guard list).
func (p *posTrans) effects(list []ast.Stmt) string {
	var out []string
	for _, s := range list {
		if p.silent(s) {
			continue
		}
		switch x := s.(type) {
		case *ast.IfStmt:
			out = append(out, "if "+src(x.Cond)+" { "+p.effects(x.Body.List)+" }")
		case *ast.AssignStmt:
			if len(x.Rhs) == 1 {
				r, amp := x.Rhs[0], ""
				if u, ok := r.(*ast.UnaryExpr); ok {
					r, amp = u.X, "&"
				}
				if cl, ok := r.(*ast.CompositeLit); ok {
					out = append(out, src(x.Lhs[0])+" := "+amp+src(cl.Type)+"{…}")
					continue
				}
			}
			out = append(out, src(s))
		default:
			out = append(out, src(s))
		}
	}
	return strings.Join(out, "; ")
}

func transSignLoopPos(k *ktrans, fd *ast.FuncDecl) string {
	sh := k.signSkeleton(fd)
	sws := sh.switchTags()
	if len(sws) != 1 {
		k.fail(sh.loop, "the signing loop does not contain exactly one `switch V[%s]`", sh.idx)
	}
	p := &posTrans{k: k, sh: sh, verdicts: src(sws[0].Tag.(*ast.IndexExpr).X)}
	k.verdictsDef(fd, sh, p.verdicts)
	sh.reserved[p.verdicts] = true
	var fail string
	if p.rules, fail = enumValues(k.repo, rulesResultFile, "Result"); fail != "" {
		k.fail(nil, "rules.Result: %s", fail)
	}
	if p.core, fail = enumValues(k.repo, coreResultFile, "Result"); fail != "" {
		k.fail(nil, "core.Result: %s", fail)
	}
	p.calls = signCallsMulti
	if strings.Contains(k.spec.name, "Att") {
		p.calls = signCallsAtt
	}
	tree := p.walk(sh.loop.Body.List, posState{locals: map[string]bool{}, structs: map[string]bool{}}, nil)

	var params []string
	for _, c := range p.calls {
		params = append(params, c.param)
	}
	var b strings.Builder
	k.docHead(&b, "ONE visited position of the final (signing) loop: the `core.Result` value written to `"+sh.results+"["+sh.idx+"]` and whether `"+
		sh.signatures+"["+sh.idx+"]` is assigned.\n    `verdict`: the value of `"+p.verdicts+"["+sh.idx+"]` (a `rules.Result`; a value no arm names falls out of the switch, as in Go);\n    "+
		strings.Join(params, ", ")+": the allow-listed calls "+callNames(p.calls)+" returned an error, in source order")
	fmt.Fprintf(&b, "def %s (verdict : Nat) (%s : Bool) : Nat × Bool :=\n  %s\n\n", k.spec.name, strings.Join(params, " "), tree.render("  "))

	// guard texts: the switch arm by arm, then the statements after it
	var texts []string
	for _, s := range sh.loop.Body.List {
		if p.silent(s) {
			continue
		}
		if sw, ok := s.(*ast.SwitchStmt); ok {
			texts = append(texts, "switch "+src(sw.Tag))
			for _, c := range sw.Body.List {
				cc := c.(*ast.CaseClause)
				head := "default"
				if cc.List != nil {
					var cs []string
					for _, e := range cc.List {
						cs = append(cs, src(e))
					}
					head = "case " + strings.Join(cs, ", ")
				}
				eff := p.effects(cc.Body)
				if eff == "" {
					eff = "(nothing: falls out of the switch)"
				} else if !strings.HasSuffix(eff, "continue") {
					eff += "; (falls out of the switch)"
				}
				texts = append(texts, head+": "+eff)
			}
			continue
		}
		texts = append(texts, p.effects([]ast.Stmt{s}))
	}
	k.emitGuardTexts(&b, texts)
	return b.String()
}

func callNames(cs []signCall) string {
	var q []string
	for _, c := range cs {
		q = append(q, c.fn)
	}
	return strings.Join(q, ", ")
}
