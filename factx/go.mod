module factx

go 1.22.0
