// precheck.go — P16: the signer's pre-check (services/signer/standard/helpers.go): `preCheck`, `fetchAccount`,
// `checkAccess`, `unlockAccount`, each read as a decision tree over Bool / Nat inputs and emitted as one Lean
// if-then-else term whose leaves are `core.Result` enumerator VALUES (computed from core/result.go's iota block by
// enumValues, signloop.go).
//
// The four functions must be methods of `*Service` with exactly the parameter and result types listed in pcKernels.
// Parameters and locals are recognised by ROLE (position / the call that produced them), never by name, so that a
// renaming changes nothing.  A body may contain (anything else ⇒ kernelUntranslatable_…):
//
//	log… / span… calls whose arguments are pure (identifiers, selectors, literals, fmt.Sprintf of such, W.Name() /
//	    A.Name() of the wallet / account)                                                              (ignored)
//	L := log.With()….Logger()      span, ctx := opentracing.StartSpanFromContext(ctx, "…")      defer span.Finish()   (ignored)
//	var x error | e2wtypes.Wallet | e2wtypes.Account                                   (top level only; the zero value)
//	x := <string expression>                       (preCheck only: fmt.Sprintf / W.Name() / A.Name() / literals / +)
//	lhs… := / = <allow-listed opaque call>           (table pcKernels: callee AND arguments are checked; every call at
//	                                                 most once on a path; in source-table order except in preCheck,
//	                                                 where the calls must be top-level statements and their order is emitted)
//	if C { … } [else { … } | else if …]              (no init; C over ==/!= nil, == "", ==/!= core.ResultX, Bool
//	                                                 locals, !, &&, ||, and — checkAccess only — the checker call)
//	return [W|nil, A|nil,] core.ResultX | R
//
// Blocks are translated by continuation (the statements after an `if` are appended to both arms), so no join of
// states is ever needed; a nested block that redefines an existing name (shadowing) is refused.
package main

import (
	"fmt"
	"go/ast"
	"go/token"
	"sort"
	"strconv"
	"strings"
)

const pcFile = "services/signer/standard/helpers.go"

type pcKind int

const (
	pcBool pcKind = iota // Go bool; lean = a Lean Bool term
	pcErr                // error; lean = a Lean Bool term for `!= nil`
	pcRes                // core.Result; lean = a Lean Nat term
	pcObj                // opaque value (interface / pointer / []byte); lean = a Lean Bool term for `== nil` ("" = not readable)
	pcStr                // string; lean = a Lean Bool term for `== ""` ("" = not readable); canon = canonical Go text
)

type pcVal struct {
	kind  pcKind
	lean  string
	role  string
	canon string // pcStr: canonical Go text
	slean string // pcStr: a Lean String term
}

type pcParam struct {
	typ  string // Go type text
	val  pcVal  // role, kind, and the Lean input that tells nil / empty
	name string // filled in: the Go identifier
}

// pcOut: one result of an opaque call, as bound to the corresponding left-hand side.
type pcOut struct{ val pcVal }

type pcCall struct {
	name   string   // callee name as emitted in preCheckOrderGen
	recv   string   // "$.fetcher" = a field of the method receiver; "$" = the receiver itself; "#locker" = a local of that role
	method string   // "" = type assertion `X.(typ)` of the local of role recv[1:]
	typ    string   // … its type
	args   []string // roles of the arguments, in order ("str" = any string expression: its canonical text is recorded)
	outs   []pcOut
	fetch  int  // fetchAccount: which fetch this call is
	inCond bool // the call may only appear as (part of) an if-condition, its single Bool result
}

type pcKernel struct {
	params  []pcParam
	results string
	leanSig string // parameters of the emitted definition
	leanRes string
	calls   []pcCall
	ordered bool // calls must occur in table order along every path
	topOnly bool // calls must be top-level statements (their order is emitted)
	fetch   bool // leaves carry which fetch was made
	strDefs bool // `x := <string expression>` allowed
	what    string
}

func obj(role, nilLean string) pcVal { return pcVal{kind: pcObj, role: role, lean: nilLean} }

var pcKernels = map[string]*pcKernel{
	"fetchAccountGen": {
		params: []pcParam{
			{typ: "context.Context", val: obj("ctx", "")},
			{typ: "string", val: pcVal{kind: pcStr, role: "name", lean: "nameEmpty", canon: "name", slean: "name"}},
			{typ: "[]byte", val: obj("pubKey", "keyNil")},
		},
		results: "e2wtypes.Wallet, e2wtypes.Account, core.Result",
		leanSig: "(nameEmpty keyNil fetchByNameErr fetchByKeyErr : Bool)", leanRes: "Nat × Nat",
		calls: []pcCall{
			{name: "FetchAccount", recv: "$.fetcher", method: "FetchAccount", args: []string{"ctx", "name"}, fetch: 1,
				outs: []pcOut{{obj("wallet", "")}, {obj("account", "")}, {pcVal{kind: pcErr, lean: "fetchByNameErr"}}}},
			{name: "FetchAccountByKey", recv: "$.fetcher", method: "FetchAccountByKey", args: []string{"ctx", "pubKey"}, fetch: 2,
				outs: []pcOut{{obj("wallet", "")}, {obj("account", "")}, {pcVal{kind: pcErr, lean: "fetchByKeyErr"}}}},
		},
		ordered: true, fetch: true,
		what: "the `core.Result` value returned and WHICH fetch was made on the way (0 none, 1 `FetchAccount(name)`, 2 `FetchAccountByKey(pubKey)`).\n" +
			"    nameEmpty: `name == \"\"`; keyNil: `pubKey == nil`; fetchByNameErr / fetchByKeyErr: that call returned an error",
	},
	"checkAccessGen": {
		params: []pcParam{
			{typ: "context.Context", val: obj("ctx", "")},
			{typ: "*checker.Credentials", val: obj("credentials", "")},
			{typ: "string", val: pcVal{kind: pcStr, role: "accountName", canon: "accountName", slean: "accountName"}},
			{typ: "string", val: pcVal{kind: pcStr, role: "action", canon: "action", slean: "action"}},
		},
		results: "core.Result",
		leanSig: "(checkerSaysYes : Bool)", leanRes: "Nat",
		calls: []pcCall{
			{name: "Check", recv: "$.checker", method: "Check", args: []string{"ctx", "credentials", "accountName", "action"}, inCond: true,
				outs: []pcOut{{pcVal{kind: pcBool, lean: "checkerSaysYes"}}}},
		},
		ordered: true,
		what:    "the `core.Result` value returned.  checkerSaysYes: the result of `s.checker.Check(ctx, credentials, accountName, action)` (the function's own parameters, in this order)",
	},
	"unlockAccountGen": {
		params: []pcParam{
			{typ: "context.Context", val: obj("ctx", "")},
			{typ: "e2wtypes.Wallet", val: obj("wallet", "walletNil")},
			{typ: "e2wtypes.Account", val: obj("account", "accountNil")},
		},
		results: "core.Result",
		leanSig: "(walletNil accountNil isLocker isUnlockedErr isUnlocked unlockErr unlockOk : Bool)", leanRes: "Nat",
		calls: []pcCall{
			{name: "AccountLocker", recv: "#account", typ: "e2wtypes.AccountLocker",
				outs: []pcOut{{obj("locker", "")}, {pcVal{kind: pcBool, lean: "isLocker"}}}},
			{name: "IsUnlocked", recv: "#locker", method: "IsUnlocked", args: []string{"ctx"},
				outs: []pcOut{{pcVal{kind: pcBool, lean: "isUnlocked"}}, {pcVal{kind: pcErr, lean: "isUnlockedErr"}}}},
			{name: "UnlockAccount", recv: "$.unlocker", method: "UnlockAccount", args: []string{"ctx", "wallet", "account"},
				outs: []pcOut{{pcVal{kind: pcBool, lean: "unlockOk"}}, {pcVal{kind: pcErr, lean: "unlockErr"}}}},
		},
		ordered: true,
		what: "the `core.Result` value returned.  walletNil / accountNil: the parameter is nil; isLocker: `account.(e2wtypes.AccountLocker)` holds;\n" +
			"    isUnlockedErr, isUnlocked: what `locker.IsUnlocked(ctx)` returned (error?, value); unlockErr, unlockOk: what\n" +
			"    `s.unlocker.UnlockAccount(ctx, wallet, account)` returned (error?, value)",
	},
	"preCheckGen": {
		params: []pcParam{
			{typ: "context.Context", val: obj("ctx", "")},
			{typ: "*checker.Credentials", val: obj("credentials", "")},
			{typ: "string", val: pcVal{kind: pcStr, role: "name", canon: "name", slean: "name"}},
			{typ: "[]byte", val: obj("pubKey", "")},
			{typ: "string", val: pcVal{kind: pcStr, role: "action", canon: "action", slean: "action"}},
		},
		results: "e2wtypes.Wallet, e2wtypes.Account, core.Result",
		leanSig: "(fetchRes checkRes unlockRes : Nat)", leanRes: "Nat",
		calls: []pcCall{
			{name: "fetchAccount", recv: "$", method: "fetchAccount", args: []string{"ctx", "name", "pubKey"},
				outs: []pcOut{{obj("wallet", "")}, {obj("account", "")}, {pcVal{kind: pcRes, lean: "fetchRes"}}}},
			{name: "checkAccess", recv: "$", method: "checkAccess", args: []string{"ctx", "credentials", "str", "action"},
				outs: []pcOut{{pcVal{kind: pcRes, lean: "checkRes"}}}},
			{name: "unlockAccount", recv: "$", method: "unlockAccount", args: []string{"ctx", "wallet", "account"},
				outs: []pcOut{{pcVal{kind: pcRes, lean: "unlockRes"}}}},
		},
		topOnly: true, strDefs: true,
		what: "the composition: the `core.Result` value returned, given what the three callees returned (as `core.Result` values).\n" +
			"    fetchRes / checkRes / unlockRes: the result of `s.fetchAccount(ctx, name, pubKey)` / `s.checkAccess(ctx, credentials, <preCheckCheckedNameGen>, action)` /\n" +
			"    `s.unlockAccount(ctx, wallet, account)` with wallet, account the values the fetchAccount call returned",
	},
}

// pcPkgs: names the translation interprets; the function must not rebind them.
var pcPkgs = []string{"core", "fmt", "e2wtypes", "opentracing", "checker", "context", "nil", "true", "false", "string", "len", "error"}

type pcState struct {
	env   map[string]pcVal
	next  int          // ordered kernels: index of the first call still allowed
	done  map[int]bool // calls made on this path
	fetch int
	depth int
}

func (s pcState) fork() pcState {
	c := s
	c.env, c.done = map[string]pcVal{}, map[int]bool{}
	for n, v := range s.env {
		c.env[n] = v
	}
	for n := range s.done {
		c.done[n] = true
	}
	return c
}

type pcTrans struct {
	k    *ktrans
	kn   *pcKernel
	core []enumVal
	nres int
	sil  map[ast.Stmt]bool // statements found to be silent (for the guard texts)
	// preCheck
	order      []pcOrdered
	ordered    map[ast.Stmt]bool
	checked    pcString
	checkedSet bool
}

type pcOrdered struct {
	pos  token.Pos
	name string
}

// ---- expressions -------------------------------------------------------------------------------

func (p *pcTrans) lookup(e ast.Expr, st *pcState) (pcVal, bool) {
	id, ok := e.(*ast.Ident)
	if !ok {
		return pcVal{}, false
	}
	v, ok := st.env[id.Name]
	return v, ok
}

// pure: an expression a log call may read.
func (p *pcTrans) pure(e ast.Expr, st *pcState) bool {
	switch x := e.(type) {
	case *ast.BasicLit, *ast.Ident:
		return true
	case *ast.ParenExpr:
		return p.pure(x.X, st)
	case *ast.SelectorExpr:
		return p.pure(x.X, st)
	case *ast.CallExpr:
		switch src(x.Fun) {
		case "fmt.Sprintf", "len":
			for _, a := range x.Args {
				if !p.pure(a, st) {
					return false
				}
			}
			return true
		}
		return p.isNameCall(x, st) != ""
	}
	return false
}

// isNameCall: `W.Name()` / `A.Name()` with W, A the wallet / account; returns the role.
func (p *pcTrans) isNameCall(x *ast.CallExpr, st *pcState) string {
	se, ok := x.Fun.(*ast.SelectorExpr)
	if !ok || se.Sel.Name != "Name" || len(x.Args) != 0 {
		return ""
	}
	v, ok := p.lookup(se.X, st)
	if !ok || v.kind != pcObj || (v.role != "wallet" && v.role != "account") {
		return ""
	}
	return v.role
}

// pcString: a string expression, as canonical Go text (every local printed as its role) and as a Lean String term
// over walletName, accountName (= W.Name(), A.Name()) and the function's string parameters.
type pcString struct {
	canon, lean string
	atom        bool
}

func printable(s string) bool {
	for _, r := range s {
		if r < 0x20 || r > 0x7e {
			return false
		}
	}
	return true
}

func (p *pcTrans) strExpr(e ast.Expr, st *pcState) pcString {
	par := func(v pcString) string {
		if v.atom {
			return v.lean
		}
		return "(" + v.lean + ")"
	}
	switch x := e.(type) {
	case *ast.BasicLit:
		if x.Kind == token.STRING {
			if s, err := strconv.Unquote(x.Value); err == nil && printable(s) {
				return pcString{strconv.Quote(s), leanStr(s), true}
			}
		}
	case *ast.ParenExpr:
		v := p.strExpr(x.X, st)
		return pcString{"(" + v.canon + ")", par(v), true}
	case *ast.Ident:
		if v, ok := st.env[x.Name]; ok && v.kind == pcStr && v.canon != "" && v.slean != "" {
			return pcString{v.canon, v.slean, isAtomLean(v.slean)}
		}
	case *ast.BinaryExpr:
		if x.Op == token.ADD {
			a, b := p.strExpr(x.X, st), p.strExpr(x.Y, st)
			return pcString{a.canon + " + " + b.canon, par(a) + " ++ " + par(b), false}
		}
	case *ast.CallExpr:
		if r := p.isNameCall(x, st); r != "" {
			return pcString{r + ".Name()", r + "Name", true}
		}
		if src(x.Fun) == "fmt.Sprintf" && len(x.Args) > 0 && x.Ellipsis == token.NoPos {
			lit, ok := x.Args[0].(*ast.BasicLit)
			if !ok || lit.Kind != token.STRING {
				break
			}
			format, err := strconv.Unquote(lit.Value)
			if err != nil || !printable(format) {
				break
			}
			// only %s verbs, one per argument, every argument a string of the fragment
			pieces := strings.Split(format, "%s")
			if len(pieces)-1 != len(x.Args)-1 {
				p.k.fail(e, "fmt.Sprintf: number of %%s verbs and of arguments differ")
			}
			canon := []string{strconv.Quote(format)}
			var parts []string
			for i, pc := range pieces {
				if strings.Contains(pc, "%") {
					p.k.fail(e, "fmt.Sprintf with a verb other than %%s")
				}
				if pc != "" {
					parts = append(parts, leanStr(pc))
				}
				if i < len(pieces)-1 {
					a := p.strExpr(x.Args[i+1], st)
					canon = append(canon, a.canon)
					parts = append(parts, par(a))
				}
			}
			out := pcString{canon: "fmt.Sprintf(" + strings.Join(canon, ", ") + ")"}
			switch len(parts) {
			case 0:
				out.lean, out.atom = `""`, true
			case 1:
				out.lean, out.atom = parts[0], isAtomLean(parts[0])
			default:
				out.lean = strings.Join(parts, " ++ ")
			}
			return out
		}
	}
	p.k.fail(e, "string expression outside the fragment (literals, +, fmt.Sprintf with a literal format of %%s verbs, wallet.Name(), account.Name(), string parameters)")
	return pcString{}
}

func (p *pcTrans) strVal(e ast.Expr, st *pcState) pcVal {
	v := p.strExpr(e, st)
	return pcVal{kind: pcStr, canon: v.canon, slean: v.lean}
}

func (p *pcTrans) coreValue(n ast.Node, e ast.Expr) (string, bool) {
	se, ok := e.(*ast.SelectorExpr)
	if !ok || src(se.X) != "core" {
		return "", false
	}
	v, ok := enumLookup(p.core, se.Sel.Name)
	if !ok {
		p.k.fail(n, "core.%s is not an enumerator of core.Result in %s", se.Sel.Name, coreResultFile)
	}
	return strconv.Itoa(v), true
}

func isAtomLean(s string) bool {
	return !strings.ContainsAny(s, " ") || (strings.HasPrefix(s, "(") && strings.HasSuffix(s, ")") && balanced(s[1:len(s)-1]))
}

func balanced(s string) bool {
	d := 0
	for _, r := range s {
		switch r {
		case '(':
			d++
		case ')':
			d--
			if d < 0 {
				return false
			}
		}
	}
	return d == 0
}

func lparen(s string) string {
	if isAtomLean(s) {
		return s
	}
	return "(" + s + ")"
}

func lnot(s string) string {
	if strings.HasPrefix(s, "!") && isAtomLean(s[1:]) {
		return s[1:]
	}
	return "!" + lparen(s)
}

// cond: a condition as a Lean Bool term.  logical: inside an operand of && / || (an opaque call there would be
// evaluated conditionally: refused).
func (p *pcTrans) cond(e ast.Expr, st *pcState, logical bool) string {
	switch x := e.(type) {
	case *ast.ParenExpr:
		return p.cond(x.X, st, logical)
	case *ast.Ident:
		if v, ok := st.env[x.Name]; ok && v.kind == pcBool {
			return v.lean
		}
		if x.Name == "true" || x.Name == "false" {
			return x.Name
		}
	case *ast.UnaryExpr:
		if x.Op == token.NOT {
			return lnot(p.cond(x.X, st, logical))
		}
	case *ast.CallExpr:
		if logical {
			p.k.fail(e, "call inside an operand of && / ||")
		}
		ci, outs := p.matchCall(x, x, st)
		if !p.kn.calls[ci].inCond || len(outs) != 1 || outs[0].kind != pcBool {
			p.k.fail(e, "this call cannot be used as a condition")
		}
		return outs[0].lean
	case *ast.BinaryExpr:
		switch x.Op {
		case token.LAND, token.LOR:
			op := " && "
			if x.Op == token.LOR {
				op = " || "
			}
			a, b := p.cond(x.X, st, true), p.cond(x.Y, st, true)
			return lparen(a) + op + lparen(b)
		case token.EQL, token.NEQ:
			pos := ""
			l, r := x.X, x.Y
			if _, isVar := p.lookup(l, st); !isVar {
				l, r = r, l
			}
			v, ok := p.lookup(l, st)
			if !ok {
				break
			}
			switch {
			case src(r) == "nil" && v.kind == pcErr:
				pos = lnot(v.lean) // err == nil
			case src(r) == "nil" && v.kind == pcObj && v.lean != "":
				pos = v.lean
			case src(r) == `""` && v.kind == pcStr && v.lean != "":
				pos = v.lean
			case v.kind == pcRes:
				if c, isCore := p.coreValue(e, r); isCore {
					pos = "(" + v.lean + " == " + c + ")"
				}
			case v.kind == pcBool && (src(r) == "true" || src(r) == "false"):
				pos = v.lean
				if src(r) == "false" {
					pos = lnot(pos)
				}
			}
			if pos == "" {
				break
			}
			if x.Op == token.NEQ {
				if v.kind == pcRes {
					return strings.Replace(pos, " == ", " != ", 1)
				}
				return lnot(pos)
			}
			return pos
		}
	}
	p.k.fail(e, "condition outside the fragment")
	return ""
}

// hasCall: a call other than the name getters occurs in e.
func hasCall(e ast.Expr) (found bool) {
	ast.Inspect(e, func(n ast.Node) bool {
		if _, ok := n.(*ast.CallExpr); ok {
			found = true
		}
		return !found
	})
	return found
}

// ---- opaque calls ------------------------------------------------------------------------------

// matchCall: e (a call, or a type assertion) is one of the kernel's allow-listed opaque calls, with the arguments the
// table says, not made before on this path; returns its index and the values of its results.
func (p *pcTrans) matchCall(n ast.Node, e ast.Expr, st *pcState) (int, []pcVal) {
	k := p.k
	idx := -1
	var args []ast.Expr
	recvOK := func(c *pcCall, x ast.Expr) bool {
		switch {
		case c.recv == "$":
			id, ok := x.(*ast.Ident)
			return ok && id.Name == k.recv
		case strings.HasPrefix(c.recv, "$."):
			se, ok := x.(*ast.SelectorExpr)
			if !ok || se.Sel.Name != c.recv[2:] {
				return false
			}
			id, ok := se.X.(*ast.Ident)
			return ok && id.Name == k.recv
		case strings.HasPrefix(c.recv, "#"):
			v, ok := p.lookup(x, st)
			return ok && v.kind == pcObj && v.role == c.recv[1:]
		}
		return false
	}
	switch x := e.(type) {
	case *ast.CallExpr:
		se, ok := x.Fun.(*ast.SelectorExpr)
		if !ok {
			k.fail(n, "call outside the allow-list")
		}
		for i := range p.kn.calls {
			c := &p.kn.calls[i]
			if c.method != "" && c.method == se.Sel.Name && recvOK(c, se.X) {
				idx = i
			}
		}
		args = x.Args
		if x.Ellipsis != token.NoPos {
			k.fail(n, "variadic call")
		}
	case *ast.TypeAssertExpr:
		for i := range p.kn.calls {
			c := &p.kn.calls[i]
			if c.method == "" && x.Type != nil && src(x.Type) == c.typ && recvOK(c, x.X) {
				idx = i
			}
		}
	}
	if idx < 0 {
		k.fail(n, "call outside the allow-list")
	}
	c := &p.kn.calls[idx]
	if _, shadow := st.env[k.recv]; shadow {
		k.fail(n, "the receiver is rebound")
	}
	if st.done[idx] {
		k.fail(n, "%s is called twice on one path", c.name)
	}
	if p.kn.ordered && idx < st.next {
		k.fail(n, "%s is called out of order", c.name)
	}
	if c.fetch != 0 && st.fetch != 0 {
		k.fail(n, "two fetches on one path")
	}
	if len(args) != len(c.args) {
		k.fail(n, "%s: unexpected number of arguments", c.name)
	}
	for i, role := range c.args {
		if role == "str" {
			c := p.strExpr(args[i], st)
			if p.checkedSet && c != p.checked {
				k.fail(args[i], "the name handed to %s differs between paths", p.kn.calls[idx].name)
			}
			p.checked, p.checkedSet = c, true
			continue
		}
		v, ok := p.lookup(args[i], st)
		if !ok || v.role != role {
			k.fail(args[i], "%s: argument %d is not the %s", c.name, i+1, role)
		}
	}
	st.done[idx] = true
	st.next = idx + 1
	if c.fetch != 0 {
		st.fetch = c.fetch
	}
	var outs []pcVal
	for _, o := range c.outs {
		outs = append(outs, o.val)
	}
	return idx, outs
}

// ---- statements --------------------------------------------------------------------------------

// silentRoot: e is a method-call chain rooted at a logger / span, all of whose arguments are pure.
func (p *pcTrans) silentChain(e ast.Expr, st *pcState) bool {
	for {
		switch x := e.(type) {
		case *ast.CallExpr:
			for _, a := range x.Args {
				if !p.pure(a, st) {
					return false
				}
			}
			e = x.Fun
		case *ast.SelectorExpr:
			if x.Sel.Name == "Fatal" || x.Sel.Name == "Panic" {
				return false
			}
			e = x.X
		case *ast.Ident:
			_, bound := st.env[x.Name]
			return p.k.silent[x.Name] && !bound
		default:
			return false
		}
	}
}

func (p *pcTrans) silent(s ast.Stmt, st *pcState) bool {
	switch x := s.(type) {
	case *ast.EmptyStmt:
		return true
	case *ast.ExprStmt:
		_, isCall := x.X.(*ast.CallExpr)
		return isCall && p.silentChain(x.X, st)
	case *ast.DeferStmt:
		return p.silentChain(x.Call, st)
	case *ast.AssignStmt:
		if x.Tok != token.DEFINE || len(x.Rhs) != 1 {
			return false
		}
		call, ok := x.Rhs[0].(*ast.CallExpr)
		if !ok {
			return false
		}
		newLogger := func(e ast.Expr) bool {
			id, ok := e.(*ast.Ident)
			if !ok {
				return false
			}
			if id.Name == "_" {
				return true
			}
			if _, bound := st.env[id.Name]; bound || id.Name == p.k.recv {
				return false
			}
			for _, r := range pcPkgs {
				if r == id.Name {
					return false
				}
			}
			p.k.silent[id.Name] = true
			return true
		}
		// span, ctx := opentracing.StartSpanFromContext(ctx, "…")
		if src(call.Fun) == "opentracing.StartSpanFromContext" {
			if len(x.Lhs) != 2 || len(call.Args) != 2 {
				return false
			}
			if v, ok := p.lookup(call.Args[0], st); !ok || v.role != "ctx" {
				return false
			}
			if lit, ok := call.Args[1].(*ast.BasicLit); !ok || lit.Kind != token.STRING {
				return false
			}
			if v, ok := p.lookup(x.Lhs[1], st); !(ok && v.role == "ctx") && src(x.Lhs[1]) != "_" {
				return false
			}
			if st.depth != 0 { // would shadow ctx in a nested block only: refused rather than tracked
				return false
			}
			return newLogger(x.Lhs[0])
		}
		// L := log.With()….Logger()
		if len(x.Lhs) != 1 || !p.silentChain(call, st) {
			return false
		}
		return newLogger(x.Lhs[0])
	}
	return false
}

// silentIf: an `if` whose condition has no call and whose arms only log.
func (p *pcTrans) silentIf(x *ast.IfStmt, st *pcState) bool {
	if x.Init != nil || hasCall(x.Cond) {
		return false
	}
	for _, s := range x.Body.List {
		if !p.silent(s, st) {
			return false
		}
	}
	switch e := x.Else.(type) {
	case nil:
	case *ast.BlockStmt:
		for _, s := range e.List {
			if !p.silent(s, st) {
				return false
			}
		}
	case *ast.IfStmt:
		if !p.silentIf(e, st) {
			return false
		}
	default:
		return false
	}
	c := st.fork()
	p.cond(x.Cond, &c, false) // must still be a condition of the fragment
	return true
}

// bind: the results of an opaque call / a string expression to the left-hand sides.
func (p *pcTrans) bind(s *ast.AssignStmt, vals []pcVal, st *pcState) {
	k := p.k
	if len(s.Lhs) != len(vals) {
		k.fail(s, "number of left-hand sides and of results differ")
	}
	fresh := 0
	for i, l := range s.Lhs {
		id, ok := l.(*ast.Ident)
		if !ok {
			k.fail(s, "assignment to other than a local")
		}
		if id.Name == "_" {
			continue
		}
		for _, r := range pcPkgs {
			if r == id.Name {
				k.fail(s, "%s is rebound", r)
			}
		}
		if id.Name == k.recv || k.silent[id.Name] {
			k.fail(s, "%s is rebound", id.Name)
		}
		old, bound := st.env[id.Name]
		switch {
		case s.Tok == token.ASSIGN:
			if !bound || old.kind != vals[i].kind {
				k.fail(s, "assignment to an unknown local, or to one of another type: %s", id.Name)
			}
		case st.depth > 0 && bound:
			k.fail(s, "%s is redefined in a nested block (shadowing)", id.Name)
		case bound:
			if old.kind != vals[i].kind {
				k.fail(s, "%s is redefined with another type", id.Name)
			}
		default:
			fresh++
		}
		st.env[id.Name] = vals[i]
	}
	_ = fresh
}

func (p *pcTrans) leaf(s *ast.ReturnStmt, st *pcState) *pnode {
	k := p.k
	if len(s.Results) != p.nres {
		k.fail(s, "return of other than %d values", p.nres)
	}
	last := s.Results[p.nres-1]
	res, lit := p.coreValue(s, last)
	if !lit {
		v, ok := p.lookup(last, st)
		if !ok || v.kind != pcRes {
			k.fail(s, "returned result is neither a core.Result enumerator nor a local holding a callee's result")
		}
		res = v.lean
	}
	roles := []string{"wallet", "account"}
	for i, r := range s.Results[:p.nres-1] {
		if src(r) == "nil" {
			if lit && src(last) == "core.ResultSucceeded" {
				k.fail(s, "nil returned together with core.ResultSucceeded")
			}
			continue
		}
		v, ok := p.lookup(r, st)
		if !ok || v.kind != pcObj || i >= len(roles) || v.role != roles[i] {
			k.fail(s, "returned value %d is neither nil nor the fetched %s", i+1, roles[i])
		}
	}
	if p.kn.fetch {
		return &pnode{leaf: fmt.Sprintf("(%s, %d)", res, st.fetch)}
	}
	return &pnode{leaf: res}
}

// pcStmt: a statement with the nesting depth of the block it is written in (0 = the function body).
type pcStmt struct {
	s     ast.Stmt
	depth int
}

func atDepth(list []ast.Stmt, d int) []pcStmt {
	out := make([]pcStmt, len(list))
	for i, s := range list {
		out[i] = pcStmt{s, d}
	}
	return out
}

// walk: the decision tree of a statement list executed from state st.  Blocks are translated by continuation: the
// statements after an `if` (with their own depths) are appended to both of its arms.  Names a nested block defines go
// out of scope at its end; since a nested definition of an EXISTING name is refused (bind), the only leak is of NEW
// names, which the statements after the block cannot mention in a program that compiles.
func (p *pcTrans) walk(list []pcStmt, st pcState) *pnode {
	k := p.k
	for i, ps := range list {
		s := ps.s
		st.depth = ps.depth
		if p.silent(s, &st) {
			p.sil[s] = true
			continue
		}
		switch x := s.(type) {
		case *ast.ReturnStmt:
			return p.leaf(x, &st)
		case *ast.DeclStmt:
			gd, ok := x.Decl.(*ast.GenDecl)
			if !ok || gd.Tok != token.VAR || st.depth != 0 {
				k.fail(s, "unsupported declaration")
			}
			for _, sp := range gd.Specs {
				vs := sp.(*ast.ValueSpec)
				if len(vs.Values) != 0 || vs.Type == nil {
					k.fail(s, "unsupported declaration (only `var x T`)")
				}
				var v pcVal
				switch src(vs.Type) {
				case "error":
					v = pcVal{kind: pcErr, lean: "false"}
				case "e2wtypes.Wallet", "e2wtypes.Account":
					v = pcVal{kind: pcObj, lean: "true"} // nil, no role
				default:
					k.fail(s, "unsupported declaration (only error, e2wtypes.Wallet, e2wtypes.Account)")
				}
				for _, nm := range vs.Names {
					if _, bound := st.env[nm.Name]; bound || nm.Name == k.recv || k.silent[nm.Name] {
						k.fail(s, "%s is redeclared", nm.Name)
					}
					st.env[nm.Name] = v
				}
			}
			continue
		case *ast.AssignStmt:
			if len(x.Rhs) != 1 || (x.Tok != token.DEFINE && x.Tok != token.ASSIGN) {
				k.fail(s, "unsupported assignment")
			}
			switch r := x.Rhs[0].(type) {
			case *ast.CallExpr, *ast.TypeAssertExpr:
				if call, isCall := r.(*ast.CallExpr); isCall && p.kn.strDefs && (src(call.Fun) == "fmt.Sprintf" || p.isNameCall(call, &st) != "") {
					p.bind(x, []pcVal{p.strVal(r, &st)}, &st)
					continue
				}
				if p.kn.topOnly && st.depth != 0 {
					k.fail(s, "a callee is called inside a nested block")
				}
				ci, outs := p.matchCall(s, r, &st)
				if p.kn.calls[ci].inCond {
					k.fail(s, "this call may only be used as a condition")
				}
				p.bind(x, outs, &st)
				if p.kn.topOnly && !p.ordered[s] {
					// a top-level statement: executed at most once, and in the order of the text (it may be WALKED more than
					// once, when an `if` before it falls through)
					p.ordered[s] = true
					p.order = append(p.order, pcOrdered{s.Pos(), p.kn.calls[ci].name})
				}
				continue
			default:
				if p.kn.strDefs {
					p.bind(x, []pcVal{p.strVal(r, &st)}, &st)
					continue
				}
			}
			k.fail(s, "unsupported assignment")
		case *ast.IfStmt:
			if x.Init != nil {
				k.fail(s, "if with an init statement")
			}
			if p.silentIf(x, &st) {
				p.sil[s] = true
				continue
			}
			if p.kn.topOnly && st.depth != 0 {
				k.fail(s, "nested if in %s", k.spec.fn)
			}
			c := p.cond(x.Cond, &st, false)
			rest := list[i+1:]
			then := p.walk(append(atDepth(x.Body.List, ps.depth+1), rest...), st.fork())
			var els *pnode
			switch e := x.Else.(type) {
			case nil:
				els = p.walk(rest, st.fork())
			case *ast.BlockStmt:
				els = p.walk(append(atDepth(e.List, ps.depth+1), rest...), st.fork())
			case *ast.IfStmt:
				els = p.walk(append([]pcStmt{{e, ps.depth + 1}}, rest...), st.fork())
			default:
				k.fail(s, "unsupported else")
			}
			if then.render("") == els.render("") {
				return then // both arms decide alike: the (call-free or already consumed) condition does not matter
			}
			return &pnode{cond: c, then: then, els: els}
		}
		k.fail(s, "unsupported statement")
	}
	k.fail(nil, "a path through %s ends without a return", k.spec.fn)
	return nil
}

// ---- guard texts -------------------------------------------------------------------------------

func (p *pcTrans) effects(list []ast.Stmt, st *pcState) string {
	var out []string
	for _, s := range list {
		if p.sil[s] {
			continue
		}
		if x, ok := s.(*ast.IfStmt); ok {
			out = append(out, p.ifText(x, st))
			continue
		}
		out = append(out, src(s))
	}
	return strings.Join(out, "; ")
}

func (p *pcTrans) ifText(x *ast.IfStmt, st *pcState) string {
	t := "if " + src(x.Cond) + " { " + p.effects(x.Body.List, st) + " }"
	switch e := x.Else.(type) {
	case *ast.BlockStmt:
		t += " else { " + p.effects(e.List, st) + " }"
	case *ast.IfStmt:
		t += " else " + p.ifText(e, st)
	}
	return t
}

// ---- the kernels -------------------------------------------------------------------------------

func transPreCheckKernel(k *ktrans, fd *ast.FuncDecl) string {
	kn := pcKernels[k.spec.name]
	p := &pcTrans{k: k, kn: kn, sil: map[ast.Stmt]bool{}, ordered: map[ast.Stmt]bool{}}
	if k.recv == "" || src(fd.Recv.List[0].Type) != "*Service" {
		k.fail(nil, "%s is not a method of *Service", k.spec.fn)
	}
	if resultTypes(fd) != kn.results {
		k.fail(nil, "%s does not return (%s)", k.spec.fn, kn.results)
	}
	p.nres = strings.Count(kn.results, ",") + 1
	ps := flatParams(fd)
	if len(ps) != len(kn.params) {
		k.fail(nil, "%s does not take %d parameters", k.spec.fn, len(kn.params))
	}
	st := pcState{env: map[string]pcVal{}, done: map[int]bool{}}
	for i, want := range kn.params {
		if ps[i].typ != want.typ {
			k.fail(nil, "parameter %d of %s is not a %s", i+1, k.spec.fn, want.typ)
		}
		if ps[i].name == "_" {
			continue
		}
		if ps[i].name == k.recv || k.silent[ps[i].name] {
			k.fail(nil, "parameter %s of %s hides the receiver or the logger", ps[i].name, k.spec.fn)
		}
		st.env[ps[i].name] = want.val
	}
	defs := definitions(fd.Body)
	for _, n := range append(append([]string{}, pcPkgs...), k.recv) {
		if len(defs[n]) > 0 {
			k.fail(nil, "%s rebinds %s", k.spec.fn, n)
		}
	}
	for _, f := range ps {
		for _, n := range pcPkgs {
			if f.name == n {
				k.fail(nil, "%s rebinds %s", k.spec.fn, n)
			}
		}
	}
	var fail string
	if p.core, fail = enumValues(k.repo, coreResultFile, "Result"); fail != "" {
		k.fail(nil, "core.Result: %s", fail)
	}
	tree := p.walk(atDepth(fd.Body.List, 0), st.fork())

	var b strings.Builder
	k.docHead(&b, kn.what)
	fmt.Fprintf(&b, "def %s %s : %s :=\n  %s\n\n", k.spec.name, kn.leanSig, kn.leanRes, tree.render("  "))
	if kn.topOnly {
		fmt.Fprintf(&b, "/-- … the expression handed to `checkAccess` as the account name, every local printed as its role (wallet, account = what the fetchAccount call returned) -/\ndef preCheckCheckedNameGen : String := %s\n\n", leanStr(p.checked.canon))
		fn := p.checked.lean
		if fn == "" {
			fn = `""`
		}
		fmt.Fprintf(&b, "/-- … the same expression as a function of `wallet.Name()`, `account.Name()` and preCheck's string parameters -/\ndef preCheckCheckedNameFnGen (walletName accountName name action : String) : String :=\n  %s\n\n", fn)
		sort.Slice(p.order, func(i, j int) bool { return p.order[i].pos < p.order[j].pos })
		var names []string
		for _, o := range p.order {
			names = append(names, o.name)
		}
		fmt.Fprintf(&b, "/-- … the callees, in call order (each is a top-level statement of the body, made at most once) -/\ndef preCheckOrderGen : List String := %s\n\n", leanList(names))
	}
	var texts []string
	gst := st.fork()
	for _, s := range fd.Body.List {
		if t := p.effects([]ast.Stmt{s}, &gst); t != "" {
			texts = append(texts, t)
		}
	}
	k.emitGuardTexts(&b, texts)
	return b.String()
}
