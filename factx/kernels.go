// kernels.go — a deliberately tiny Go→Lean translator for three decision kernels of rules/standard.
//
// It is a guard-chain extractor, not a Go compiler: the body of each kernel is read as a sequence of
// guards (`if cond { …log…; return rules.X }`), local aliases, state-field updates and a final return,
// and is emitted as one Lean if-then-else chain in source order into Dirk/Gen/Kernels.lean (next to
// Facts.lean).  Dirk/Props/KernelsEq.lean proves each emitted definition equal to the hand-written
// model function, so a semantic change of a Go kernel makes `lake build` fail.  Anything outside the
// supported shapes is NOT guessed at: the kernel definition is replaced by
// `def kernelUntranslatable_<name> : String := "<reason>"`, and KernelsEq.lean stops compiling.
//
// No type checker is used.  Go types are assigned by NAME from a per-kernel table of the selectors a
// kernel may read (request epochs/slots: Nat, stored watermarks: Int, …).
package main

import (
	"fmt"
	"go/ast"
	"go/token"
	"os"
	"path/filepath"
	"strconv"
	"strings"
)

// This file is wired in through init() so that `factx <repo> <out.lean>` keeps its interface and main.go
// stays untouched: Kernels.lean is written into the directory of <out.lean>.

// ---------------------------------------------------------------------------------------------
// kernel table

type ltype int

const (
	tUntyped ltype = iota // untyped integer constant
	tNat                  // uint64
	tInt                  // int64
	tProp                 // boolean expression (emitted as a decidable Prop)
	tBool                 // Lean Bool (parameters, List.contains)
	tString
	tBytes
	tStrList
)

type lexpr struct {
	s    string
	t    ltype
	atom bool
}

type kparam struct {
	goExpr   string // selector text as printed by go/printer, e.g. "req.Source.Epoch"
	lean     string // Lean parameter name
	leanType string
	t        ltype
}

type kernelSpec struct {
	file, fn  string
	name      string   // Lean definition
	guards    string   // Lean name of the guard-text list
	model     string   // model counterpart (documentation only)
	params    []kparam // readable selectors, in the order of the emitted parameters
	nilParams []kparam // pointer parameters that may be compared with nil: goExpr = identifier
	stateVar  string   // identifier of the *state value ("" = kernel has no state)
	fields    []kparam // its fields
	// stateIsParam: the state is a parameter that the kernel mutates (result: Verdict × fields).
	// Otherwise the state is bound by the fetch call and written by the store call
	// (result: Verdict × Option fields = what was handed to the store, if it was called).
	stateIsParam             bool
	fetchFn, storeFn, keyArg string
}

var kernelSpecs = []kernelSpec{
	{
		file: "rules/standard/signbeaconattestations.go", fn: "runSignBeaconAttestationChecks",
		name: "attChecksGen", guards: "attChecksGuards", model: "Dirk.attChecks",
		params: []kparam{
			{"req.Domain", "domain", "Bytes", tBytes},
			{"req.Source.Epoch", "src", "Nat", tNat},
			{"req.Target.Epoch", "tgt", "Nat", tNat},
		},
		stateVar: "state", stateIsParam: true,
		fields: []kparam{
			{"SourceEpoch", "stSrc", "Int", tInt},
			{"TargetEpoch", "stTgt", "Int", tInt},
		},
	},
	{
		file: "rules/standard/signbeaconproposal.go", fn: "OnSignBeaconProposal",
		name: "propChecksGen", guards: "propChecksGuards", model: "Dirk.onPropose",
		params: []kparam{
			{"req.Domain", "domain", "Bytes", tBytes},
			{"req.Slot", "slot", "Nat", tNat},
		},
		stateVar: "state",
		fields:   []kparam{{"Slot", "stSlot", "Int", tInt}},
		fetchFn:  "fetchSignBeaconProposalState", storeFn: "storeSignBeaconProposalState", keyArg: "metadata.PubKey",
	},
	{
		file: "rules/standard/sign.go", fn: "OnSign",
		name: "onSignGen", guards: "onSignGuards", model: "Dirk.onSign",
		nilParams: []kparam{{"metadata", "metadataNil", "Bool", tBool}},
		params: []kparam{
			{"s.adminIPs", "adminIPs", "List String", tStrList},
			{"metadata.IP", "ip", "String", tString},
			{"req.Domain", "domain", "Bytes", tBytes},
		},
	},
}

var leanDomains = map[string]string{
	"e2types.DomainBeaconAttester": "domAttester",
	"e2types.DomainBeaconProposer": "domProposer",
	"e2types.DomainVoluntaryExit":  "domExit",
}

var leanVerdicts = map[string]string{
	"rules.UNKNOWN": ".unknown", "rules.APPROVED": ".approved", "rules.DENIED": ".denied", "rules.FAILED": ".failed",
}

// ---------------------------------------------------------------------------------------------
// translator

type untranslatable string

type kitem struct {
	fetch   bool
	cond    string // "" = unconditional
	verdict string
	out     string // second component of the result at this point ("" = kernel has no state)
	text    string // source text, for the guards list
}

type ktrans struct {
	spec    *kernelSpec
	recv    string          // receiver identifier
	roots   map[string]bool // receiver / parameter names the readable selectors start from
	silent  map[string]bool // locals holding loggers / spans
	upd     map[string]lexpr
	inScope bool // state fields readable
	stored  bool // the store call has been passed
	items   []kitem
}

// reserved: names a kernel must not rebind (inputs, the state, packages and builtins the translator interprets).
func (k *ktrans) reserved(name string) bool {
	switch name {
	case "math", "bytes", "e2types", "rules", "fmt", "opentracing", "monitoring", "nil", "true", "false", "uint64", "int64", "len":
		return true
	}
	return name == k.recv || (k.spec.stateVar != "" && name == k.spec.stateVar) || k.roots[name]
}

func (k *ktrans) fail(n ast.Node, format string, a ...interface{}) {
	where := ""
	if n != nil {
		where = fmt.Sprintf(" at %s line %d: %s", k.spec.fn, fset.Position(n.Pos()).Line, src(n))
	}
	panic(untranslatable(fmt.Sprintf(format, a...) + where))
}

func paren(l lexpr) string {
	if l.atom {
		return l.s
	}
	return "(" + l.s + ")"
}

func isLogical(t ltype) bool { return t == tProp || t == tBool }

// coerce gives an untyped constant the type of the other operand.
func (k *ktrans) coerce(n ast.Node, l lexpr, t ltype) lexpr {
	if l.t == t {
		return l
	}
	if l.t == tUntyped && (t == tNat || t == tInt) {
		if t == tInt && l.s == "maxI64" {
			return lexpr{"(maxI64 : Int)", tInt, true}
		}
		if t == tNat && strings.HasPrefix(l.s, "(-") {
			k.fail(n, "negative constant in an unsigned context")
		}
		return lexpr{l.s, t, l.atom}
	}
	k.fail(n, "operand types differ")
	return l
}

var cmpOps = map[token.Token]string{
	token.EQL: "=", token.NEQ: "≠", token.LSS: "<", token.LEQ: "≤", token.GTR: ">", token.GEQ: "≥",
}

func (k *ktrans) expr(e ast.Expr, env map[string]lexpr) lexpr {
	switch x := e.(type) {
	case *ast.ParenExpr:
		return k.expr(x.X, env)
	case *ast.BasicLit:
		switch x.Kind {
		case token.INT:
			v, err := strconv.ParseUint(x.Value, 0, 64)
			if err != nil {
				k.fail(e, "integer literal")
			}
			return lexpr{strconv.FormatUint(v, 10), tUntyped, true}
		case token.STRING:
			v, err := strconv.Unquote(x.Value)
			if err != nil {
				k.fail(e, "string literal")
			}
			for _, r := range v {
				if r < 0x20 || r > 0x7e {
					k.fail(e, "non-printable string literal")
				}
			}
			return lexpr{leanStr(v), tString, true}
		}
	case *ast.Ident:
		switch x.Name {
		case "true":
			return lexpr{"True", tProp, true}
		case "false":
			return lexpr{"False", tProp, true}
		}
		if v, ok := env[x.Name]; ok {
			return v
		}
		k.fail(e, "unknown identifier")
	case *ast.SelectorExpr:
		text := src(x)
		if text == "math.MaxInt64" {
			return lexpr{"maxI64", tUntyped, true}
		}
		if d, ok := leanDomains[text]; ok {
			return lexpr{d, tBytes, true}
		}
		if id, ok := x.X.(*ast.Ident); ok && k.spec.stateVar != "" && id.Name == k.spec.stateVar {
			if _, shadow := env[id.Name]; shadow {
				k.fail(e, "state variable shadowed")
			}
			if !k.inScope {
				k.fail(e, "state read before it is fetched")
			}
			for _, f := range k.spec.fields {
				if f.goExpr == x.Sel.Name {
					if u, ok := k.upd[f.goExpr]; ok {
						return u
					}
					return lexpr{f.lean, f.t, true}
				}
			}
			k.fail(e, "unknown state field")
		}
		for _, p := range k.spec.params {
			if p.goExpr == text {
				root := text[:strings.Index(text, ".")]
				if _, shadow := env[root]; shadow {
					k.fail(e, "parameter shadowed by a local")
				}
				return lexpr{p.lean, p.t, true}
			}
		}
		k.fail(e, "selector is not in the kernel's table of readable inputs")
	case *ast.SliceExpr:
		if x.Slice3 {
			k.fail(e, "3-index slice")
		}
		b := k.expr(x.X, env)
		if b.t != tBytes {
			k.fail(e, "slice of a non-byte value")
		}
		if x.Low == nil && x.High == nil {
			return b
		}
		if lo, ok := x.Low.(*ast.BasicLit); ok && lo.Value == "0" {
			if hi, ok := x.High.(*ast.BasicLit); ok && hi.Value == "4" {
				return lexpr{"prefix4 " + paren(b), tBytes, false}
			}
		}
		k.fail(e, "slice bounds other than [:] and [0:4]")
	case *ast.CallExpr:
		fn := src(x.Fun)
		switch {
		case fn == "bytes.Equal" && len(x.Args) == 2:
			a, b := k.expr(x.Args[0], env), k.expr(x.Args[1], env)
			if a.t != tBytes || b.t != tBytes {
				k.fail(e, "bytes.Equal on non-byte values")
			}
			return lexpr{a.s + " = " + b.s, tProp, false}
		case fn == "uint64" && len(x.Args) == 1:
			a := k.expr(x.Args[0], env)
			switch a.t {
			case tInt:
				return lexpr{"u64 " + paren(a), tNat, false}
			case tNat:
				return a
			case tUntyped:
				return k.coerce(e, a, tNat)
			}
		case fn == "int64" && len(x.Args) == 1:
			a := k.expr(x.Args[0], env)
			switch a.t {
			case tNat:
				return lexpr{"i64 " + paren(a), tInt, false}
			case tInt:
				return a
			case tUntyped:
				return k.coerce(e, a, tInt)
			}
		case fn == "len" && len(x.Args) == 1:
			a := k.expr(x.Args[0], env)
			if a.t == tBytes || a.t == tStrList {
				return lexpr{paren(a) + ".length", tNat, false}
			}
		}
		k.fail(e, "unsupported call")
	case *ast.UnaryExpr:
		switch x.Op {
		case token.NOT:
			a := k.expr(x.X, env)
			if !isLogical(a.t) {
				k.fail(e, "negation of a non-boolean")
			}
			return lexpr{"¬ " + paren(a), tProp, false}
		case token.SUB:
			if lit, ok := x.X.(*ast.BasicLit); ok && lit.Kind == token.INT {
				a := k.expr(lit, env)
				return lexpr{"(-" + a.s + ")", tUntyped, true}
			}
		}
		k.fail(e, "unsupported unary operator")
	case *ast.BinaryExpr:
		switch x.Op {
		case token.LAND, token.LOR:
			a, b := k.expr(x.X, env), k.expr(x.Y, env)
			if !isLogical(a.t) || !isLogical(b.t) {
				k.fail(e, "logical operator on non-booleans")
			}
			op := " ∧ "
			if x.Op == token.LOR {
				op = " ∨ "
			}
			return lexpr{paren(a) + op + paren(b), tProp, false}
		}
		if op, ok := cmpOps[x.Op]; ok {
			// pointer parameter compared with nil
			if y, ok := x.Y.(*ast.Ident); ok && y.Name == "nil" && (x.Op == token.EQL || x.Op == token.NEQ) {
				if id, ok := x.X.(*ast.Ident); ok {
					if _, shadow := env[id.Name]; !shadow {
						for _, p := range k.spec.nilParams {
							if p.goExpr == id.Name {
								if x.Op == token.EQL {
									return lexpr{p.lean + " = true", tProp, false}
								}
								return lexpr{p.lean + " = false", tProp, false}
							}
						}
					}
				}
				k.fail(e, "nil comparison of something that is not a declared pointer parameter")
			}
			a, b := k.expr(x.X, env), k.expr(x.Y, env)
			switch {
			case a.t == tUntyped && b.t == tUntyped:
				k.fail(e, "comparison of two constants")
			case a.t == tUntyped:
				a = k.coerce(e, a, b.t)
			default:
				b = k.coerce(e, b, a.t)
			}
			switch a.t {
			case tNat, tInt:
			case tString:
				if x.Op != token.EQL && x.Op != token.NEQ {
					k.fail(e, "string ordering")
				}
			default:
				k.fail(e, "comparison of unsupported operand type")
			}
			return lexpr{paren(a) + " " + op + " " + paren(b), tProp, false}
		}
		k.fail(e, "unsupported binary operator")
	}
	k.fail(e, "unsupported expression")
	return lexpr{}
}

// ---- statements that provably do not influence the decision: logging, tracing, monitoring ----

// pureArg: an argument whose evaluation has no effect (it may only be read by a log call).
func pureArg(e ast.Expr) bool {
	switch x := e.(type) {
	case *ast.BasicLit, *ast.Ident:
		return true
	case *ast.ParenExpr:
		return pureArg(x.X)
	case *ast.SelectorExpr:
		return pureArg(x.X)
	case *ast.CallExpr:
		switch src(x.Fun) {
		case "fmt.Sprintf", "uint64", "int64", "len", "time.Since":
			for _, a := range x.Args {
				if !pureArg(a) {
					return false
				}
			}
			return true
		}
	}
	return false
}

// silentChain: e is a method-call chain rooted at the service's logger, a local logger or span, or the
// opentracing / monitoring packages, every argument of which is pure, and none of whose methods ends
// the process.
func (k *ktrans) silentChain(e ast.Expr) bool {
	first := "" // the selector closest to the root
	for {
		switch x := e.(type) {
		case *ast.CallExpr:
			for _, a := range x.Args {
				if !pureArg(a) {
					return false
				}
			}
			e = x.Fun
		case *ast.SelectorExpr:
			if x.Sel.Name == "Fatal" || x.Sel.Name == "Panic" {
				return false
			}
			first = x.Sel.Name
			e = x.X
		case *ast.Ident:
			switch {
			case k.silent[x.Name]:
				return true
			case x.Name == k.recv && k.recv != "" && first == "log":
				return true
			case x.Name == "opentracing" || x.Name == "monitoring":
				return true
			}
			return false
		default:
			return false
		}
	}
}

func (k *ktrans) silentStmt(st ast.Stmt) bool {
	switch x := st.(type) {
	case *ast.ExprStmt:
		_, isCall := x.X.(*ast.CallExpr)
		return isCall && k.silentChain(x.X)
	case *ast.DeferStmt:
		return k.silentChain(x.Call)
	case *ast.AssignStmt:
		// log := s.log.With()….Logger()        span, _ := opentracing.StartSpanFromContext(ctx, "…")
		if x.Tok != token.DEFINE || len(x.Rhs) != 1 {
			return false
		}
		if _, isCall := x.Rhs[0].(*ast.CallExpr); !isCall || !k.silentChain(x.Rhs[0]) {
			return false
		}
		var names []string
		for _, l := range x.Lhs {
			id, ok := l.(*ast.Ident)
			if !ok {
				return false
			}
			if k.reserved(id.Name) {
				return false
			}
			names = append(names, id.Name)
		}
		for _, n := range names {
			if n != "_" {
				k.silent[n] = true
			}
		}
		return true
	}
	return false
}

// ---- statement walk ----

func (k *ktrans) stateOut() string {
	if k.spec.stateVar == "" {
		return ""
	}
	var fs []string
	for _, f := range k.spec.fields {
		if u, ok := k.upd[f.goExpr]; ok {
			fs = append(fs, u.s)
		} else {
			fs = append(fs, f.lean)
		}
	}
	tuple := strings.Join(fs, ", ")
	if len(fs) > 1 || k.spec.stateIsParam {
		tuple = "(" + tuple + ")"
	}
	if k.spec.stateIsParam {
		return tuple
	}
	if !k.stored {
		return "none"
	}
	if len(fs) == 1 {
		return "some (" + tuple + ")"
	}
	return "some " + tuple
}

func conj(path []string) string {
	switch len(path) {
	case 0:
		return ""
	case 1:
		return path[0]
	}
	q := make([]string, len(path))
	for i, p := range path {
		q[i] = "(" + p + ")"
	}
	return strings.Join(q, " ∧ ")
}

func goVerdict(v string) string { return "rules." + strings.ToUpper(strings.TrimPrefix(v, ".")) }

// retVerdict: `return rules.X`
func (k *ktrans) retVerdict(st ast.Stmt) (string, bool) {
	r, ok := st.(*ast.ReturnStmt)
	if !ok {
		return "", false
	}
	if len(r.Results) != 1 {
		k.fail(st, "return of other than one value")
	}
	v, ok := leanVerdicts[src(r.Results[0])]
	if !ok {
		k.fail(st, "return value is not a rules.Result constant")
	}
	return v, true
}

// errBlock: a block of silent statements ending in `return rules.X` (the error arm of fetch / store).
func (k *ktrans) errBlock(b *ast.BlockStmt) string {
	for i, st := range b.List {
		if v, ok := k.retVerdict(st); ok && i == len(b.List)-1 {
			return v
		}
		if !k.silentStmt(st) {
			k.fail(st, "unsupported statement in an error arm")
		}
	}
	k.fail(b, "error arm does not end in a return")
	return ""
}

func isErrNotNil(e ast.Expr) bool { return src(e) == "err != nil" }

// walk translates a statement list.  path/ptext: the enclosing if-conditions (translated / source).
// It returns true when the list ends in an unconditional return.
func (k *ktrans) walk(list []ast.Stmt, path, ptext []string, env map[string]lexpr, top bool) bool {
	declared := map[string]bool{}
	for i := 0; i < len(list); i++ {
		st := list[i]
		if v, ok := k.retVerdict(st); ok {
			text := "return " + goVerdict(v)
			if len(ptext) > 0 {
				text = strings.Join(ptext, " && ") + " => " + text
			}
			k.items = append(k.items, kitem{cond: conj(path), verdict: v, out: k.stateOut(), text: text})
			return true
		}
		if k.silentStmt(st) {
			continue
		}
		switch x := st.(type) {
		case *ast.AssignStmt:
			// fetch:   state, err := s.fetchX(ctx, key)   followed by   if err != nil { …; return rules.X }
			if k.spec.fetchFn != "" && len(x.Lhs) == 2 && len(x.Rhs) == 1 && src(x.Lhs[0]) == k.spec.stateVar && src(x.Lhs[1]) == "err" {
				call, ok := x.Rhs[0].(*ast.CallExpr)
				if !top || !ok || x.Tok != token.DEFINE || src(call.Fun) != k.recv+"."+k.spec.fetchFn || len(call.Args) != 2 || src(call.Args[1]) != k.spec.keyArg || k.inScope {
					k.fail(st, "unsupported form of the state fetch")
				}
				if i+1 >= len(list) {
					k.fail(st, "fetch error is not checked")
				}
				chk, ok := list[i+1].(*ast.IfStmt)
				if !ok || chk.Init != nil || chk.Else != nil || !isErrNotNil(chk.Cond) {
					k.fail(list[i+1], "fetch error is not checked immediately")
				}
				v := k.errBlock(chk.Body)
				k.items = append(k.items, kitem{fetch: true, verdict: v, out: k.stateOut(),
					text: "fetch " + src(call.Fun) + "(" + k.spec.keyArg + "); err != nil => return " + goVerdict(v)})
				k.inScope = true
				i++
				continue
			}
			if len(x.Lhs) != 1 || len(x.Rhs) != 1 || (x.Tok != token.DEFINE && x.Tok != token.ASSIGN) {
				k.fail(st, "unsupported assignment")
			}
			switch l := x.Lhs[0].(type) {
			case *ast.Ident:
				// local alias
				if l.Name == "_" || l.Name == "err" || k.reserved(l.Name) {
					k.fail(st, "assignment to a reserved name")
				}
				if x.Tok == token.ASSIGN && !top && !declared[l.Name] {
					k.fail(st, "assignment to an outer variable inside a conditional block")
				}
				if x.Tok == token.ASSIGN {
					if _, ok := env[l.Name]; !ok {
						k.fail(st, "assignment to an unknown variable")
					}
				}
				env[l.Name] = k.expr(x.Rhs[0], env)
				declared[l.Name] = true
				delete(k.silent, l.Name)
			case *ast.SelectorExpr:
				// state.Field = e
				id, ok := l.X.(*ast.Ident)
				if !ok || k.spec.stateVar == "" || id.Name != k.spec.stateVar || x.Tok != token.ASSIGN {
					k.fail(st, "assignment to something other than a local or a state field")
				}
				if !top {
					k.fail(st, "conditional state update")
				}
				if !k.inScope {
					k.fail(st, "state written before it is fetched")
				}
				if k.stored {
					k.fail(st, "state written after it was stored")
				}
				found := false
				for _, f := range k.spec.fields {
					if f.goExpr == l.Sel.Name {
						v := k.expr(x.Rhs[0], env)
						if v.t == tUntyped {
							v = k.coerce(st, v, f.t)
						}
						if v.t != f.t {
							k.fail(st, "state field assigned a value of another type")
						}
						k.upd[f.goExpr] = lexpr{v.s, v.t, v.atom}
						found = true
					}
				}
				if !found {
					k.fail(st, "unknown state field")
				}
			default:
				k.fail(st, "unsupported assignment target")
			}
		case *ast.RangeStmt:
			k.membership(x, env, declared)
		case *ast.IfStmt:
			if x.Else != nil {
				k.fail(st, "if with else")
			}
			if x.Init != nil {
				// store:   if err = s.storeX(ctx, key, state); err != nil { …; return rules.X }
				as, ok := x.Init.(*ast.AssignStmt)
				if !top || !ok || k.spec.storeFn == "" || len(as.Lhs) != 1 || len(as.Rhs) != 1 || src(as.Lhs[0]) != "err" || !isErrNotNil(x.Cond) {
					k.fail(st, "if with an init statement that is not the state store")
				}
				call, ok := as.Rhs[0].(*ast.CallExpr)
				if !ok || src(call.Fun) != k.recv+"."+k.spec.storeFn || len(call.Args) != 3 || src(call.Args[1]) != k.spec.keyArg || src(call.Args[2]) != k.spec.stateVar || !k.inScope || k.stored {
					k.fail(st, "unsupported form of the state store")
				}
				v := k.errBlock(x.Body)
				k.stored = true
				k.items = append(k.items, kitem{cond: "storeOk = false", verdict: v, out: k.stateOut(),
					text: "store " + src(call.Fun) + "(" + k.spec.keyArg + ", " + k.spec.stateVar + "); err != nil => return " + goVerdict(v)})
				continue
			}
			c := k.expr(x.Cond, env)
			if !isLogical(c.t) {
				k.fail(x.Cond, "condition is not boolean")
			}
			inner := map[string]lexpr{}
			for n, v := range env {
				inner[n] = v
			}
			// A block that does not end in a return falls through to the statements after it; since the
			// block cannot assign outer locals or state fields (checked above), its guards are exactly
			// the guards `cond ∧ inner-cond`, in place.
			k.walk(x.Body.List, append(append([]string{}, path...), c.s), append(append([]string{}, ptext...), src(x.Cond)), inner, false)
		default:
			k.fail(st, "unsupported statement")
		}
	}
	return false
}

// membership recognises the one loop shape of OnSign,
//
//	v := false
//	for i := range L { if E == L[i] { v = true; break } }       (or: for _, a := range L { if E == a { … } })
//
// and rebinds v to `L.contains E`.
func (k *ktrans) membership(r *ast.RangeStmt, env map[string]lexpr, declared map[string]bool) {
	bad := func() { k.fail(r, "loop is not the recognised membership test") }
	if r.Tok != token.DEFINE || len(r.Body.List) != 1 {
		bad()
	}
	list := k.expr(r.X, env)
	if list.t != tStrList {
		bad()
	}
	var elem func(e ast.Expr) bool
	key, _ := r.Key.(*ast.Ident)
	if key == nil {
		bad()
	}
	loopVars := []string{key.Name}
	if r.Value == nil {
		elem = func(e ast.Expr) bool {
			ix, ok := e.(*ast.IndexExpr)
			return ok && src(ix.X) == src(r.X) && src(ix.Index) == key.Name
		}
	} else {
		val, _ := r.Value.(*ast.Ident)
		if val == nil || key.Name != "_" {
			bad()
		}
		loopVars = []string{val.Name}
		elem = func(e ast.Expr) bool { return src(e) == val.Name }
	}
	ifs, ok := r.Body.List[0].(*ast.IfStmt)
	if !ok || ifs.Init != nil || ifs.Else != nil {
		bad()
	}
	cmp, ok := ifs.Cond.(*ast.BinaryExpr)
	if !ok || cmp.Op != token.EQL {
		bad()
	}
	var needle ast.Expr
	switch {
	case elem(cmp.Y):
		needle = cmp.X
	case elem(cmp.X):
		needle = cmp.Y
	default:
		bad()
	}
	inner := map[string]lexpr{}
	for n, v := range env {
		inner[n] = v
	}
	for _, lv := range loopVars {
		delete(inner, lv) // the needle must not mention the loop variable
	}
	nd := k.expr(needle, inner)
	if nd.t != tString {
		bad()
	}
	body := ifs.Body.List
	if len(body) == 2 {
		if br, ok := body[1].(*ast.BranchStmt); !ok || br.Tok != token.BREAK || br.Label != nil {
			bad()
		}
		body = body[:1]
	}
	if len(body) != 1 {
		bad()
	}
	set, ok := body[0].(*ast.AssignStmt)
	if !ok || set.Tok != token.ASSIGN || len(set.Lhs) != 1 || len(set.Rhs) != 1 || src(set.Rhs[0]) != "true" {
		bad()
	}
	flag, ok := set.Lhs[0].(*ast.Ident)
	if !ok || !declared[flag.Name] || env[flag.Name].s != "False" {
		k.fail(r, "membership flag is not a local initialised to false in the same block")
	}
	env[flag.Name] = lexpr{paren(list) + ".contains " + paren(nd), tBool, false}
	k.items = append(k.items, kitem{text: flag.Name + " := (" + src(needle) + " ∈ " + src(r.X) + ")  [for-range membership loop]", verdict: "note"})
}

// ---- emission ----

func (k *ktrans) result(it kitem) string {
	if it.out == "" {
		return it.verdict
	}
	return "(" + it.verdict + ", " + it.out + ")"
}

func (k *ktrans) emit(items []kitem, ind string) string {
	for len(items) > 0 && items[0].verdict == "note" {
		items = items[1:]
	}
	if len(items) == 0 {
		panic(untranslatable("control can reach the end of " + k.spec.fn + " without a return"))
	}
	it := items[0]
	switch {
	case it.fetch:
		var pats []string
		for _, f := range k.spec.fields {
			pats = append(pats, f.lean)
		}
		pat := strings.Join(pats, ", ")
		if len(pats) > 1 {
			pat = "(" + pat + ")"
		}
		return "match fetched with\n" + ind + "| none => " + k.result(it) + "\n" + ind + "| some " + pat + " =>\n" + ind + "  " + k.emit(items[1:], ind+"  ")
	case it.cond == "":
		return k.result(it)
	}
	return "if " + it.cond + " then " + k.result(it) + "\n" + ind + "else " + k.emit(items[1:], ind)
}

func translateKernel(repo string, spec *kernelSpec) (out string) {
	defer func() {
		if r := recover(); r != nil {
			u, ok := r.(untranslatable)
			if !ok {
				panic(r)
			}
			out = fmt.Sprintf("/-- %s (%s) is outside the translatable fragment; Dirk/Props/KernelsEq.lean cannot build. -/\ndef kernelUntranslatable_%s : String :=\n  %s\n",
				spec.fn, spec.file, spec.name, leanStr(string(u)))
		}
	}()
	k := &ktrans{spec: spec, silent: map[string]bool{}, upd: map[string]lexpr{}, inScope: spec.stateIsParam}
	fd := funcDecl(parse(filepath.Join(repo, spec.file)), spec.fn)
	if fd == nil || fd.Body == nil {
		k.fail(nil, "function %s not found in %s", spec.fn, spec.file)
	}
	if fd.Recv != nil && len(fd.Recv.List) == 1 && len(fd.Recv.List[0].Names) == 1 {
		k.recv = fd.Recv.List[0].Names[0].Name
	}
	if fd.Type.Results == nil || len(fd.Type.Results.List) != 1 || src(fd.Type.Results.List[0].Type) != "rules.Result" || len(fd.Type.Results.List[0].Names) != 0 {
		k.fail(nil, "%s does not return exactly one unnamed rules.Result", spec.fn)
	}
	// every root of a readable selector must be the receiver or a parameter of the function
	formal := map[string]bool{k.recv: true}
	for _, f := range fd.Type.Params.List {
		for _, n := range f.Names {
			formal[n.Name] = true
		}
	}
	k.roots = map[string]bool{}
	for _, p := range spec.params {
		k.roots[p.goExpr[:strings.Index(p.goExpr, ".")]] = true
	}
	for _, p := range spec.nilParams {
		k.roots[p.goExpr] = true
	}
	if spec.stateIsParam {
		k.roots[spec.stateVar] = true
	}
	for _, p := range spec.params {
		if r := p.goExpr[:strings.Index(p.goExpr, ".")]; !formal[r] {
			k.fail(nil, "%s has no parameter %q", spec.fn, r)
		}
	}
	for r := range k.roots {
		if !formal[r] {
			k.fail(nil, "%s has no parameter named as the kernel table expects", spec.fn)
		}
	}
	k.walk(fd.Body.List, nil, nil, map[string]lexpr{}, true)
	if !spec.stateIsParam && spec.stateVar != "" && !(k.inScope && k.stored) {
		k.fail(nil, "%s does not fetch and store its state", spec.fn)
	}

	var b strings.Builder
	var ps []string
	for _, p := range spec.nilParams {
		ps = append(ps, fmt.Sprintf("(%s : %s)", p.lean, p.leanType))
	}
	for _, p := range spec.params {
		ps = append(ps, fmt.Sprintf("(%s : %s)", p.lean, p.leanType))
	}
	var ftypes []string
	for _, f := range spec.fields {
		ftypes = append(ftypes, f.leanType)
	}
	ftuple := strings.Join(ftypes, " × ")
	resType := "Verdict"
	switch {
	case spec.stateVar == "":
	case spec.stateIsParam:
		for _, f := range spec.fields {
			ps = append(ps, fmt.Sprintf("(%s : %s)", f.lean, f.leanType))
		}
		resType = "Verdict × (" + ftuple + ")"
	default:
		if len(ftypes) > 1 {
			ftuple = "(" + ftuple + ")"
		}
		ps = append(ps, "(fetched : Option "+ftuple+")", "(storeOk : Bool)")
		resType = "Verdict × Option " + ftuple
	}
	body := k.emit(k.items, "  ")
	fmt.Fprintf(&b, "/-- `%s` (%s), translated statement by statement; model counterpart: `%s`.", spec.fn, spec.file, spec.model)
	if spec.stateVar != "" && !spec.stateIsParam {
		fmt.Fprintf(&b, "\n    `fetched` = result of `%s` (`none` = error), `storeOk` = `%s` returned no error;\n    second component = the state handed to the store, if it was called.", spec.fetchFn, spec.storeFn)
	}
	fmt.Fprintf(&b, " -/\ndef %s %s : %s :=\n  %s\n\n", spec.name, strings.Join(ps, " "), resType, body)
	var texts []string
	for _, it := range k.items {
		texts = append(texts, it.text)
	}
	fmt.Fprintf(&b, "/-- the guards of `%s`, as written in the source, in order -/\ndef %s : List String := [\n", spec.fn, spec.guards)
	for i, t := range texts {
		sep := ","
		if i == len(texts)-1 {
			sep = ""
		}
		fmt.Fprintf(&b, "  %s%s\n", leanStr(t), sep)
	}
	b.WriteString("]\n")
	return b.String()
}

func writeKernels(repo, dir string) {
	var b strings.Builder
	b.WriteString("/-\n  Dirk.Gen.Kernels — GENERATED — do not edit.  Regenerated on every run by /verif/factx (kernels.go) from the\n" +
		"  Go source of three decision kernels in rules/standard; Dirk/Props/KernelsEq.lean proves each definition\n" +
		"  equal to the hand-written model function.  A kernel outside the translatable fragment appears as\n" +
		"  `kernelUntranslatable_<name>` instead, and KernelsEq.lean does not build.\n-/\n" +
		"import Dirk.Model.Rules\n\nset_option linter.unusedVariables false\n\nnamespace Dirk.Gen\n\n")
	for i := range kernelSpecs {
		b.WriteString(translateKernel(repo, &kernelSpecs[i]))
		b.WriteString("\n")
	}
	b.WriteString("end Dirk.Gen\n")
	out := filepath.Join(dir, "Kernels.lean")
	old, _ := os.ReadFile(out)
	if string(old) != b.String() {
		os.MkdirAll(dir, 0o755)
		if err := os.WriteFile(out, []byte(b.String()), 0o644); err != nil {
			fmt.Fprintln(os.Stderr, err)
			os.Exit(1)
		}
	}
}
