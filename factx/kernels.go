// kernels.go — a deliberately tiny Go→Lean translator for the decision kernels of rules/standard (P4), of
// services/checker/static and services/process/standard (P7, second half of this file) and of util/scatter.go,
// the gRPC receiver's senderID, OnCommit, getGeneration and peers.Suitable (P9), and of the import command's merge
// loop in slashingprotection.go (P12, last part of this file).  The signer's batch signing loop (P15) is in signloop.go,
// the signer's pre-check (P16) in precheck.go, the ruler's RunRules (P17) in runrules.go, the lister's ListAccounts (P18) in
// lister.go, the batch paths of the gRPC signer handlers (P19) in handlerbatch.go.
//
// It is a guard-chain extractor, not a Go compiler: the body of each kernel is read as a sequence of
// guards (`if cond { …log…; return rules.X }`), local aliases, state-field updates and a final return,
// and is emitted as one Lean if-then-else chain in source order into Dirk/Gen/Kernels.lean (next to
// Facts.lean).  Dirk/Props/KernelsEq.lean proves each emitted definition equal to the hand-written
// model function, so a semantic change of a Go kernel makes `lake build` fail.  Anything outside the
// supported shapes is NOT guessed at: the kernel definition is replaced by
// `def kernelUntranslatable_<name> : String := "<reason>"`, and KernelsEq.lean stops compiling.
//
// No type checker is used.  Go types are assigned by NAME from a per-kernel table of the selectors a
// kernel may read (request epochs/slots: Nat, stored watermarks: Int, …).
package main

import (
	"fmt"
	"go/ast"
	"go/token"
	"os"
	"path/filepath"
	"strconv"
	"strings"
)

// This file is wired in through init() so that `factx <repo> <out.lean>` keeps its interface and main.go
// stays untouched: Kernels.lean is written into the directory of <out.lean>.

// ---------------------------------------------------------------------------------------------
// kernel table

type ltype int

const (
	tUntyped ltype = iota // untyped integer constant
	tNat                  // uint64
	tInt                  // int64
	tProp                 // boolean expression (emitted as a decidable Prop)
	tBool                 // Lean Bool (parameters, List.contains)
	tString
	tBytes
	tStrList
	tGoInt // Go `int` (64-bit two's complement), emitted as a Lean Int kept in range by wrapI64 (P9)
)

type lexpr struct {
	s    string
	t    ltype
	atom bool
}

type kparam struct {
	goExpr   string // selector text as printed by go/printer, e.g. "req.Source.Epoch"
	lean     string // Lean parameter name
	leanType string
	t        ltype
}

type kernelSpec struct {
	file, fn  string
	name      string   // Lean definition
	guards    string   // Lean name of the guard-text list
	model     string   // model counterpart (documentation only)
	params    []kparam // readable selectors, in the order of the emitted parameters
	nilParams []kparam // pointer parameters that may be compared with nil: goExpr = identifier
	stateVar  string   // identifier of the *state value ("" = kernel has no state)
	fields    []kparam // its fields
	// stateIsParam: the state is a parameter that the kernel mutates (result: Verdict × fields).
	// Otherwise the state is bound by the fetch call and written by the store call
	// (result: Verdict × Option fields = what was handed to the store, if it was called).
	stateIsParam             bool
	fetchFn, storeFn, keyArg string
	// P7 kernels: the package-level `log` is a logger; custom = a shape-specific translator (see the end of the file)
	pkgLog bool
	custom func(k *ktrans, fd *ast.FuncDecl) string
}

var kernelSpecs = []kernelSpec{
	{
		file: "rules/standard/signbeaconattestations.go", fn: "runSignBeaconAttestationChecks",
		name: "attChecksGen", guards: "attChecksGuards", model: "Dirk.attChecks",
		params: []kparam{
			{"req.Domain", "domain", "Bytes", tBytes},
			{"req.Source.Epoch", "src", "Nat", tNat},
			{"req.Target.Epoch", "tgt", "Nat", tNat},
		},
		stateVar: "state", stateIsParam: true,
		fields: []kparam{
			{"SourceEpoch", "stSrc", "Int", tInt},
			{"TargetEpoch", "stTgt", "Int", tInt},
		},
	},
	{
		file: "rules/standard/signbeaconproposal.go", fn: "OnSignBeaconProposal",
		name: "propChecksGen", guards: "propChecksGuards", model: "Dirk.onPropose",
		params: []kparam{
			{"req.Domain", "domain", "Bytes", tBytes},
			{"req.Slot", "slot", "Nat", tNat},
		},
		stateVar: "state",
		fields:   []kparam{{"Slot", "stSlot", "Int", tInt}},
		fetchFn:  "fetchSignBeaconProposalState", storeFn: "storeSignBeaconProposalState", keyArg: "metadata.PubKey",
	},
	{
		file: "rules/standard/sign.go", fn: "OnSign",
		name: "onSignGen", guards: "onSignGuards", model: "Dirk.onSign",
		nilParams: []kparam{{"metadata", "metadataNil", "Bool", tBool}},
		params: []kparam{
			{"s.adminIPs", "adminIPs", "List String", tStrList},
			{"metadata.IP", "ip", "String", tString},
			{"req.Domain", "domain", "Bytes", tBytes},
		},
	},
	// ---- P7 ----
	{
		file: "services/checker/static/parameters.go", fn: "regexify",
		name: "regexifyGen", guards: "regexifyGuards", model: "Dirk.regexify",
		pkgLog: true, custom: transRegexify,
	},
	{
		file: "services/checker/static/service.go", fn: "Check",
		name: "checkLoopGen", guards: "checkGuards", model: "Dirk.check / Dirk.scanPaths / Dirk.scanOps",
		pkgLog: true, custom: transCheck,
	},
	{
		file: "services/process/standard/generate.go", fn: "OnGenerate",
		name: "generateAcceptsGen", guards: "generateAcceptsGuards", model: "Dirk.Dkg.generateAccepts",
		pkgLog: true, custom: transOnGenerate,
	},
	{
		file: "services/process/standard/service.go", fn: "OnContribute",
		name: "fixedAcceptsGen", guards: "fixedAcceptsGuards", model: "Dirk.Dkg.fixedAccepts",
		pkgLog: true, custom: transOnContribute,
	},
	// ---- P9 ----
	{
		file: "util/scatter.go", fn: "calculateExtentSize",
		name: "extentSizeGen", guards: "extentSizeGuards", model: "Dirk.extentSize",
		custom: transExtentSize,
	},
	{
		file: "services/api/grpc/handlers/receiver/helpers.go", fn: "senderID",
		name: "senderIdGen", guards: "senderIdGuards", model: "Dirk.Dkg.senderId (the name → id resolution it presupposes)",
		custom: transSenderID,
	},
	{
		file: "services/process/standard/service.go", fn: "OnCommit",
		name: "commitAcceptsGen", guards: "commitAcceptsGuards", model: "Dirk.Dkg.onCommit",
		pkgLog: true, custom: transOnCommit,
	},
	{
		file: "services/process/standard/generation.go", fn: "getGeneration",
		name: "generationExpiredGen", guards: "generationExpiredGuards", model: "Dirk.Dkg.active",
		pkgLog: true, custom: transGetGeneration,
	},
	{
		file: "services/peers/static/service.go", fn: "Suitable",
		name: "suitableRefusesGen", guards: "suitableRefusesGuards", model: "Dirk.suitableAlloc",
		pkgLog: true, custom: transSuitable,
	},
	// ---- P12 ----
	{
		file: "slashingprotection.go", fn: "storeSlashingProtection",
		name: "importStartGen", guards: "importStartGuards", model: "Dirk.mergeEntries (the start record)",
		pkgLog: true, custom: transImportStart,
	},
	{
		file: "slashingprotection.go", fn: "storeSlashingProtection",
		name: "importAttStepGen", guards: "importAttStepGuards", model: "Dirk.foldAtts (one element)",
		pkgLog: true, custom: transImportAttStep,
	},
	{
		file: "slashingprotection.go", fn: "storeSlashingProtection",
		name: "importBlockStepGen", guards: "importBlockStepGuards", model: "Dirk.foldBlocks (one element)",
		pkgLog: true, custom: transImportBlockStep,
	},
	// ---- P15 (signloop.go) ----
	{
		file: "services/signer/standard/signbeaconattestations.go", fn: "SignBeaconAttestations",
		name: "signLoopPosAttGen", guards: "signLoopPosAttGuards", model: "Dirk.signEvs (one element)",
		pkgLog: true, custom: transSignLoopPos,
	},
	{
		file: "services/signer/standard/multisign.go", fn: "Multisign",
		name: "signLoopPosMultiGen", guards: "signLoopPosMultiGuards", model: "Dirk.signGenerics (one element)",
		pkgLog: true, custom: transSignLoopPos,
	},
	{
		file: "services/signer/standard/signbeaconattestations.go", fn: "SignBeaconAttestations",
		name: "signLoopBoundAttGen", guards: "signLoopBoundAttGuards", model: "Dirk.finishKeyedShort (the `take k`, `padUnknown`)",
		pkgLog: true, custom: transSignLoopBound,
	},
	{
		file: "services/signer/standard/multisign.go", fn: "Multisign",
		name: "signLoopBoundMultiGen", guards: "signLoopBoundMultiGuards", model: "Dirk.multisignShort (the `take k`, `padUnknown`)",
		pkgLog: true, custom: transSignLoopBound,
	},
	// ---- P16 (precheck.go) ----
	{
		file: pcFile, fn: "fetchAccount",
		name: "fetchAccountGen", guards: "fetchAccountGuards", model: "Dirk.fetchAccount",
		pkgLog: true, custom: transPreCheckKernel,
	},
	{
		file: pcFile, fn: "checkAccess",
		name: "checkAccessGen", guards: "checkAccessGuards", model: "Dirk.preCheck (the permission check)",
		pkgLog: true, custom: transPreCheckKernel,
	},
	{
		file: pcFile, fn: "unlockAccount",
		name: "unlockAccountGen", guards: "unlockAccountGuards", model: "Dirk.preCheck (its tail: `lockStateFail`, `acct.unlockable`)",
		pkgLog: true, custom: transPreCheckKernel,
	},
	{
		file: pcFile, fn: "preCheck",
		name: "preCheckGen", guards: "preCheckGuards", model: "Dirk.preCheck",
		pkgLog: true, custom: transPreCheckKernel,
	},
	// ---- P17 (runrules.go) ----
	{
		file: rrFile, fn: "RunRules",
		name: "runRulesValidateGen", guards: "runRulesValidateGuards", model: "Dirk.firstDup / the refusals of Dirk.signAtts, Dirk.multisign before the rules",
		pkgLog: true, custom: transRunRulesValidate,
	},
	{
		file: rrFile, fn: "RunRules",
		name: "runRulesLockProtocolGen", guards: "runRulesLockProtocolGuards", model: "Dirk.lockWrap (Model/LockTrace.lean), the thread program of Model/Conc.lean",
		pkgLog: true, custom: transRunRulesProtocol,
	},
	{
		file: rrFile, fn: "runRules",
		name: "runRulesPathGen", guards: "runRulesPathGuards", model: "Dirk.rulesKeyed (single rule vs. Dirk.onAttestBatch)",
		pkgLog: true, custom: transRunRulesPath,
	},
	// ---- P18 (lister.go) ----
	{
		file: lsFile, fn: "ListAccounts",
		name: "listAnchorGen", guards: "listAnchorGuards", model: "Dirk.listerAnchor",
		pkgLog: true, custom: transListAnchor,
	},
	{
		file: lsFile, fn: "ListAccounts",
		name: "listPathGen", guards: "listPathGuards", model: "Dirk.listerPath",
		pkgLog: true, custom: transListPath,
	},
	{
		file: lsFile, fn: "ListAccounts",
		name: "listAccountGen", guards: "listAccountGuards", model: "Dirk.listAccounts (the filter predicate)",
		pkgLog: true, custom: transListAccount,
	},
	{
		file: lsFile, fn: "ListAccounts",
		name: "listShapeGen", guards: "listShapeGuards", model: "Dirk.listAccounts (what is handed to which call; flatMap over the paths, filter over the accounts)",
		pkgLog: true, custom: transListShape,
	},
	// ---- P19 (handlerbatch.go) ----
	{
		file: hbAttsFile, fn: "SignBeaconAttestations",
		name: "attsEntryVerdictGen", guards: "attsEntryVerdictGuards", model: "Dirk.handlerRejects (inside Dirk.firstRejected)",
		pkgLog: true, custom: transEntryVerdict,
	},
	{
		file: hbMsignFile, fn: "Multisign",
		name: "msignEntryVerdictGen", guards: "msignEntryVerdictGuards", model: "the predicate of Dirk.firstRejectedSign",
		pkgLog: true, custom: transEntryVerdict,
	},
	{
		file: hbAttsFile, fn: "SignBeaconAttestations",
		name: "batchEarlyGen", guards: "batchEarlyGuards", model: "the `items.isEmpty` branch of Dirk.hSignAtts / Dirk.hMultisign",
		pkgLog: true, custom: transBatchEarly,
	},
	{
		file: hbAttsFile, fn: "SignBeaconAttestations",
		name: "batchAfterValidateGen", guards: "batchAfterValidateGuards", model: "the `firstRejected … = some i` branch of Dirk.hSignAtts / Dirk.hMultisign",
		pkgLog: true, custom: transBatchAfterValidate,
	},
	{
		file: hbAttsFile, fn: "SignBeaconAttestations",
		name: "resultToStateGen", guards: "resultToStateGuards", model: "Dirk.respond",
		pkgLog: true, custom: transResultToState,
	},
	{
		file: hbAttsFile, fn: "SignBeaconAttestations",
		name: "handlerShapeGen", guards: "handlerShapeGuards", model: "Dirk.hSignAtts / Dirk.hMultisign (one response per entry, validation before the signer, `respond` after it)",
		pkgLog: true, custom: transHandlerShape,
	},
	// ---- P20 (dispatch.go) ----
	{
		file: rrFile, fn: "runRules",
		name: "dispatchTableGen", guards: "dispatchEntryGuards", model: "which of Dirk.onSign / onPropose / onAttest the endpoints Dirk.signGeneric, multisign / signProp / signAtt consult; Dirk.verdictRes",
		pkgLog: true, custom: transDispatch,
	},
	{
		file: rrFile, fn: rrBatchFn,
		name: "dispatchBatchGen", guards: "dispatchBatchGuards", model: "Dirk.onAttestBatch as consulted by Dirk.rulesKeyed / Dirk.signAtts",
		pkgLog: true, custom: transDispatchBatch,
	},
}

var leanDomains = map[string]string{
	"e2types.DomainBeaconAttester": "domAttester",
	"e2types.DomainBeaconProposer": "domProposer",
	"e2types.DomainVoluntaryExit":  "domExit",
}

var leanVerdicts = map[string]string{
	"rules.UNKNOWN": ".unknown", "rules.APPROVED": ".approved", "rules.DENIED": ".denied", "rules.FAILED": ".failed",
}

// ---------------------------------------------------------------------------------------------
// translator

type untranslatable string

type kitem struct {
	fetch   bool
	cond    string // "" = unconditional
	verdict string
	out     string // second component of the result at this point ("" = kernel has no state)
	text    string // source text, for the guards list
}

type ktrans struct {
	spec    *kernelSpec
	recv    string          // receiver identifier
	roots   map[string]bool // receiver / parameter names the readable selectors start from
	silent  map[string]bool // locals holding loggers / spans
	upd     map[string]lexpr
	inScope bool // state fields readable
	stored  bool // the store call has been passed
	items   []kitem
	// P7 kernels
	u32     map[string]bool   // Lean atoms known to hold a uint32 (so that int(e) cannot overflow)
	lenOf   map[string]string // Go identifier of an opaque slice parameter ↦ Lean parameter holding its length
	opaque  map[string]string // source text of an opaque Bool call ↦ Lean parameter
	opaqueI []string          // identifiers those calls mention (must not be shadowed)
	elemSrc string            // source text of the inner loop's element, e.g. "path.operations[i]"
	elemIdx string            // … and its index variable
	// P9 kernels
	repo      string
	lenSel    map[string]string // source text of a selector whose len() is an input ↦ Lean parameter
	sinceOf   map[string]string // source text of X in time.Since(X) ↦ Lean parameter holding X (the result is `now - X`)
	procs     string            // Lean parameter standing for runtime.GOMAXPROCS(0) ("" = not readable)
	divChecks []string          // divisors (Lean text) the statement being translated divides by: zero ⇒ run-time panic
	logical   int               // depth of && / || operands being translated (a division there would be conditional)
	pkgErrs   map[string]bool   // package-level `var ErrX = errors.New(…)`
}

// reserved: names a kernel must not rebind (inputs, the state, packages and builtins the translator interprets).
func (k *ktrans) reserved(name string) bool {
	switch name {
	case "math", "bytes", "e2types", "rules", "fmt", "opentracing", "monitoring", "nil", "true", "false", "uint64", "int64", "len",
		"strings", "regexp", "errors", "e2wallet", "int", "uint32", "bls", "err":
		return true
	}
	return name == k.recv || (k.spec.stateVar != "" && name == k.spec.stateVar) || k.roots[name] || k.pkgErrs[name]
}

func (k *ktrans) fail(n ast.Node, format string, a ...interface{}) {
	where := ""
	if n != nil {
		where = fmt.Sprintf(" at %s line %d: %s", k.spec.fn, fset.Position(n.Pos()).Line, src(n))
	}
	panic(untranslatable(fmt.Sprintf(format, a...) + where))
}

func paren(l lexpr) string {
	if l.atom {
		return l.s
	}
	return "(" + l.s + ")"
}

func isLogical(t ltype) bool { return t == tProp || t == tBool }

// coerce gives an untyped constant the type of the other operand.
func (k *ktrans) coerce(n ast.Node, l lexpr, t ltype) lexpr {
	if l.t == t {
		return l
	}
	if l.t == tUntyped && (t == tNat || t == tInt || t == tGoInt) {
		if (t == tInt || t == tGoInt) && l.s == "maxI64" {
			return lexpr{"(maxI64 : Int)", t, true}
		}
		if t == tNat && strings.HasPrefix(l.s, "(-") {
			k.fail(n, "negative constant in an unsigned context")
		}
		return lexpr{l.s, t, l.atom}
	}
	k.fail(n, "operand types differ")
	return l
}

var cmpOps = map[token.Token]string{
	token.EQL: "=", token.NEQ: "≠", token.LSS: "<", token.LEQ: "≤", token.GTR: ">", token.GEQ: "≥",
}

func (k *ktrans) expr(e ast.Expr, env map[string]lexpr) lexpr {
	switch x := e.(type) {
	case *ast.ParenExpr:
		return k.expr(x.X, env)
	case *ast.BasicLit:
		switch x.Kind {
		case token.INT:
			v, err := strconv.ParseUint(x.Value, 0, 64)
			if err != nil {
				k.fail(e, "integer literal")
			}
			return lexpr{strconv.FormatUint(v, 10), tUntyped, true}
		case token.STRING:
			v, err := strconv.Unquote(x.Value)
			if err != nil {
				k.fail(e, "string literal")
			}
			for _, r := range v {
				if r < 0x20 || r > 0x7e {
					k.fail(e, "non-printable string literal")
				}
			}
			return lexpr{leanStr(v), tString, true}
		}
	case *ast.Ident:
		switch x.Name {
		case "true":
			return lexpr{"True", tProp, true}
		case "false":
			return lexpr{"False", tProp, true}
		}
		if v, ok := env[x.Name]; ok {
			return v
		}
		k.fail(e, "unknown identifier")
	case *ast.SelectorExpr:
		text := src(x)
		if text == "math.MaxInt64" {
			return lexpr{"maxI64", tUntyped, true}
		}
		if d, ok := leanDomains[text]; ok {
			return lexpr{d, tBytes, true}
		}
		if id, ok := x.X.(*ast.Ident); ok && k.spec.stateVar != "" && id.Name == k.spec.stateVar {
			if _, shadow := env[id.Name]; shadow {
				k.fail(e, "state variable shadowed")
			}
			if !k.inScope {
				k.fail(e, "state read before it is fetched")
			}
			for _, f := range k.spec.fields {
				if f.goExpr == x.Sel.Name {
					if u, ok := k.upd[f.goExpr]; ok {
						return u
					}
					return lexpr{f.lean, f.t, true}
				}
			}
			k.fail(e, "unknown state field")
		}
		for _, p := range k.spec.params {
			if p.goExpr == text {
				root := text[:strings.Index(text, ".")]
				if _, shadow := env[root]; shadow {
					k.fail(e, "parameter shadowed by a local")
				}
				return lexpr{p.lean, p.t, true}
			}
		}
		k.fail(e, "selector is not in the kernel's table of readable inputs")
	case *ast.IndexExpr:
		// the element of the inner loop of Check: path.operations[i]
		if k.elemSrc != "" && src(x) == k.elemSrc {
			if _, shadow := env[k.elemIdx]; shadow {
				k.fail(e, "loop index shadowed")
			}
			return lexpr{"o", tString, true}
		}
		k.fail(e, "unsupported index expression")
	case *ast.SliceExpr:
		if x.Slice3 {
			k.fail(e, "3-index slice")
		}
		b := k.expr(x.X, env)
		if b.t != tBytes {
			k.fail(e, "slice of a non-byte value")
		}
		if x.Low == nil && x.High == nil {
			return b
		}
		if lo, ok := x.Low.(*ast.BasicLit); ok && lo.Value == "0" {
			if hi, ok := x.High.(*ast.BasicLit); ok && hi.Value == "4" {
				return lexpr{"prefix4 " + paren(b), tBytes, false}
			}
		}
		k.fail(e, "slice bounds other than [:] and [0:4]")
	case *ast.CallExpr:
		fn := src(x.Fun)
		switch {
		case fn == "bytes.Equal" && len(x.Args) == 2:
			a, b := k.expr(x.Args[0], env), k.expr(x.Args[1], env)
			if a.t != tBytes || b.t != tBytes {
				k.fail(e, "bytes.Equal on non-byte values")
			}
			return lexpr{a.s + " = " + b.s, tProp, false}
		case fn == "uint64" && len(x.Args) == 1:
			a := k.expr(x.Args[0], env)
			switch a.t {
			case tInt:
				return lexpr{"u64 " + paren(a), tNat, false}
			case tNat:
				return a
			case tUntyped:
				return k.coerce(e, a, tNat)
			}
		case fn == "int64" && len(x.Args) == 1:
			a := k.expr(x.Args[0], env)
			switch a.t {
			case tNat:
				return lexpr{"i64 " + paren(a), tInt, false}
			case tInt:
				return a
			case tUntyped:
				return k.coerce(e, a, tInt)
			}
		case fn == "len" && len(x.Args) == 1 && k.isLenParam(x.Args[0], env):
			return lexpr{k.lenOf[src(x.Args[0])], tNat, true}
		case fn == "len" && len(x.Args) == 1 && k.lenSel[src(x.Args[0])] != "":
			// P9: the length of a collection that is an input of the kernel, e.g. len(generation.sharedSecrets)
			k.unshadowed(x.Args[0], env)
			return lexpr{k.lenSel[src(x.Args[0])], tNat, true}
		case (fn == "time.Since" || fn == "time.Now().Sub") && len(x.Args) == 1 && k.sinceOf[src(x.Args[0])] != "":
			// P9: elapsed time since an input instant (monotonic clock: not negative), as the model's truncated `now - started`
			k.unshadowed(x.Args[0], env)
			return lexpr{"now - " + k.sinceOf[src(x.Args[0])], tNat, false}
		case fn == "runtime.GOMAXPROCS" && k.procs != "" && len(x.Args) == 1 && src(x.Args[0]) == "0":
			// P9: a query (argument 0 does not change the setting); the runtime guarantees a value >= 1
			return lexpr{k.procs, tGoInt, true}
		case k.opaque[src(x)] != "":
			// an opaque Bool input of the kernel, e.g. verifyContribution(generation.id, secret, vVec)
			for _, id := range k.opaqueI {
				if _, shadow := env[id]; shadow {
					k.fail(e, "argument of an opaque call is shadowed by a local")
				}
			}
			return lexpr{k.opaque[src(x)], tBool, true}
		case fn == "int" && len(x.Args) == 1:
			// uint32 → int cannot overflow (int is 64 bits on every platform dirk is built for)
			a := k.expr(x.Args[0], env)
			if a.t == tNat && a.atom && k.u32[a.s] {
				return a
			}
		case fn == "strings.EqualFold" && len(x.Args) == 2:
			a, b := k.expr(x.Args[0], env), k.expr(x.Args[1], env)
			if a.t == tString && b.t == tString {
				return lexpr{"equalFold " + paren(a) + " " + paren(b), tBool, false}
			}
		case (fn == "strings.HasPrefix" || fn == "strings.HasSuffix") && len(x.Args) == 2:
			a, b := k.expr(x.Args[0], env), k.expr(x.Args[1], env)
			if a.t == tString && b.t == tString {
				m := map[string]string{"strings.HasPrefix": "String.startsWith", "strings.HasSuffix": "String.endsWith"}[fn]
				return lexpr{m + " " + paren(a) + " " + paren(b), tBool, false}
			}
		case (fn == "strings.TrimPrefix" || fn == "strings.TrimSuffix") && len(x.Args) == 2:
			a, b := k.expr(x.Args[0], env), k.expr(x.Args[1], env)
			if a.t == tString && b.t == tString {
				m := map[string]string{"strings.TrimPrefix": "String.dropPrefix", "strings.TrimSuffix": "String.dropSuffix"}[fn]
				return lexpr{"(" + m + " " + paren(a) + " " + paren(b) + ").copy", tString, false}
			}
		case (fn == "strings.ToLower" || fn == "strings.ToUpper") && len(x.Args) == 1:
			a := k.expr(x.Args[0], env)
			if a.t == tString {
				m := map[string]string{"strings.ToLower": "lowerS", "strings.ToUpper": "String.toUpper"}[fn]
				return lexpr{m + " " + paren(a), tString, false}
			}
		case fn == "fmt.Sprintf" && len(x.Args) >= 1:
			return k.sprintf(x, env)
		case fn == "len" && len(x.Args) == 1:
			a := k.expr(x.Args[0], env)
			if a.t == tBytes || a.t == tStrList {
				return lexpr{paren(a) + ".length", tNat, false}
			}
		}
		k.fail(e, "unsupported call")
	case *ast.UnaryExpr:
		switch x.Op {
		case token.NOT:
			a := k.expr(x.X, env)
			if !isLogical(a.t) {
				k.fail(e, "negation of a non-boolean")
			}
			return lexpr{"¬ " + paren(a), tProp, false}
		case token.SUB:
			if lit, ok := x.X.(*ast.BasicLit); ok && lit.Kind == token.INT {
				a := k.expr(lit, env)
				return lexpr{"(-" + a.s + ")", tUntyped, true}
			}
		}
		k.fail(e, "unsupported unary operator")
	case *ast.BinaryExpr:
		switch x.Op {
		case token.LAND, token.LOR:
			k.logical++
			a, b := k.expr(x.X, env), k.expr(x.Y, env)
			k.logical--
			if !isLogical(a.t) || !isLogical(b.t) {
				k.fail(e, "logical operator on non-booleans")
			}
			op := " ∧ "
			if x.Op == token.LOR {
				op = " ∨ "
			}
			return lexpr{paren(a) + op + paren(b), tProp, false}
		}
		switch x.Op {
		case token.ADD, token.SUB, token.MUL, token.QUO, token.REM:
			if r, ok := k.goIntArith(x, env); ok {
				return r
			}
		}
		switch x.Op {
		case token.ADD:
			// string concatenation (integer addition on Nat / Int could overflow: not translated; Go `int`: goIntArith)
			a, b := k.expr(x.X, env), k.expr(x.Y, env)
			if a.t != tString || b.t != tString {
				k.fail(e, "+ on other than strings")
			}
			return lexpr{paren(a) + " ++ " + paren(b), tString, false}
		case token.QUO, token.REM:
			// unsigned division by a non-zero literal (no overflow, no panic)
			a, b := k.expr(x.X, env), k.expr(x.Y, env)
			if _, lit := x.Y.(*ast.BasicLit); !lit || a.t != tNat || b.t != tUntyped || b.s == "0" {
				k.fail(e, "division other than unsigned / non-zero literal")
			}
			op := " / "
			if x.Op == token.REM {
				op = " % "
			}
			return lexpr{paren(a) + op + b.s, tNat, false}
		}
		if op, ok := cmpOps[x.Op]; ok {
			// pointer parameter compared with nil
			if y, ok := x.Y.(*ast.Ident); ok && y.Name == "nil" && (x.Op == token.EQL || x.Op == token.NEQ) {
				if id, ok := x.X.(*ast.Ident); ok {
					if _, shadow := env[id.Name]; !shadow {
						for _, p := range k.spec.nilParams {
							if p.goExpr == id.Name {
								if x.Op == token.EQL {
									return lexpr{p.lean + " = true", tProp, false}
								}
								return lexpr{p.lean + " = false", tProp, false}
							}
						}
					}
				}
				k.fail(e, "nil comparison of something that is not a declared pointer parameter")
			}
			a, b := k.expr(x.X, env), k.expr(x.Y, env)
			switch {
			case a.t == tUntyped && b.t == tUntyped:
				k.fail(e, "comparison of two constants")
			case a.t == tUntyped:
				a = k.coerce(e, a, b.t)
			default:
				b = k.coerce(e, b, a.t)
			}
			switch a.t {
			case tNat, tInt, tGoInt:
			case tString:
				if x.Op != token.EQL && x.Op != token.NEQ {
					k.fail(e, "string ordering")
				}
			default:
				k.fail(e, "comparison of unsupported operand type")
			}
			return lexpr{paren(a) + " " + op + " " + paren(b), tProp, false}
		}
		k.fail(e, "unsupported binary operator")
	}
	k.fail(e, "unsupported expression")
	return lexpr{}
}

// ---- statements that provably do not influence the decision: logging, tracing, monitoring ----

// pureArg: an argument whose evaluation has no effect (it may only be read by a log call).
func pureArg(e ast.Expr) bool {
	switch x := e.(type) {
	case *ast.BasicLit, *ast.Ident:
		return true
	case *ast.ParenExpr:
		return pureArg(x.X)
	case *ast.SelectorExpr:
		return pureArg(x.X)
	case *ast.CallExpr:
		switch src(x.Fun) {
		case "fmt.Sprintf", "uint64", "int64", "len", "time.Since", "uint32", "int":
			for _, a := range x.Args {
				if !pureArg(a) {
					return false
				}
			}
			return true
		}
	}
	return false
}

// silentChain: e is a method-call chain rooted at the service's logger, a local logger or span, or the
// opentracing / monitoring packages, every argument of which is pure, and none of whose methods ends
// the process.
func (k *ktrans) silentChain(e ast.Expr) bool {
	first := "" // the selector closest to the root
	for {
		switch x := e.(type) {
		case *ast.CallExpr:
			for _, a := range x.Args {
				if !pureArg(a) {
					return false
				}
			}
			e = x.Fun
		case *ast.SelectorExpr:
			if x.Sel.Name == "Fatal" || x.Sel.Name == "Panic" {
				return false
			}
			first = x.Sel.Name
			e = x.X
		case *ast.Ident:
			switch {
			case k.silent[x.Name]:
				return true
			case x.Name == k.recv && k.recv != "" && first == "log":
				return true
			case x.Name == "opentracing" || x.Name == "monitoring":
				return true
			}
			return false
		default:
			return false
		}
	}
}

func (k *ktrans) silentStmt(st ast.Stmt) bool {
	switch x := st.(type) {
	case *ast.ExprStmt:
		_, isCall := x.X.(*ast.CallExpr)
		return isCall && k.silentChain(x.X)
	case *ast.DeferStmt:
		return k.silentChain(x.Call)
	case *ast.AssignStmt:
		// log := s.log.With()….Logger()        span, _ := opentracing.StartSpanFromContext(ctx, "…")
		if x.Tok != token.DEFINE || len(x.Rhs) != 1 {
			return false
		}
		if _, isCall := x.Rhs[0].(*ast.CallExpr); !isCall || !k.silentChain(x.Rhs[0]) {
			return false
		}
		var names []string
		for _, l := range x.Lhs {
			id, ok := l.(*ast.Ident)
			if !ok {
				return false
			}
			if k.reserved(id.Name) {
				return false
			}
			names = append(names, id.Name)
		}
		for _, n := range names {
			if n != "_" {
				k.silent[n] = true
			}
		}
		return true
	}
	return false
}

// ---- statement walk ----

func (k *ktrans) stateOut() string {
	if k.spec.stateVar == "" {
		return ""
	}
	var fs []string
	for _, f := range k.spec.fields {
		if u, ok := k.upd[f.goExpr]; ok {
			fs = append(fs, u.s)
		} else {
			fs = append(fs, f.lean)
		}
	}
	tuple := strings.Join(fs, ", ")
	if len(fs) > 1 || k.spec.stateIsParam {
		tuple = "(" + tuple + ")"
	}
	if k.spec.stateIsParam {
		return tuple
	}
	if !k.stored {
		return "none"
	}
	if len(fs) == 1 {
		return "some (" + tuple + ")"
	}
	return "some " + tuple
}

func conj(path []string) string {
	switch len(path) {
	case 0:
		return ""
	case 1:
		return path[0]
	}
	q := make([]string, len(path))
	for i, p := range path {
		q[i] = "(" + p + ")"
	}
	return strings.Join(q, " ∧ ")
}

func goVerdict(v string) string { return "rules." + strings.ToUpper(strings.TrimPrefix(v, ".")) }

// retVerdict: `return rules.X`
func (k *ktrans) retVerdict(st ast.Stmt) (string, bool) {
	r, ok := st.(*ast.ReturnStmt)
	if !ok {
		return "", false
	}
	if len(r.Results) != 1 {
		k.fail(st, "return of other than one value")
	}
	v, ok := leanVerdicts[src(r.Results[0])]
	if !ok {
		k.fail(st, "return value is not a rules.Result constant")
	}
	return v, true
}

// errBlock: a block of silent statements ending in `return rules.X` (the error arm of fetch / store).
func (k *ktrans) errBlock(b *ast.BlockStmt) string {
	for i, st := range b.List {
		if v, ok := k.retVerdict(st); ok && i == len(b.List)-1 {
			return v
		}
		if !k.silentStmt(st) {
			k.fail(st, "unsupported statement in an error arm")
		}
	}
	k.fail(b, "error arm does not end in a return")
	return ""
}

func isErrNotNil(e ast.Expr) bool { return src(e) == "err != nil" }

// walk translates a statement list.  path/ptext: the enclosing if-conditions (translated / source).
// It returns true when the list ends in an unconditional return.
func (k *ktrans) walk(list []ast.Stmt, path, ptext []string, env map[string]lexpr, top bool) bool {
	declared := map[string]bool{}
	for i := 0; i < len(list); i++ {
		st := list[i]
		if v, ok := k.retVerdict(st); ok {
			text := "return " + goVerdict(v)
			if len(ptext) > 0 {
				text = strings.Join(ptext, " && ") + " => " + text
			}
			k.items = append(k.items, kitem{cond: conj(path), verdict: v, out: k.stateOut(), text: text})
			return true
		}
		if k.silentStmt(st) {
			continue
		}
		switch x := st.(type) {
		case *ast.AssignStmt:
			// fetch:   state, err := s.fetchX(ctx, key)   followed by   if err != nil { …; return rules.X }
			if k.spec.fetchFn != "" && len(x.Lhs) == 2 && len(x.Rhs) == 1 && src(x.Lhs[0]) == k.spec.stateVar && src(x.Lhs[1]) == "err" {
				call, ok := x.Rhs[0].(*ast.CallExpr)
				if !top || !ok || x.Tok != token.DEFINE || src(call.Fun) != k.recv+"."+k.spec.fetchFn || len(call.Args) != 2 || src(call.Args[1]) != k.spec.keyArg || k.inScope {
					k.fail(st, "unsupported form of the state fetch")
				}
				if i+1 >= len(list) {
					k.fail(st, "fetch error is not checked")
				}
				chk, ok := list[i+1].(*ast.IfStmt)
				if !ok || chk.Init != nil || chk.Else != nil || !isErrNotNil(chk.Cond) {
					k.fail(list[i+1], "fetch error is not checked immediately")
				}
				v := k.errBlock(chk.Body)
				k.items = append(k.items, kitem{fetch: true, verdict: v, out: k.stateOut(),
					text: "fetch " + src(call.Fun) + "(" + k.spec.keyArg + "); err != nil => return " + goVerdict(v)})
				k.inScope = true
				i++
				continue
			}
			if len(x.Lhs) != 1 || len(x.Rhs) != 1 || (x.Tok != token.DEFINE && x.Tok != token.ASSIGN) {
				k.fail(st, "unsupported assignment")
			}
			switch l := x.Lhs[0].(type) {
			case *ast.Ident:
				// local alias
				if l.Name == "_" || l.Name == "err" || k.reserved(l.Name) {
					k.fail(st, "assignment to a reserved name")
				}
				if x.Tok == token.ASSIGN && !top && !declared[l.Name] {
					k.fail(st, "assignment to an outer variable inside a conditional block")
				}
				if x.Tok == token.ASSIGN {
					if _, ok := env[l.Name]; !ok {
						k.fail(st, "assignment to an unknown variable")
					}
				}
				env[l.Name] = k.expr(x.Rhs[0], env)
				declared[l.Name] = true
				delete(k.silent, l.Name)
			case *ast.SelectorExpr:
				// state.Field = e
				id, ok := l.X.(*ast.Ident)
				if !ok || k.spec.stateVar == "" || id.Name != k.spec.stateVar || x.Tok != token.ASSIGN {
					k.fail(st, "assignment to something other than a local or a state field")
				}
				if !top {
					k.fail(st, "conditional state update")
				}
				if !k.inScope {
					k.fail(st, "state written before it is fetched")
				}
				if k.stored {
					k.fail(st, "state written after it was stored")
				}
				found := false
				for _, f := range k.spec.fields {
					if f.goExpr == l.Sel.Name {
						v := k.expr(x.Rhs[0], env)
						if v.t == tUntyped {
							v = k.coerce(st, v, f.t)
						}
						if v.t != f.t {
							k.fail(st, "state field assigned a value of another type")
						}
						k.upd[f.goExpr] = lexpr{v.s, v.t, v.atom}
						found = true
					}
				}
				if !found {
					k.fail(st, "unknown state field")
				}
			default:
				k.fail(st, "unsupported assignment target")
			}
		case *ast.RangeStmt:
			k.membership(x, env, declared)
		case *ast.IfStmt:
			if x.Else != nil {
				k.fail(st, "if with else")
			}
			if x.Init != nil {
				// store:   if err = s.storeX(ctx, key, state); err != nil { …; return rules.X }
				as, ok := x.Init.(*ast.AssignStmt)
				if !top || !ok || k.spec.storeFn == "" || len(as.Lhs) != 1 || len(as.Rhs) != 1 || src(as.Lhs[0]) != "err" || !isErrNotNil(x.Cond) {
					k.fail(st, "if with an init statement that is not the state store")
				}
				call, ok := as.Rhs[0].(*ast.CallExpr)
				if !ok || src(call.Fun) != k.recv+"."+k.spec.storeFn || len(call.Args) != 3 || src(call.Args[1]) != k.spec.keyArg || src(call.Args[2]) != k.spec.stateVar || !k.inScope || k.stored {
					k.fail(st, "unsupported form of the state store")
				}
				v := k.errBlock(x.Body)
				k.stored = true
				k.items = append(k.items, kitem{cond: "storeOk = false", verdict: v, out: k.stateOut(),
					text: "store " + src(call.Fun) + "(" + k.spec.keyArg + ", " + k.spec.stateVar + "); err != nil => return " + goVerdict(v)})
				continue
			}
			c := k.expr(x.Cond, env)
			if !isLogical(c.t) {
				k.fail(x.Cond, "condition is not boolean")
			}
			inner := map[string]lexpr{}
			for n, v := range env {
				inner[n] = v
			}
			// A block that does not end in a return falls through to the statements after it; since the
			// block cannot assign outer locals or state fields (checked above), its guards are exactly
			// the guards `cond ∧ inner-cond`, in place.
			k.walk(x.Body.List, append(append([]string{}, path...), c.s), append(append([]string{}, ptext...), src(x.Cond)), inner, false)
		default:
			k.fail(st, "unsupported statement")
		}
	}
	return false
}

// membership recognises the one loop shape of OnSign,
//
//	v := false
//	for i := range L { if E == L[i] { v = true; break } }       (or: for _, a := range L { if E == a { … } })
//
// and rebinds v to `L.contains E`.
func (k *ktrans) membership(r *ast.RangeStmt, env map[string]lexpr, declared map[string]bool) {
	bad := func() { k.fail(r, "loop is not the recognised membership test") }
	if r.Tok != token.DEFINE || len(r.Body.List) != 1 {
		bad()
	}
	list := k.expr(r.X, env)
	if list.t != tStrList {
		bad()
	}
	var elem func(e ast.Expr) bool
	key, _ := r.Key.(*ast.Ident)
	if key == nil {
		bad()
	}
	loopVars := []string{key.Name}
	if r.Value == nil {
		elem = func(e ast.Expr) bool {
			ix, ok := e.(*ast.IndexExpr)
			return ok && src(ix.X) == src(r.X) && src(ix.Index) == key.Name
		}
	} else {
		val, _ := r.Value.(*ast.Ident)
		if val == nil || key.Name != "_" {
			bad()
		}
		loopVars = []string{val.Name}
		elem = func(e ast.Expr) bool { return src(e) == val.Name }
	}
	ifs, ok := r.Body.List[0].(*ast.IfStmt)
	if !ok || ifs.Init != nil || ifs.Else != nil {
		bad()
	}
	cmp, ok := ifs.Cond.(*ast.BinaryExpr)
	if !ok || cmp.Op != token.EQL {
		bad()
	}
	var needle ast.Expr
	switch {
	case elem(cmp.Y):
		needle = cmp.X
	case elem(cmp.X):
		needle = cmp.Y
	default:
		bad()
	}
	inner := map[string]lexpr{}
	for n, v := range env {
		inner[n] = v
	}
	for _, lv := range loopVars {
		delete(inner, lv) // the needle must not mention the loop variable
	}
	nd := k.expr(needle, inner)
	if nd.t != tString {
		bad()
	}
	body := ifs.Body.List
	if len(body) == 2 {
		if br, ok := body[1].(*ast.BranchStmt); !ok || br.Tok != token.BREAK || br.Label != nil {
			bad()
		}
		body = body[:1]
	}
	if len(body) != 1 {
		bad()
	}
	set, ok := body[0].(*ast.AssignStmt)
	if !ok || set.Tok != token.ASSIGN || len(set.Lhs) != 1 || len(set.Rhs) != 1 || src(set.Rhs[0]) != "true" {
		bad()
	}
	flag, ok := set.Lhs[0].(*ast.Ident)
	if !ok || !declared[flag.Name] || env[flag.Name].s != "False" {
		k.fail(r, "membership flag is not a local initialised to false in the same block")
	}
	env[flag.Name] = lexpr{paren(list) + ".contains " + paren(nd), tBool, false}
	k.items = append(k.items, kitem{text: flag.Name + " := (" + src(needle) + " ∈ " + src(r.X) + ")  [for-range membership loop]", verdict: "note"})
}

// ---- emission ----

func (k *ktrans) result(it kitem) string {
	if it.out == "" {
		return it.verdict
	}
	return "(" + it.verdict + ", " + it.out + ")"
}

func (k *ktrans) emit(items []kitem, ind string) string {
	for len(items) > 0 && items[0].verdict == "note" {
		items = items[1:]
	}
	if len(items) == 0 {
		panic(untranslatable("control can reach the end of " + k.spec.fn + " without a return"))
	}
	it := items[0]
	switch {
	case it.fetch:
		var pats []string
		for _, f := range k.spec.fields {
			pats = append(pats, f.lean)
		}
		pat := strings.Join(pats, ", ")
		if len(pats) > 1 {
			pat = "(" + pat + ")"
		}
		return "match fetched with\n" + ind + "| none => " + k.result(it) + "\n" + ind + "| some " + pat + " =>\n" + ind + "  " + k.emit(items[1:], ind+"  ")
	case it.cond == "":
		return k.result(it)
	}
	return "if " + it.cond + " then " + k.result(it) + "\n" + ind + "else " + k.emit(items[1:], ind)
}

func translateKernel(repo string, spec *kernelSpec) (out string) {
	defer func() {
		if r := recover(); r != nil {
			u, ok := r.(untranslatable)
			if !ok {
				panic(r)
			}
			out = fmt.Sprintf("/-- %s (%s) is outside the translatable fragment; Dirk/Props/KernelsEq.lean cannot build. -/\ndef kernelUntranslatable_%s : String :=\n  %s\n",
				spec.fn, spec.file, spec.name, leanStr(string(u)))
		}
	}()
	sp := *spec // custom translators fill in the tables of readable inputs once they know the local names
	spec = &sp
	k := &ktrans{spec: spec, silent: map[string]bool{}, upd: map[string]lexpr{}, inScope: spec.stateIsParam,
		roots: map[string]bool{}, u32: map[string]bool{}, lenOf: map[string]string{}, opaque: map[string]string{},
		repo: repo, lenSel: map[string]string{}, sinceOf: map[string]string{}, pkgErrs: map[string]bool{}}
	fd := funcDecl(parse(filepath.Join(repo, spec.file)), spec.fn)
	if fd == nil || fd.Body == nil {
		k.fail(nil, "function %s not found in %s", spec.fn, spec.file)
	}
	if fd.Recv != nil && len(fd.Recv.List) == 1 && len(fd.Recv.List[0].Names) == 1 {
		k.recv = fd.Recv.List[0].Names[0].Name
	}
	if spec.pkgLog {
		k.silent["log"] = true
	}
	if spec.custom != nil {
		return spec.custom(k, fd)
	}
	if fd.Type.Results == nil || len(fd.Type.Results.List) != 1 || src(fd.Type.Results.List[0].Type) != "rules.Result" || len(fd.Type.Results.List[0].Names) != 0 {
		k.fail(nil, "%s does not return exactly one unnamed rules.Result", spec.fn)
	}
	// every root of a readable selector must be the receiver or a parameter of the function
	formal := map[string]bool{k.recv: true}
	for _, f := range fd.Type.Params.List {
		for _, n := range f.Names {
			formal[n.Name] = true
		}
	}
	k.roots = map[string]bool{}
	for _, p := range spec.params {
		k.roots[p.goExpr[:strings.Index(p.goExpr, ".")]] = true
	}
	for _, p := range spec.nilParams {
		k.roots[p.goExpr] = true
	}
	if spec.stateIsParam {
		k.roots[spec.stateVar] = true
	}
	for _, p := range spec.params {
		if r := p.goExpr[:strings.Index(p.goExpr, ".")]; !formal[r] {
			k.fail(nil, "%s has no parameter %q", spec.fn, r)
		}
	}
	for r := range k.roots {
		if !formal[r] {
			k.fail(nil, "%s has no parameter named as the kernel table expects", spec.fn)
		}
	}
	k.walk(fd.Body.List, nil, nil, map[string]lexpr{}, true)
	if !spec.stateIsParam && spec.stateVar != "" && !(k.inScope && k.stored) {
		k.fail(nil, "%s does not fetch and store its state", spec.fn)
	}

	var b strings.Builder
	var ps []string
	for _, p := range spec.nilParams {
		ps = append(ps, fmt.Sprintf("(%s : %s)", p.lean, p.leanType))
	}
	for _, p := range spec.params {
		ps = append(ps, fmt.Sprintf("(%s : %s)", p.lean, p.leanType))
	}
	var ftypes []string
	for _, f := range spec.fields {
		ftypes = append(ftypes, f.leanType)
	}
	ftuple := strings.Join(ftypes, " × ")
	resType := "Verdict"
	switch {
	case spec.stateVar == "":
	case spec.stateIsParam:
		for _, f := range spec.fields {
			ps = append(ps, fmt.Sprintf("(%s : %s)", f.lean, f.leanType))
		}
		resType = "Verdict × (" + ftuple + ")"
	default:
		if len(ftypes) > 1 {
			ftuple = "(" + ftuple + ")"
		}
		ps = append(ps, "(fetched : Option "+ftuple+")", "(storeOk : Bool)")
		resType = "Verdict × Option " + ftuple
	}
	body := k.emit(k.items, "  ")
	fmt.Fprintf(&b, "/-- `%s` (%s), translated statement by statement; model counterpart: `%s`.", spec.fn, spec.file, spec.model)
	if spec.stateVar != "" && !spec.stateIsParam {
		fmt.Fprintf(&b, "\n    `fetched` = result of `%s` (`none` = error), `storeOk` = `%s` returned no error;\n    second component = the state handed to the store, if it was called.", spec.fetchFn, spec.storeFn)
	}
	fmt.Fprintf(&b, " -/\ndef %s %s : %s :=\n  %s\n\n", spec.name, strings.Join(ps, " "), resType, body)
	var texts []string
	for _, it := range k.items {
		texts = append(texts, it.text)
	}
	fmt.Fprintf(&b, "/-- the guards of `%s`, as written in the source, in order -/\ndef %s : List String := [\n", spec.fn, spec.guards)
	for i, t := range texts {
		sep := ","
		if i == len(texts)-1 {
			sep = ""
		}
		fmt.Fprintf(&b, "  %s%s\n", leanStr(t), sep)
	}
	b.WriteString("]\n")
	return b.String()
}

func writeKernels(repo, dir string) {
	var b strings.Builder
	b.WriteString("/-\n  Dirk.Gen.Kernels — GENERATED — do not edit.  Regenerated on every run by /verif/factx (kernels.go) from the\n" +
		"  Go source of the decision kernels (rules/standard, services/checker/static, services/process/standard,\n" +
		"  util/scatter.go, services/api/grpc/handlers/receiver, services/peers/static, slashingprotection.go,\n" +
		"  services/signer/standard: the batch signing loop and the pre-check, with core/result.go and rules/service.go for the\n" +
		"  enumerator values; services/ruler/golang/runner.go: RunRules and the head of runRules, with services/ruler/service.go\n" +
		"  for the action constants; services/lister/standard/listaccounts.go; services/api/grpc/handlers/signer: the batch paths of\n" +
		"  SignBeaconAttestations and Multisign; services/ruler/golang/runner.go again: the per-entry dispatch of runRules and the\n" +
		"  batch shortcut runRulesForMultipleBeaconAttestations);\n" +
		"  Dirk/Props/KernelsEq.lean proves each definition\n" +
		"  equal to the hand-written model function.  A kernel outside the translatable fragment appears as\n" +
		"  `kernelUntranslatable_<name>` instead, and KernelsEq.lean does not build.\n-/\n" +
		"import Dirk.Model.Rules\nimport Dirk.Model.Checker\n\nset_option linter.unusedVariables false\n\nnamespace Dirk.Gen\n\n" +
		"/-- Go `int` arithmetic (64-bit two's complement): the result of `+ - * /` reduced to the representable range\n" +
		"    (fixed text, not translated from any source). -/\n" +
		"def wrapI64 (x : Int) : Int := (x + 9223372036854775808) % 18446744073709551616 - 9223372036854775808\n\n")
	for i := range kernelSpecs {
		if kernelSpecs[i].name == "signLoopPosAttGen" {
			// P15: the enumerator values the signing-loop kernels are written in
			b.WriteString(resultEnums(repo))
			b.WriteString("\n")
		}
		b.WriteString(translateKernel(repo, &kernelSpecs[i]))
		b.WriteString("\n")
	}
	b.WriteString("end Dirk.Gen\n")
	out := filepath.Join(dir, "Kernels.lean")
	old, _ := os.ReadFile(out)
	if string(old) != b.String() {
		os.MkdirAll(dir, 0o755)
		if err := os.WriteFile(out, []byte(b.String()), 0o644); err != nil {
			fmt.Fprintln(os.Stderr, err)
			os.Exit(1)
		}
	}
}

// =============================================================================================
// P7: four more kernels.  Each has its own small statement walker (the shapes differ too much from the
// rules.Result guard chains above), but they share the expression translator, the notion of a silent
// statement and the `kernelUntranslatable_<name>` fallback.

// sprintf: fmt.Sprintf with a literal format made of text and %s verbs only, every argument a string.
func (k *ktrans) sprintf(x *ast.CallExpr, env map[string]lexpr) lexpr {
	lit, ok := x.Args[0].(*ast.BasicLit)
	if !ok || lit.Kind != token.STRING {
		k.fail(x, "fmt.Sprintf with a non-literal format")
	}
	format, err := strconv.Unquote(lit.Value)
	if err != nil {
		k.fail(x, "string literal")
	}
	for _, r := range format {
		if r < 0x20 || r > 0x7e {
			k.fail(x, "non-printable string literal")
		}
	}
	pieces := strings.Split(format, "%s")
	if len(pieces)-1 != len(x.Args)-1 {
		k.fail(x, "fmt.Sprintf: number of %%s verbs and of arguments differ")
	}
	var parts []string
	for i, p := range pieces {
		if strings.Contains(p, "%") {
			k.fail(x, "fmt.Sprintf with a verb other than %%s")
		}
		if p != "" {
			parts = append(parts, leanStr(p))
		}
		if i < len(pieces)-1 {
			a := k.expr(x.Args[i+1], env)
			if a.t != tString {
				k.fail(x, "fmt.Sprintf %%s of a non-string")
			}
			parts = append(parts, paren(a))
		}
	}
	switch len(parts) {
	case 0:
		return lexpr{`""`, tString, true}
	case 1:
		return lexpr{parts[0], tString, false}
	}
	return lexpr{strings.Join(parts, " ++ "), tString, false}
}

func (k *ktrans) isLenParam(e ast.Expr, env map[string]lexpr) bool {
	id, ok := e.(*ast.Ident)
	if !ok || k.lenOf[id.Name] == "" {
		return false
	}
	_, shadow := env[id.Name]
	return !shadow
}

type gparam struct{ name, typ string }

func flatParams(fd *ast.FuncDecl) []gparam {
	var ps []gparam
	for _, f := range fd.Type.Params.List {
		if len(f.Names) == 0 {
			ps = append(ps, gparam{"_", src(f.Type)})
		}
		for _, n := range f.Names {
			ps = append(ps, gparam{n.Name, src(f.Type)})
		}
	}
	return ps
}

func resultTypes(fd *ast.FuncDecl) string {
	var ts []string
	if fd.Type.Results != nil {
		for _, f := range fd.Type.Results.List {
			n := len(f.Names)
			if n == 0 {
				n = 1
			}
			for i := 0; i < n; i++ {
				ts = append(ts, src(f.Type))
			}
			if len(f.Names) != 0 {
				ts = append(ts, "(named)")
			}
		}
	}
	return strings.Join(ts, ", ")
}

func copyEnv(env map[string]lexpr) map[string]lexpr {
	c := map[string]lexpr{}
	for n, v := range env {
		c[n] = v
	}
	return c
}

// alias: `x := e` / `x = e` at the top level of the kernel, x a plain local (substituted from then on).
func (k *ktrans) alias(st *ast.AssignStmt, env map[string]lexpr) {
	if len(st.Lhs) != 1 || len(st.Rhs) != 1 || (st.Tok != token.DEFINE && st.Tok != token.ASSIGN) {
		k.fail(st, "unsupported assignment")
	}
	l, ok := st.Lhs[0].(*ast.Ident)
	if !ok || l.Name == "_" || k.reserved(l.Name) || k.lenOf[l.Name] != "" {
		k.fail(st, "assignment to other than a plain local")
	}
	for _, id := range k.opaqueI {
		if l.Name == id {
			k.fail(st, "assignment to an argument of an opaque call")
		}
	}
	if _, known := env[l.Name]; st.Tok == token.ASSIGN && !known {
		k.fail(st, "assignment to an unknown variable")
	}
	env[l.Name] = k.expr(st.Rhs[0], env)
	delete(k.silent, l.Name)
}

// silentTail: b = silent statements followed by exactly one terminal statement, which is returned.
func (k *ktrans) silentTail(b *ast.BlockStmt) ast.Stmt {
	for i, st := range b.List {
		if i == len(b.List)-1 {
			return st
		}
		if !k.silentStmt(st) {
			k.fail(st, "unsupported statement in a guard block")
		}
	}
	k.fail(b, "empty guard block")
	return nil
}

func plainIf(st ast.Stmt) (*ast.IfStmt, bool) {
	x, ok := st.(*ast.IfStmt)
	return x, ok && x.Init == nil && x.Else == nil
}

func (k *ktrans) cond(e ast.Expr, env map[string]lexpr) lexpr {
	c := k.expr(e, env)
	if !isLogical(c.t) {
		k.fail(e, "condition is not boolean")
	}
	return c
}

// isRefusal: `return …, errors.New(…)` / `return …, fmt.Errorf(…)` with as many results as the function has.
func (k *ktrans) isRefusal(st ast.Stmt, nres int) bool {
	r, ok := st.(*ast.ReturnStmt)
	if !ok || len(r.Results) != nres || nres == 0 {
		return false
	}
	if id, isId := r.Results[nres-1].(*ast.Ident); isId && k.pkgErrs[id.Name] {
		// P9: a package-level `var ErrX = errors.New(…)` (never nil; reserved, so not rebound locally)
	} else {
		call, ok := r.Results[nres-1].(*ast.CallExpr)
		if !ok {
			return false
		}
		fn := src(call.Fun)
		if fn != "errors.New" && fn != "fmt.Errorf" {
			return false
		}
		for _, a := range call.Args {
			if !pureArg(a) {
				return false
			}
		}
	}
	for _, res := range r.Results[:nres-1] {
		if !pureArg(res) && src(res) != "bls.SecretKey{}" {
			return false
		}
	}
	return true
}

// refusalGuard: `if cond { …log…; return …, <error> }`
func (k *ktrans) refusalGuard(st ast.Stmt, env map[string]lexpr, nres int) (lexpr, string) {
	x, ok := plainIf(st)
	if !ok {
		k.fail(st, "if with init or else")
	}
	c := k.cond(x.Cond, env)
	if t := k.silentTail(x.Body); !k.isRefusal(t, nres) {
		k.fail(t, "guard block does not end in a return of a fresh error")
	}
	return c, src(x.Cond) + " => refuse"
}

func boolChain(conds []string, ind string) string {
	var b strings.Builder
	for i, c := range conds {
		if i > 0 {
			b.WriteString(ind + "else ")
		}
		b.WriteString("if " + c + " then false\n")
	}
	if len(conds) > 0 {
		b.WriteString(ind + "else ")
	}
	b.WriteString("true")
	return b.String()
}

func (k *ktrans) emitGuardTexts(b *strings.Builder, texts []string) {
	fmt.Fprintf(b, "/-- the guards of `%s`, as written in the source, in order -/\ndef %s : List String := [\n", k.spec.fn, k.spec.guards)
	for i, t := range texts {
		sep := ","
		if i == len(texts)-1 {
			sep = ""
		}
		fmt.Fprintf(b, "  %s%s\n", leanStr(t), sep)
	}
	b.WriteString("]\n")
}

func (k *ktrans) docHead(b *strings.Builder, what string) {
	fmt.Fprintf(b, "/-- `%s` (%s), %s; model counterpart: `%s`. -/\n", k.spec.fn, k.spec.file, what, k.spec.model)
}

// ---- 1. regexify: a straight-line string construction ending in `return regexp.Compile(e)` ----

func transRegexify(k *ktrans, fd *ast.FuncDecl) string {
	ps := flatParams(fd)
	if fd.Recv != nil || len(ps) != 1 || ps[0].typ != "string" || ps[0].name == "_" || k.reserved(ps[0].name) || resultTypes(fd) != "*regexp.Regexp, error" {
		k.fail(nil, "%s is not func(string) (*regexp.Regexp, error)", k.spec.fn)
	}
	env := map[string]lexpr{ps[0].name: {"name", tString, true}}
	var texts []string
	result := ""
	for i, st := range fd.Body.List {
		if k.silentStmt(st) {
			continue
		}
		switch x := st.(type) {
		case *ast.AssignStmt:
			k.alias(x, env)
			if l := env[src(x.Lhs[0])]; l.t != tString {
				k.fail(st, "non-string local")
			}
			texts = append(texts, src(st))
		case *ast.IfStmt:
			// if cond { v = e }  ↦  v := if cond then e else v
			if _, ok := plainIf(st); !ok {
				k.fail(st, "if with init or else")
			}
			c := k.cond(x.Cond, env)
			inner := copyEnv(env)
			for _, bs := range x.Body.List {
				if k.silentStmt(bs) {
					continue
				}
				as, ok := bs.(*ast.AssignStmt)
				if !ok || as.Tok != token.ASSIGN {
					k.fail(bs, "conditional block may only assign outer string variables")
				}
				k.alias(as, inner)
			}
			var names []string
			for n := range inner {
				names = append(names, n)
			}
			sortStrings(names)
			for _, n := range names {
				if inner[n] != env[n] {
					if inner[n].t != tString || env[n].t != tString {
						k.fail(st, "conditional assignment of a non-string")
					}
					env[n] = lexpr{"if " + c.s + " then " + inner[n].s + " else " + env[n].s, tString, false}
				}
			}
			texts = append(texts, src(st))
		case *ast.ReturnStmt:
			if i != len(fd.Body.List)-1 || len(x.Results) != 1 {
				k.fail(st, "return other than the final `return regexp.Compile(e)`")
			}
			call, ok := x.Results[0].(*ast.CallExpr)
			if !ok || src(call.Fun) != "regexp.Compile" || len(call.Args) != 1 {
				k.fail(st, "return other than the final `return regexp.Compile(e)`")
			}
			r := k.expr(call.Args[0], env)
			if r.t != tString {
				k.fail(st, "regexp.Compile of a non-string")
			}
			result = r.s
			texts = append(texts, src(st))
		default:
			k.fail(st, "unsupported statement")
		}
	}
	if result == "" {
		k.fail(nil, "%s does not end in `return regexp.Compile(e)`", k.spec.fn)
	}
	var b strings.Builder
	k.docHead(&b, "the string handed to `regexp.Compile`, as a function of the parameter")
	fmt.Fprintf(&b, "def %s (name : String) : String :=\n  %s\n\n", k.spec.name, result)
	k.emitGuardTexts(&b, texts)
	return b.String()
}

func sortStrings(a []string) {
	for i := 1; i < len(a); i++ {
		for j := i; j > 0 && a[j] < a[j-1]; j-- {
			a[j], a[j-1] = a[j-1], a[j]
		}
	}
}

// ---- 2. Check: guard prefix, then the two nested loops ----
//
//	guards on credentials == nil, credentials.Client, …                          ↦ checkGuardsGen
//	W, A, err := e2wallet.WalletAndAccountNames(account); if err != nil { return false }
//	                                                                             ↦ inputs pathOk / wallet
//	P, E := s.access[credentials.Client]                                         ↦ input known (= E)
//	for _, p := range P { if p.wallet.MatchString(W) && p.account.MatchString(A) {
//	    for i := range p.operations { guards ending in return true/false, break or continue } } }
//	return false                                                                 ↦ checkLoopGen / checkOpsGen
//
// The generated loop takes, per path, (did both regexes match?, operations): no regex engine in generated code.

var checkGuardInputs = []string{"credsNil", "client", "pathOk", "wallet", "known"}

func mentions(leanExpr string, names []string) bool {
	isId := func(c byte) bool {
		return c == '_' || c == '\'' || (c >= '0' && c <= '9') || (c >= 'a' && c <= 'z') || (c >= 'A' && c <= 'Z') || c >= 0x80
	}
	inStr := false
	for i := 0; i < len(leanExpr); i++ {
		c := leanExpr[i]
		if inStr {
			if c == '\\' {
				i++
			} else if c == '"' {
				inStr = false
			}
			continue
		}
		if c == '"' {
			inStr = true
			continue
		}
		if isId(c) && (i == 0 || !(isId(leanExpr[i-1]) || leanExpr[i-1] == '.')) {
			j := i
			for j < len(leanExpr) && isId(leanExpr[j]) {
				j++
			}
			for _, n := range names {
				if leanExpr[i:j] == n {
					return true
				}
			}
			i = j - 1
		}
	}
	return false
}

func boolLit(e ast.Expr) (string, bool) {
	if id, ok := e.(*ast.Ident); ok && (id.Name == "true" || id.Name == "false") {
		return id.Name, true
	}
	return "", false
}

func transCheck(k *ktrans, fd *ast.FuncDecl) string {
	ps := flatParams(fd)
	if k.recv == "" || len(ps) != 4 || ps[1].typ != "*checker.Credentials" || ps[2].typ != "string" || ps[3].typ != "string" || resultTypes(fd) != "bool" {
		k.fail(nil, "%s is not func (s) (ctx, *checker.Credentials, string, string) bool", k.spec.fn)
	}
	cred, account, operation := ps[1].name, ps[2].name, ps[3].name
	for _, n := range []string{cred, account, operation} {
		if n == "_" || k.reserved(n) {
			k.fail(nil, "unusable parameter name %q", n)
		}
	}
	if cred == account || cred == operation || account == operation {
		k.fail(nil, "duplicate parameter names")
	}
	k.spec.nilParams = []kparam{{cred, "credsNil", "Bool", tBool}}
	k.spec.params = []kparam{{cred + ".Client", "client", "String", tString}}
	k.roots[cred], k.roots[account] = true, true
	env := map[string]lexpr{operation: {"op", tString, true}}

	type guard struct{ cond, res string }
	var guards []guard
	var texts []string
	wVar, aVar, pathsVar := "", "", ""
	list := fd.Body.List
	var loop *ast.RangeStmt
	i := 0
	for ; i < len(list) && loop == nil; i++ {
		st := list[i]
		if k.silentStmt(st) {
			continue
		}
		switch x := st.(type) {
		case *ast.AssignStmt:
			// W, A, err := e2wallet.WalletAndAccountNames(account)   +   if err != nil { …; return false }
			if call, ok := x.Rhs[0].(*ast.CallExpr); ok && len(x.Rhs) == 1 && src(call.Fun) == "e2wallet.WalletAndAccountNames" {
				if x.Tok != token.DEFINE || len(x.Lhs) != 3 || len(call.Args) != 1 || src(call.Args[0]) != account || wVar != "" || src(x.Lhs[2]) != "err" {
					k.fail(st, "unsupported form of the account path split")
				}
				wi, okw := x.Lhs[0].(*ast.Ident)
				ai, oka := x.Lhs[1].(*ast.Ident)
				if !okw || !oka || wi.Name == ai.Name || i+1 >= len(list) {
					k.fail(st, "unsupported form of the account path split")
				}
				w, a := wi.Name, ai.Name
				for _, n := range []string{w, a} {
					if _, used := env[n]; used || n == "_" || k.reserved(n) {
						k.fail(st, "account path split rebinds a local or an input")
					}
				}
				chk, ok := plainIf(list[i+1])
				if !ok || !isErrNotNil(chk.Cond) {
					k.fail(list[i+1], "the error of the account path split is not checked immediately")
				}
				res, ok := k.boolReturn(k.silentTail(chk.Body))
				if !ok {
					k.fail(chk, "error arm does not end in return true/false")
				}
				wVar, aVar = w, a
				env[w] = lexpr{"wallet", tString, true}
				k.roots[a] = true // the account name may only be handed to MatchString
				guards = append(guards, guard{"pathOk = false", res})
				texts = append(texts, w+", "+a+", err := e2wallet.WalletAndAccountNames("+account+"); err != nil => return "+res)
				i++
				continue
			}
			// P, E := s.access[credentials.Client]
			if ix, ok := x.Rhs[0].(*ast.IndexExpr); ok && len(x.Rhs) == 1 && len(x.Lhs) == 2 {
				p, okp := x.Lhs[0].(*ast.Ident)
				e, oke := x.Lhs[1].(*ast.Ident)
				if x.Tok != token.DEFINE || src(ix.X) != k.recv+".access" || src(ix.Index) != cred+".Client" || !okp || !oke || pathsVar != "" ||
					p.Name == "_" || e.Name == "_" || p.Name == e.Name || k.reserved(p.Name) || k.reserved(e.Name) {
					k.fail(st, "unsupported form of the access lookup")
				}
				if _, used := env[p.Name]; used {
					k.fail(st, "access lookup rebinds a local")
				}
				if _, used := env[e.Name]; used {
					k.fail(st, "access lookup rebinds a local")
				}
				pathsVar = p.Name
				k.roots[p.Name] = true
				env[e.Name] = lexpr{"known", tBool, true}
				texts = append(texts, src(st)+"  [map lookup: "+e.Name+" ↦ known]")
				continue
			}
			k.alias(x, env)
			texts = append(texts, src(st))
		case *ast.IfStmt:
			g, ok := plainIf(st)
			if !ok {
				k.fail(st, "if with init or else")
			}
			c := k.cond(g.Cond, env)
			res, ok := k.boolReturn(k.silentTail(g.Body))
			if !ok {
				k.fail(st, "guard block does not end in return true/false")
			}
			guards = append(guards, guard{c.s, res})
			texts = append(texts, src(g.Cond)+" => return "+res)
		case *ast.RangeStmt:
			loop = x
		default:
			k.fail(st, "unsupported statement")
		}
	}
	if loop == nil || wVar == "" || pathsVar == "" {
		k.fail(nil, "%s: path split, access lookup or the loop over the paths is missing", k.spec.fn)
	}
	// after the loop: silent statements and the final return
	final := ""
	for ; i < len(list); i++ {
		if res, ok := k.boolReturn(list[i]); ok && i == len(list)-1 {
			final = res
			break
		}
		if !k.silentStmt(list[i]) {
			k.fail(list[i], "unsupported statement after the loop")
		}
	}
	if final == "" {
		k.fail(nil, "%s does not end in return true/false", k.spec.fn)
	}

	// ---- the outer loop ----
	bad := func(n ast.Node, why string) {
		k.fail(n, "loop over the paths is not of the recognised shape (%s)", why)
	}
	key, _ := loop.Key.(*ast.Ident)
	val, _ := loop.Value.(*ast.Ident)
	if loop.Tok != token.DEFINE || key == nil || key.Name != "_" || val == nil || src(loop.X) != pathsVar {
		bad(loop, "for _, p := range <paths>")
	}
	if env[wVar].s != "wallet" {
		bad(loop, "wallet name was reassigned")
	}
	pv := val.Name
	if _, used := env[pv]; used || pv == "_" || k.reserved(pv) {
		bad(loop, "loop variable shadows an input")
	}
	var matchIf *ast.IfStmt
	for _, st := range loop.Body.List {
		if k.silentStmt(st) {
			continue
		}
		x, ok := plainIf(st)
		if !ok || matchIf != nil {
			bad(st, "body is not a single if")
		}
		matchIf = x
	}
	if matchIf == nil {
		bad(loop, "empty body")
	}
	and, ok := matchIf.Cond.(*ast.BinaryExpr)
	wm := pv + ".wallet.MatchString(" + wVar + ")"
	am := pv + ".account.MatchString(" + aVar + ")"
	if !ok || and.Op != token.LAND || !((src(and.X) == wm && src(and.Y) == am) || (src(and.X) == am && src(and.Y) == wm)) {
		bad(matchIf.Cond, "condition is not "+wm+" && "+am)
	}
	var inner *ast.RangeStmt
	for _, st := range matchIf.Body.List {
		if k.silentStmt(st) {
			continue
		}
		x, ok := st.(*ast.RangeStmt)
		if !ok || inner != nil {
			bad(st, "match block is not a single loop over the operations")
		}
		inner = x
	}
	if inner == nil {
		bad(matchIf, "empty match block")
	}
	// ---- the inner loop ----
	ienv := map[string]lexpr{}
	var names []string
	for n := range env {
		names = append(names, n)
	}
	sortStrings(names)
	for _, n := range names {
		if !mentions(env[n].s, checkGuardInputs) {
			ienv[n] = env[n]
		}
	}
	k.spec.params, k.spec.nilParams = nil, nil // the loop body may not read the guard inputs
	ikey, _ := inner.Key.(*ast.Ident)
	if inner.Tok != token.DEFINE || ikey == nil || src(inner.X) != pv+".operations" {
		bad(inner, "for i := range p.operations")
	}
	if inner.Value == nil {
		if _, used := ienv[ikey.Name]; used || ikey.Name == "_" || k.reserved(ikey.Name) || ikey.Name == pv {
			bad(inner, "index variable")
		}
		k.elemSrc, k.elemIdx = pv+".operations["+ikey.Name+"]", ikey.Name
		k.roots[ikey.Name] = true
	} else {
		ival, _ := inner.Value.(*ast.Ident)
		if ival == nil || ikey.Name != "_" || ival.Name == "_" || k.reserved(ival.Name) || ival.Name == pv {
			bad(inner, "for _, o := range p.operations")
		}
		ienv[ival.Name] = lexpr{"o", tString, true}
		k.roots[ival.Name] = true
	}
	k.roots[pv] = true
	type arm struct{ cond, res string }
	var arms []arm
	opsTexts := []string{}
	terminal := func(st ast.Stmt) (string, string, bool) {
		if res, ok := k.boolReturn(st); ok {
			return "some " + res, "return " + res, true
		}
		if br, ok := st.(*ast.BranchStmt); ok && br.Label == nil {
			switch br.Tok {
			case token.BREAK:
				return "none", "break", true
			case token.CONTINUE:
				return "checkOpsGen op os", "continue", true
			}
		}
		return "", "", false
	}
	closed := false
	for _, st := range inner.Body.List {
		if closed {
			bad(st, "statement after an unconditional exit")
		}
		if k.silentStmt(st) {
			continue
		}
		if res, text, ok := terminal(st); ok {
			arms = append(arms, arm{"", res})
			opsTexts = append(opsTexts, "  "+text)
			closed = true
			continue
		}
		g, ok := plainIf(st)
		if !ok {
			bad(st, "inner loop statement is not a guard")
		}
		c := k.cond(g.Cond, ienv)
		res, text, ok := terminal(k.silentTail(g.Body))
		if !ok {
			bad(g, "inner guard does not end in return true/false, break or continue")
		}
		arms = append(arms, arm{c.s, res})
		opsTexts = append(opsTexts, "  "+src(g.Cond)+" => "+text)
	}
	if !closed {
		arms = append(arms, arm{"", "checkOpsGen op os"})
	}

	var b strings.Builder
	k.docHead(&b, "inner loop over one matching path's operations: `some b` = `return b`, `none` = the loop ends without a verdict")
	b.WriteString("def checkOpsGen (op : String) : List String → Option Bool\n  | [] => none\n  | o :: os =>\n    ")
	for _, a := range arms {
		if a.cond == "" {
			b.WriteString(a.res + "\n")
			break
		}
		b.WriteString("if " + a.cond + " then " + a.res + "\n    else ")
	}
	b.WriteString("\n")
	k.docHead(&b, "outer loop; each path is given as (did the wallet and the account regex both match?, its operations)")
	fmt.Fprintf(&b, "def %s (op : String) : List (Bool × List String) → Bool\n  | [] => %s\n  | p :: ps =>\n    if p.1 then\n      match checkOpsGen op p.2 with\n      | some b => b\n      | none => %s op ps\n    else %s op ps\n\n",
		k.spec.name, final, k.spec.name, k.spec.name)
	k.docHead(&b, "the guards before the loops: `some b` = `return b`, `none` = go on to the loops.\n    `credsNil`: credentials == nil; `client`: credentials.Client; `pathOk`: WalletAndAccountNames returned no error;\n    `wallet`: the wallet name it returned; `known`: the client has an entry in the access map")
	b.WriteString("def checkGuardsGen (credsNil : Bool) (client : String) (pathOk : Bool) (wallet : String) (known : Bool) : Option Bool :=\n  ")
	for _, g := range guards {
		b.WriteString("if " + g.cond + " then some " + g.res + "\n  else ")
	}
	b.WriteString("none\n\n")
	texts = append(texts, "for _, "+pv+" := range "+pathsVar+" { if "+src(matchIf.Cond)+" { for … range "+pv+".operations {")
	texts = append(texts, opsTexts...)
	texts = append(texts, "} } }", "return "+final)
	k.emitGuardTexts(&b, texts)
	return b.String()
}

// boolReturn: `return true` / `return false`
func (k *ktrans) boolReturn(st ast.Stmt) (string, bool) {
	r, ok := st.(*ast.ReturnStmt)
	if !ok || len(r.Results) != 1 {
		return "", false
	}
	return boolLit(r.Results[0])
}

// ---- 3. OnGenerate: the refusal guards on the two uint32 parameters at the top of the function ----

func transOnGenerate(k *ktrans, fd *ast.FuncDecl) string {
	env := map[string]lexpr{}
	for _, p := range flatParams(fd) {
		lean := map[string]string{"numParticipants": "n", "signingThreshold": "t"}[p.name]
		if lean != "" {
			if p.typ != "uint32" {
				k.fail(nil, "parameter %s is not a uint32", p.name)
			}
			env[p.name] = lexpr{lean, tNat, true}
			k.u32[lean] = true
			k.roots[p.name] = true
		}
	}
	if len(env) != 2 {
		k.fail(nil, "%s has no parameters numParticipants and signingThreshold", k.spec.fn)
	}
	nres := len(strings.Split(resultTypes(fd), ", "))
	var conds, texts []string
	stopped := false
	for _, st := range fd.Body.List {
		if k.silentStmt(st) {
			continue
		}
		if _, isIf := st.(*ast.IfStmt); !isIf {
			// the parameter checks end here: the first statement that is neither a guard nor logging
			texts = append(texts, "[translation stops at: "+src(st)+"]")
			stopped = true
			break
		}
		c, text := k.refusalGuard(st, env, nres)
		conds = append(conds, c.s)
		texts = append(texts, text)
	}
	if !stopped {
		k.fail(nil, "%s consists of guards only", k.spec.fn)
	}
	var b strings.Builder
	k.docHead(&b, "the parameter checks at the top (uint32 arithmetic), `true` = none of them refuses")
	fmt.Fprintf(&b, "def %s (n : Nat) (t : Nat) : Bool :=\n  %s\n\n", k.spec.name, boolChain(conds, "  "))
	k.emitGuardTexts(&b, texts)
	return b.String()
}

// ---- 4. OnContribute: the refusal guards between the lookup of the generation and the store ----
//
//	G, err := s.getGeneration(ctx, account); if err != nil { return …, err }
//	f := false; for _, p := range G.participants { if p.ID == senderID { f = true; break } }     ↦ input listed
//	guards over f, len(vVec) (↦ vlen), G.threshold (↦ threshold), verifyContribution(G.id, secret, vVec) (↦ valid)
//	G.sharedSecrets[senderID] = secret; G.sharedVVecs[senderID] = vVec; return …, nil

func transOnContribute(k *ktrans, fd *ast.FuncDecl) string {
	ps := flatParams(fd)
	if k.recv == "" || len(ps) != 5 || ps[1].typ != "uint64" || ps[2].typ != "string" || ps[3].typ != "bls.SecretKey" || ps[4].typ != "[]bls.PublicKey" ||
		resultTypes(fd) != "bls.SecretKey, []bls.PublicKey, error" {
		k.fail(nil, "%s is not func (s) (ctx, uint64, string, bls.SecretKey, []bls.PublicKey) (bls.SecretKey, []bls.PublicKey, error)", k.spec.fn)
	}
	ctx, sender, account, secret, vvec := ps[0].name, ps[1].name, ps[2].name, ps[3].name, ps[4].name
	seen := map[string]bool{}
	for _, n := range []string{ctx, sender, account, secret, vvec} {
		if n == "_" || k.reserved(n) || seen[n] {
			k.fail(nil, "unusable parameter name %q", n)
		}
		seen[n] = true
		if n != ctx { // the tracing span rebinds ctx
			k.roots[n] = true
		}
	}
	k.lenOf[vvec] = "vlen"
	env := map[string]lexpr{}
	list := fd.Body.List
	var texts []string
	// phase 0: up to the lookup of the generation
	gen := ""
	i := 0
	for ; i < len(list) && gen == ""; i++ {
		st := list[i]
		if k.silentStmt(st) || k.mutexStmt(st) {
			continue
		}
		as, ok := st.(*ast.AssignStmt)
		if !ok || as.Tok != token.DEFINE || len(as.Lhs) != 2 || len(as.Rhs) != 1 || src(as.Lhs[1]) != "err" ||
			src(as.Rhs[0]) != k.recv+".getGeneration("+ctx+", "+account+")" {
			k.fail(st, "unsupported statement before the lookup of the generation")
		}
		g, ok := as.Lhs[0].(*ast.Ident)
		if !ok || g.Name == "_" || k.reserved(g.Name) || k.silent[g.Name] || i+1 >= len(list) {
			k.fail(st, "unsupported form of the lookup of the generation")
		}
		chk, ok := plainIf(list[i+1])
		if !ok || !isErrNotNil(chk.Cond) {
			k.fail(list[i+1], "the error of the lookup is not checked immediately")
		}
		r, ok := k.silentTail(chk.Body).(*ast.ReturnStmt)
		if !ok || len(r.Results) != 3 || src(r.Results[2]) != "err" {
			k.fail(chk, "error arm of the lookup does not return the error")
		}
		gen = g.Name
		i++
	}
	if gen == "" {
		k.fail(nil, "%s does not look up the generation", k.spec.fn)
	}
	k.roots[gen] = true
	k.spec.params = []kparam{{gen + ".threshold", "threshold", "Nat", tNat}}
	k.u32["threshold"] = true
	k.opaque["verifyContribution("+gen+".id, "+secret+", "+vvec+")"] = "valid"
	k.opaqueI = []string{gen, secret, vvec}
	// phase 1: the acceptance conditions
	var conds []string
	declared := map[string]bool{}
	for ; i < len(list); i++ {
		st := list[i]
		if k.silentStmt(st) {
			continue
		}
		done := false
		switch x := st.(type) {
		case *ast.AssignStmt:
			if _, plain := x.Lhs[0].(*ast.Ident); !plain {
				done = true // the store
				break
			}
			k.alias(x, env)
			declared[src(x.Lhs[0])] = true
		case *ast.RangeStmt:
			texts = append(texts, k.membershipID(x, env, declared, gen, sender))
		case *ast.IfStmt:
			c, text := k.refusalGuard(st, env, 3)
			conds = append(conds, c.s)
			texts = append(texts, text)
		default:
			done = true
		}
		if done {
			break
		}
	}
	// phase 2: the contribution is stored and answered
	stores := 0
	for ; i < len(list); i++ {
		st := list[i]
		if k.silentStmt(st) {
			continue
		}
		if r, ok := st.(*ast.ReturnStmt); ok && i == len(list)-1 && len(r.Results) == 3 && src(r.Results[2]) == "nil" && stores > 0 {
			texts = append(texts, "accept: the contribution is stored ("+strconv.Itoa(stores)+" assignments), return …, nil")
			stores = -1
			break
		}
		as, ok := st.(*ast.AssignStmt)
		if !ok || as.Tok != token.ASSIGN || len(as.Lhs) != 1 || len(as.Rhs) != 1 {
			k.fail(st, "unsupported statement after the acceptance conditions")
		}
		// G.<map>[senderID] = secret | vVec
		ix, ok := as.Lhs[0].(*ast.IndexExpr)
		if !ok {
			k.fail(st, "unsupported statement after the acceptance conditions")
		}
		sel, ok := ix.X.(*ast.SelectorExpr)
		if !ok || src(sel.X) != gen || src(ix.Index) != sender || (src(as.Rhs[0]) != secret && src(as.Rhs[0]) != vvec) {
			k.fail(st, "unsupported statement after the acceptance conditions")
		}
		stores++
	}
	if stores != -1 {
		k.fail(nil, "%s does not end in storing the contribution and returning a nil error", k.spec.fn)
	}
	var b strings.Builder
	k.docHead(&b, "the conditions between the lookup of the generation and the storing of the contribution, `true` = stored.\n    `valid`: verifyContribution(generation.id, secret, vVec); `vlen`: len(vVec); `threshold`: generation.threshold;\n    `listed`: the sender id is the ID of one of generation.participants")
	fmt.Fprintf(&b, "def %s (valid : Bool) (vlen : Nat) (threshold : Nat) (listed : Bool) : Bool :=\n  %s\n\n", k.spec.name, boolChain(conds, "  "))
	k.emitGuardTexts(&b, texts)
	return b.String()
}

// mutexStmt: s.xMu.Lock() / defer s.xMu.Unlock()
func (k *ktrans) mutexStmt(st ast.Stmt) bool {
	var call *ast.CallExpr
	switch x := st.(type) {
	case *ast.ExprStmt:
		call, _ = x.X.(*ast.CallExpr)
	case *ast.DeferStmt:
		call = x.Call
	}
	if call == nil || len(call.Args) != 0 {
		return false
	}
	sel, ok := call.Fun.(*ast.SelectorExpr)
	if !ok || (sel.Sel.Name != "Lock" && sel.Sel.Name != "Unlock" && sel.Sel.Name != "RLock" && sel.Sel.Name != "RUnlock") {
		return false
	}
	mu, ok := sel.X.(*ast.SelectorExpr)
	return ok && src(mu.X) == k.recv && k.recv != "" && strings.HasSuffix(mu.Sel.Name, "Mu")
}

// membershipID recognises
//
//	f := false
//	for _, p := range G.participants { if p.ID == senderID { f = true; break } }    (or the index form)
//
// and rebinds f to the opaque input `listed`.
func (k *ktrans) membershipID(r *ast.RangeStmt, env map[string]lexpr, declared map[string]bool, gen, sender string) string {
	bad := func() { k.fail(r, "loop is not the membership test of the sender id in the generation's participants") }
	listSrc := gen + ".participants"
	key, _ := r.Key.(*ast.Ident)
	if r.Tok != token.DEFINE || key == nil || src(r.X) != listSrc {
		bad()
	}
	elem := ""
	if r.Value == nil {
		if key.Name == "_" || k.reserved(key.Name) {
			bad()
		}
		elem = listSrc + "[" + key.Name + "].ID"
	} else {
		val, _ := r.Value.(*ast.Ident)
		if val == nil || key.Name != "_" || val.Name == "_" || k.reserved(val.Name) {
			bad()
		}
		if _, used := env[val.Name]; used {
			bad()
		}
		elem = val.Name + ".ID"
	}
	var ifs *ast.IfStmt
	for _, st := range r.Body.List {
		if k.silentStmt(st) {
			continue
		}
		x, ok := plainIf(st)
		if !ok || ifs != nil {
			bad()
		}
		ifs = x
	}
	if ifs == nil {
		bad()
	}
	cmp, ok := ifs.Cond.(*ast.BinaryExpr)
	if !ok || cmp.Op != token.EQL || !((src(cmp.X) == elem && src(cmp.Y) == sender) || (src(cmp.X) == sender && src(cmp.Y) == elem)) {
		bad()
	}
	var body []ast.Stmt
	for _, st := range ifs.Body.List {
		if !k.silentStmt(st) {
			body = append(body, st)
		}
	}
	if len(body) == 2 {
		if br, ok := body[1].(*ast.BranchStmt); !ok || br.Tok != token.BREAK || br.Label != nil {
			bad()
		}
		body = body[:1]
	}
	if len(body) != 1 {
		bad()
	}
	set, ok := body[0].(*ast.AssignStmt)
	if !ok || set.Tok != token.ASSIGN || len(set.Lhs) != 1 || len(set.Rhs) != 1 || src(set.Rhs[0]) != "true" {
		bad()
	}
	flag, ok := set.Lhs[0].(*ast.Ident)
	if !ok || !declared[flag.Name] || env[flag.Name].s != "False" {
		k.fail(r, "membership flag is not a local initialised to false")
	}
	env[flag.Name] = lexpr{"listed", tBool, true}
	return flag.Name + " := (" + sender + " ∈ IDs of " + listSrc + ")  [for-range membership loop]"
}

// =============================================================================================
// P9: five more kernels (calculateExtentSize, senderID, OnCommit, getGeneration, Suitable).  As in P7 each has its
// own small statement walker on top of the shared expression translator.

// rootIdent: the identifier a selector / index / call chain starts from ("" if there is none).
func rootIdent(e ast.Expr) string {
	for {
		switch x := e.(type) {
		case *ast.Ident:
			return x.Name
		case *ast.SelectorExpr:
			e = x.X
		case *ast.IndexExpr:
			e = x.X
		case *ast.CallExpr:
			e = x.Fun
		case *ast.ParenExpr:
			e = x.X
		default:
			return ""
		}
	}
}

// unshadowed: the input expression e is still what the kernel table says (its root is not a local alias).
func (k *ktrans) unshadowed(e ast.Expr, env map[string]lexpr) {
	if r := rootIdent(e); r == "" {
		k.fail(e, "input expression without a root identifier")
	} else if _, shadow := env[r]; shadow {
		k.fail(e, "input shadowed by a local")
	}
}

// goIntArith: + - * / % on Go `int` values.  Results of + - * / are reduced to the int64 range (wrapI64); a division
// by anything but a non-zero literal records its divisor in k.divChecks (zero ⇒ run-time panic), which the statement
// walker turns into an explicit `none` result.  ok = false: neither operand is a Go int (not ours).
func (k *ktrans) goIntArith(x *ast.BinaryExpr, env map[string]lexpr) (lexpr, bool) {
	saved := len(k.divChecks)
	a, b := k.expr(x.X, env), k.expr(x.Y, env)
	if a.t != tGoInt && b.t != tGoInt {
		k.divChecks = k.divChecks[:saved]
		return lexpr{}, false
	}
	a, b = k.coerce(x, a, tGoInt), k.coerce(x, b, tGoInt)
	switch x.Op {
	case token.ADD:
		return lexpr{"wrapI64 (" + a.s + " + " + b.s + ")", tGoInt, false}, true
	case token.SUB:
		return lexpr{"wrapI64 (" + a.s + " - " + paren(b) + ")", tGoInt, false}, true
	case token.MUL:
		return lexpr{"wrapI64 (" + paren(a) + " * " + paren(b) + ")", tGoInt, false}, true
	}
	if lit, isLit := x.Y.(*ast.BasicLit); !isLit || lit.Kind != token.INT || b.s == "0" {
		if k.logical > 0 {
			k.fail(x, "division by a non-constant under && / || (evaluated conditionally)")
		}
		k.divChecks = append(k.divChecks, b.s)
	}
	if x.Op == token.QUO {
		return lexpr{"wrapI64 (Int.tdiv " + paren(a) + " " + paren(b) + ")", tGoInt, false}, true
	}
	return lexpr{"Int.tmod " + paren(a) + " " + paren(b), tGoInt, false}, true
}

var leanReservedWords = map[string]bool{
	"at": true, "meta": true, "end": true, "from": true, "have": true, "show": true, "fun": true, "let": true, "in": true,
	"do": true, "then": true, "else": true, "if": true, "match": true, "with": true, "where": true, "open": true,
	"section": true, "namespace": true, "def": true, "theorem": true, "example": true, "instance": true,
	"structure": true, "class": true, "inductive": true, "by": true, "using": true, "deriving": true, "import": true,
	"export": true, "private": true, "protected": true, "mutual": true, "universe": true, "variable": true,
	"macro": true, "syntax": true, "notation": true, "infix": true, "prefix": true, "postfix": true, "return": true,
	"for": true, "unless": true, "try": true, "catch": true, "finally": true, "nomatch": true, "nofun": true,
	"suffices": true, "calc": true, "local": true, "scoped": true, "partial": true, "unsafe": true, "noncomputable": true,
	"abbrev": true, "axiom": true, "opaque": true, "extends": true, "mut": true, "true": true, "false": true,
	"some": true, "none": true, "wrapI64": true, "decide": true, "public": true, "module": true, "set_option": true,
	"attribute": true, "omit": true, "include": true, "elab": true, "initialize": true, "builtin_initialize": true,
}

// leanLocal: a Go local's name used as a Lean `let` name (letters and digits only, not a Lean word, not a parameter).
func (k *ktrans) leanLocal(n ast.Node, name string, params ...string) string {
	ok := name != ""
	for i, c := range name {
		switch {
		case c >= 'a' && c <= 'z', c >= 'A' && c <= 'Z':
		case c >= '0' && c <= '9' && i > 0:
		default:
			ok = false
		}
	}
	if !ok || leanReservedWords[name] {
		k.fail(n, "local name %q cannot be used as a Lean identifier", name)
	}
	for _, p := range params {
		if name == p {
			k.fail(n, "local name %q collides with a parameter of the generated definition", name)
		}
	}
	return name
}

// ---- 1. calculateExtentSize: straight-line Go `int` arithmetic ----
//
//	x := e | x = e | x++ | x-- | x += e | x -= e          ↦ let x : Int := …
//	if c { return e }                                      ↦ if c then some e else
//	if c { x = e }  (one assignment to an outer local)     ↦ let x : Int := if c then … else x
//	return e  (last statement)                             ↦ some e
//
// The result is an Option: `none` = the Go code would panic (division by zero).  runtime.GOMAXPROCS(0) is the
// parameter `procs`.

func (k *ktrans) flushDivChecks(n ast.Node, lines *[]string, conditional bool) {
	if conditional && len(k.divChecks) > 0 {
		k.fail(n, "division by a non-constant inside a conditional block")
	}
	for _, d := range k.divChecks {
		*lines = append(*lines, "if "+d+" = 0 then none else  -- integer divide by zero: run-time panic")
	}
	k.divChecks = nil
}

// intUpdate: the local and its new value for `x := e`, `x = e`, `x += e`, `x -= e`, `x++`, `x--`.
func (k *ktrans) intUpdate(st ast.Stmt, env map[string]lexpr) (name string, val lexpr, define, ok bool) {
	one := &ast.BasicLit{Kind: token.INT, Value: "1"}
	var lhs, rhs ast.Expr
	var op token.Token
	switch x := st.(type) {
	case *ast.IncDecStmt:
		lhs, rhs, op = x.X, one, token.ADD
		if x.Tok == token.DEC {
			op = token.SUB
		}
	case *ast.AssignStmt:
		if len(x.Lhs) != 1 || len(x.Rhs) != 1 {
			k.fail(st, "unsupported assignment")
		}
		lhs, rhs = x.Lhs[0], x.Rhs[0]
		switch x.Tok {
		case token.DEFINE:
			define = true
		case token.ASSIGN:
		case token.ADD_ASSIGN:
			op = token.ADD
		case token.SUB_ASSIGN:
			op = token.SUB
		default:
			k.fail(st, "unsupported assignment operator")
		}
	default:
		return "", lexpr{}, false, false
	}
	id, isId := lhs.(*ast.Ident)
	if !isId || id.Name == "_" || k.reserved(id.Name) {
		k.fail(st, "assignment to other than a plain local")
	}
	if _, known := env[id.Name]; !define && !known {
		k.fail(st, "assignment to an unknown variable")
	}
	if op != 0 {
		// x op= e  is  x = x op (e)
		rhs = &ast.BinaryExpr{X: id, Op: op, Y: &ast.ParenExpr{X: rhs}}
	}
	val = k.expr(rhs, env)
	if val.t == tUntyped {
		val = k.coerce(st, val, tGoInt) // an untyped constant assigned to a new local has type int
	}
	if val.t != tGoInt {
		k.fail(st, "local of a type other than int")
	}
	return id.Name, val, define, true
}

func transExtentSize(k *ktrans, fd *ast.FuncDecl) string {
	ps := flatParams(fd)
	if fd.Recv != nil || len(ps) != 1 || ps[0].typ != "int" || ps[0].name == "_" || k.reserved(ps[0].name) || resultTypes(fd) != "int" {
		k.fail(nil, "%s is not func(int) int", k.spec.fn)
	}
	k.roots[ps[0].name] = true
	k.procs = "procs"
	env := map[string]lexpr{ps[0].name: {"items", tGoInt, true}}
	var lines, texts []string
	bind := func(st ast.Stmt, name string, v string) {
		lean := k.leanLocal(st, name, "items", "procs")
		lines = append(lines, "let "+lean+" : Int := "+v)
		env[name] = lexpr{lean, tGoInt, true}
	}
	closed := false
	for _, st := range fd.Body.List {
		if closed {
			k.fail(st, "statement after the final return")
		}
		if k.silentStmt(st) {
			continue
		}
		if name, val, _, ok := k.intUpdate(st, env); ok {
			k.flushDivChecks(st, &lines, false)
			bind(st, name, val.s)
			texts = append(texts, src(st))
			continue
		}
		switch x := st.(type) {
		case *ast.ReturnStmt:
			if len(x.Results) != 1 {
				k.fail(st, "return of other than one value")
			}
			v := k.coerce(st, k.expr(x.Results[0], env), tGoInt)
			k.flushDivChecks(st, &lines, false)
			lines = append(lines, "some "+paren(v))
			texts = append(texts, src(st))
			closed = true
		case *ast.IfStmt:
			if _, ok := plainIf(st); !ok {
				k.fail(st, "if with init or else")
			}
			c := k.cond(x.Cond, env)
			k.flushDivChecks(st, &lines, false) // the condition is evaluated whenever control gets here
			var body []ast.Stmt
			for _, bs := range x.Body.List {
				if !k.silentStmt(bs) {
					body = append(body, bs)
				}
			}
			if len(body) != 1 {
				k.fail(st, "conditional block is not a single return or a single assignment")
			}
			if r, isRet := body[0].(*ast.ReturnStmt); isRet {
				if len(r.Results) != 1 {
					k.fail(st, "return of other than one value")
				}
				v := k.coerce(st, k.expr(r.Results[0], env), tGoInt)
				k.flushDivChecks(st, &lines, true)
				lines = append(lines, "if "+c.s+" then some "+paren(v)+" else")
				texts = append(texts, src(x.Cond)+" => return "+src(r.Results[0]))
				continue
			}
			name, val, define, ok := k.intUpdate(body[0], env)
			if !ok || define {
				k.fail(st, "conditional block is not a single return or a single assignment to an outer local")
			}
			k.flushDivChecks(st, &lines, true)
			bind(st, name, "if "+c.s+" then "+val.s+" else "+env[name].s)
			texts = append(texts, src(x.Cond)+" => "+src(body[0]))
		default:
			k.fail(st, "unsupported statement")
		}
	}
	if !closed {
		k.fail(nil, "%s does not end in a return", k.spec.fn)
	}
	var b strings.Builder
	k.docHead(&b, "Go `int` arithmetic statement by statement (`/` = Int.tdiv, `%` = Int.tmod, results kept in the int64 range by wrapI64).\n    `items`: the parameter; `procs`: runtime.GOMAXPROCS(0) (the runtime guarantees >= 1); `none` = integer divide by zero (panic)")
	fmt.Fprintf(&b, "def %s (items procs : Int) : Option Int :=\n  %s\n\n", k.spec.name, strings.Join(lines, "\n  "))
	k.emitGuardTexts(&b, texts)
	return b.String()
}

// ---- 2. senderID: the name → id resolution of the gRPC receiver ----
//
//	var V uint64
//	if C, OK := ctx.Value(&interceptors.ClientName{}).(string); OK {
//	    for ID, P := range h.peers.All() { if <cond over P.Name, C, ID> { V = <e>; [break] } }
//	}
//	return V
//
// h.peers.All() is a map: the generated loop takes its entries as a list in iteration order.

const clientNameKey = "&interceptors.ClientName{}"

func transSenderID(k *ktrans, fd *ast.FuncDecl) string {
	ps := flatParams(fd)
	if k.recv == "" || len(ps) != 1 || ps[0].typ != "context.Context" || ps[0].name == "_" || k.reserved(ps[0].name) || resultTypes(fd) != "uint64" {
		k.fail(nil, "%s is not func (h) (context.Context) uint64", k.spec.fn)
	}
	ctx := ps[0].name
	k.roots[ctx] = true
	var stmts []ast.Stmt
	for _, st := range fd.Body.List {
		if !k.silentStmt(st) {
			stmts = append(stmts, st)
		}
	}
	if len(stmts) != 3 {
		k.fail(nil, "%s is not `var v uint64; if client, ok := ctx.Value(…).(string); ok { loop }; return v`", k.spec.fn)
	}
	// var V uint64
	result := ""
	if d, ok := stmts[0].(*ast.DeclStmt); ok {
		if g, ok := d.Decl.(*ast.GenDecl); ok && g.Tok == token.VAR && len(g.Specs) == 1 {
			if vs, ok := g.Specs[0].(*ast.ValueSpec); ok && len(vs.Names) == 1 && len(vs.Values) == 0 && vs.Type != nil && src(vs.Type) == "uint64" {
				result = vs.Names[0].Name
			}
		}
	}
	if result == "" || result == "_" || k.reserved(result) {
		k.fail(stmts[0], "first statement is not `var v uint64`")
	}
	if r, ok := stmts[2].(*ast.ReturnStmt); !ok || len(r.Results) != 1 || src(r.Results[0]) != result {
		k.fail(stmts[2], "last statement is not `return %s`", result)
	}
	// if C, OK := ctx.Value(key).(string); OK { … }
	ifs, ok := stmts[1].(*ast.IfStmt)
	if !ok || ifs.Init == nil || ifs.Else != nil {
		k.fail(stmts[1], "second statement is not the type assertion of the client name")
	}
	as, ok := ifs.Init.(*ast.AssignStmt)
	if !ok || as.Tok != token.DEFINE || len(as.Lhs) != 2 || len(as.Rhs) != 1 {
		k.fail(ifs, "unsupported form of the client-name lookup")
	}
	ta, ok := as.Rhs[0].(*ast.TypeAssertExpr)
	if !ok || ta.Type == nil || src(ta.Type) != "string" || src(ta.X) != ctx+".Value("+clientNameKey+")" {
		k.fail(ifs, "client name is not "+ctx+".Value("+clientNameKey+").(string)")
	}
	cl, okc := as.Lhs[0].(*ast.Ident)
	okv, oko := as.Lhs[1].(*ast.Ident)
	if !okc || !oko || cl.Name == "_" || okv.Name == "_" || cl.Name == okv.Name || k.reserved(cl.Name) || k.reserved(okv.Name) ||
		cl.Name == result || okv.Name == result || src(ifs.Cond) != okv.Name {
		k.fail(ifs, "unsupported form of the client-name lookup")
	}
	// the loop
	var loop *ast.RangeStmt
	for _, st := range ifs.Body.List {
		if k.silentStmt(st) {
			continue
		}
		r, ok := st.(*ast.RangeStmt)
		if !ok || loop != nil {
			k.fail(st, "the block of the client-name lookup is not a single loop")
		}
		loop = r
	}
	if loop == nil {
		k.fail(ifs, "the block of the client-name lookup is not a single loop")
	}
	key, _ := loop.Key.(*ast.Ident)
	val, _ := loop.Value.(*ast.Ident)
	if loop.Tok != token.DEFINE || key == nil || val == nil || val.Name == "_" || src(loop.X) != k.recv+".peers.All()" {
		k.fail(loop, "loop is not `for id, peer := range "+k.recv+".peers.All()`")
	}
	for _, n := range []string{key.Name, val.Name} {
		if n != "_" && (k.reserved(n) || n == cl.Name || n == okv.Name || n == result) {
			k.fail(loop, "loop variable shadows another name")
		}
	}
	if key.Name == val.Name {
		k.fail(loop, "loop variables coincide")
	}
	env := map[string]lexpr{cl.Name: {"caller", tString, true}}
	if key.Name != "_" {
		env[key.Name] = lexpr{"p.1", tNat, true}
	}
	k.roots[val.Name] = true
	k.spec.params = []kparam{{val.Name + ".Name", "p.2", "String", tString}}
	var guard *ast.IfStmt
	for _, st := range loop.Body.List {
		if k.silentStmt(st) {
			continue
		}
		g, ok := plainIf(st)
		if !ok || guard != nil {
			k.fail(st, "loop body is not a single if")
		}
		guard = g
	}
	if guard == nil {
		k.fail(loop, "loop body is not a single if")
	}
	c := k.cond(guard.Cond, env)
	var body []ast.Stmt
	for _, st := range guard.Body.List {
		if !k.silentStmt(st) {
			body = append(body, st)
		}
	}
	brk := false
	if len(body) == 2 {
		if br, ok := body[1].(*ast.BranchStmt); !ok || br.Tok != token.BREAK || br.Label != nil {
			k.fail(body[1], "unsupported statement after the assignment of the result")
		}
		brk = true
		body = body[:1]
	}
	if len(body) != 1 {
		k.fail(guard, "block is not `%s = e` optionally followed by break", result)
	}
	set, ok := body[0].(*ast.AssignStmt)
	if !ok || set.Tok != token.ASSIGN || len(set.Lhs) != 1 || len(set.Rhs) != 1 || src(set.Lhs[0]) != result {
		k.fail(body[0], "block is not `%s = e` optionally followed by break", result)
	}
	v := k.expr(set.Rhs[0], env)
	if v.t == tUntyped {
		v = k.coerce(set, v, tNat)
	}
	if v.t != tNat {
		k.fail(set, "result assigned a value that is not a uint64")
	}
	hit := paren(v)
	text := src(guard.Cond) + " => " + src(set) + "; break"
	if !brk {
		hit = "senderIdLoopGen caller " + paren(v) + " ps"
		text = src(guard.Cond) + " => " + src(set) + "  [no break: the loop goes on]"
	}
	var b strings.Builder
	k.docHead(&b, "the loop over the map h.peers.All(): entries (id, name) in ITERATION order (unspecified in Go), `acc` = the result variable so far")
	fmt.Fprintf(&b, "def senderIdLoopGen (caller : String) (acc : Nat) : List (Nat × String) → Nat\n  | [] => acc\n  | p :: ps => if %s then %s else senderIdLoopGen caller acc ps\n\n", c.s, hit)
	k.docHead(&b, "for a context that carries the client name `caller`; the result variable starts as 0 (`var "+result+" uint64`)")
	fmt.Fprintf(&b, "def %s (peers : List (Nat × String)) (caller : String) : Nat :=\n  senderIdLoopGen caller 0 peers\n\n", k.spec.name)
	k.docHead(&b, "the whole function; `client` = "+ctx+".Value("+clientNameKey+") if it is a string (`none`: the loop is skipped)")
	fmt.Fprintf(&b, "def senderIdCtxGen (client : Option String) (peers : List (Nat × String)) : Nat :=\n  match client with\n  | none => 0\n  | some caller => %s peers caller\n\n", k.spec.name)
	k.emitGuardTexts(&b, []string{
		src(stmts[0]),
		src(as) + "; " + okv.Name + " =>",
		"  for " + key.Name + ", " + val.Name + " := range " + src(loop.X) + " {  [map: iteration order unspecified]",
		"    " + text,
		"  }",
		src(stmts[2]),
	})
	return b.String()
}

// ---- package-level facts the OnCommit / getGeneration kernels rely on ----

// loadPkgErrs: the package-level `var ErrX = errors.New("…")` of the kernel's package (all non-test files).
func (k *ktrans) loadPkgErrs() {
	dir := filepath.Join(k.repo, filepath.Dir(k.spec.file))
	ents, err := os.ReadDir(dir)
	if err != nil {
		k.fail(nil, "cannot read the package directory of %s", k.spec.file)
	}
	for _, e := range ents {
		if e.IsDir() || !strings.HasSuffix(e.Name(), ".go") || strings.HasSuffix(e.Name(), "_test.go") {
			continue
		}
		f := parse(filepath.Join(dir, e.Name()))
		if f == nil {
			continue
		}
		for _, d := range f.Decls {
			g, ok := d.(*ast.GenDecl)
			if !ok || g.Tok != token.VAR {
				continue
			}
			for _, sp := range g.Specs {
				vs, ok := sp.(*ast.ValueSpec)
				if !ok || len(vs.Names) != 1 || len(vs.Values) != 1 || vs.Type != nil {
					continue
				}
				if call, ok := vs.Values[0].(*ast.CallExpr); ok && src(call.Fun) == "errors.New" && len(call.Args) == 1 {
					if _, lit := call.Args[0].(*ast.BasicLit); lit {
						k.pkgErrs[vs.Names[0].Name] = true
					}
				}
			}
		}
	}
}

// getGenerationError: getGeneration (generation.go of the same package) returns either (nil, E) for ONE package error
// variable E, or (x, nil).  So `errors.Is(err, E)` after a call is the same as `err != nil`, and a nil error comes
// with the generation.  Returns E.
func (k *ktrans) getGenerationError() string {
	file := filepath.Join(k.repo, filepath.Dir(k.spec.file), "generation.go")
	fd := funcDecl(parse(file), "getGeneration")
	if fd == nil || fd.Body == nil || resultTypes(fd) != "*generation, error" {
		k.fail(nil, "getGeneration not found in generation.go, or not returning (*generation, error)")
	}
	e := ""
	ast.Inspect(fd.Body, func(n ast.Node) bool {
		switch x := n.(type) {
		case *ast.FuncLit:
			k.fail(x, "function literal in getGeneration")
		case *ast.ReturnStmt:
			if len(x.Results) != 2 {
				k.fail(x, "getGeneration: return of other than two values")
			}
			r0, r1 := src(x.Results[0]), src(x.Results[1])
			switch {
			case r1 == "nil" && r0 != "nil":
			case r0 == "nil" && k.pkgErrs[r1] && (e == "" || e == r1):
				e = r1
			default:
				k.fail(x, "getGeneration: return that is neither (nil, <one package error>) nor (generation, nil)")
			}
		}
		return true
	})
	if e == "" {
		k.fail(nil, "getGeneration never returns an error")
	}
	return e
}

// pureExpr: evaluation has no effect on anything (it may build a value for an error message).
func pureExpr(e ast.Expr) bool {
	switch x := e.(type) {
	case *ast.BasicLit, *ast.Ident:
		return true
	case *ast.ParenExpr:
		return pureExpr(x.X)
	case *ast.SelectorExpr:
		return pureExpr(x.X)
	case *ast.IndexExpr:
		return pureExpr(x.X) && pureExpr(x.Index)
	case *ast.CallExpr:
		args := x.Args
		switch src(x.Fun) {
		case "make":
			if len(args) == 0 {
				return false
			}
			args = args[1:] // the first argument is a type
		case "fmt.Sprintf", "uint64", "int64", "uint32", "int", "len", "append":
		default:
			return false
		}
		for _, a := range args {
			if !pureExpr(a) {
				return false
			}
		}
		return true
	}
	return false
}

// localOnly: a statement of a refusing block that can only change variables declared inside that block (it prepares
// the error message).  locals: the names declared so far in the block.
func (k *ktrans) localOnly(st ast.Stmt, locals map[string]bool) bool {
	if k.silentStmt(st) {
		return true
	}
	fresh := func(e ast.Expr) bool {
		id, ok := e.(*ast.Ident)
		return ok && (id.Name == "_" || !k.reserved(id.Name))
	}
	switch x := st.(type) {
	case *ast.AssignStmt:
		for _, r := range x.Rhs {
			if !pureExpr(r) {
				return false
			}
		}
		for _, l := range x.Lhs {
			switch x.Tok {
			case token.DEFINE:
				if !fresh(l) {
					return false
				}
			case token.ASSIGN:
				// v = e   or   v[i] = e   for a block-local v
				if ix, ok := l.(*ast.IndexExpr); ok {
					if !pureExpr(ix.Index) {
						return false
					}
					l = ix.X
				}
				if id, ok := l.(*ast.Ident); !ok || !locals[id.Name] {
					return false
				}
			default:
				return false
			}
		}
		if x.Tok == token.DEFINE {
			for _, l := range x.Lhs {
				locals[l.(*ast.Ident).Name] = true
			}
		}
		return true
	case *ast.RangeStmt:
		if x.Tok != token.DEFINE || !pureExpr(x.X) {
			return false
		}
		for _, v := range []ast.Expr{x.Key, x.Value} {
			if v != nil && !fresh(v) {
				return false
			}
		}
		for _, bs := range x.Body.List {
			if !k.localOnly(bs, locals) {
				return false
			}
		}
		return true
	}
	return false
}

// refusalGuardLocal: `if cond { <localOnly statements>; return …, <error> }` — whatever the block computes, control
// leaves the function with an error.
func (k *ktrans) refusalGuardLocal(st ast.Stmt, env map[string]lexpr, nres int) (lexpr, string) {
	x, ok := plainIf(st)
	if !ok {
		k.fail(st, "if with init or else")
	}
	c := k.cond(x.Cond, env)
	if len(x.Body.List) == 0 {
		k.fail(st, "empty guard block")
	}
	locals := map[string]bool{}
	for i, bs := range x.Body.List {
		if i == len(x.Body.List)-1 {
			if !k.isRefusal(bs, nres) {
				k.fail(bs, "guard block does not end in a return of an error")
			}
			break
		}
		if !k.localOnly(bs, locals) {
			k.fail(bs, "statement of a guard block that may have an effect outside the block")
		}
	}
	return c, src(x.Cond) + " => refuse"
}

// ---- 3. OnCommit: the refusal guards between the lookup of the generation and the key aggregation ----
//
//	G, err := s.getGeneration(ctx, account); if errors.Is(err, E) { return …, <error> }      (E: getGenerationError)
//	guards over len(G.sharedSecrets) ↦ nSecrets, len(G.sharedVVecs) ↦ nVvecs, len(G.participants) ↦ nParticipants
//	for _, P := range G.participants { _, a := G.sharedSecrets[P.ID]; _, b := G.sharedVVecs[P.ID]; guards over a, b }
//	                                                             ↦ commitListedGen over the list of (a, b), one per participant
//	first other statement: the translation stops (key aggregation)

func transOnCommit(k *ktrans, fd *ast.FuncDecl) string {
	ps := flatParams(fd)
	if k.recv == "" || len(ps) != 4 || ps[0].typ != "context.Context" || ps[1].typ != "uint64" || ps[2].typ != "string" || ps[3].typ != "[]byte" ||
		resultTypes(fd) != "[]byte, []byte, error" {
		k.fail(nil, "%s is not func (s) (ctx, uint64, string, []byte) ([]byte, []byte, error)", k.spec.fn)
	}
	ctx, account := ps[0].name, ps[2].name
	if ctx == "_" || account == "_" || ctx == account || k.reserved(ctx) || k.reserved(account) {
		k.fail(nil, "unusable parameter names")
	}
	for _, p := range ps[1:] {
		if p.name != "_" {
			k.roots[p.name] = true
		}
	}
	k.loadPkgErrs()
	notFound := k.getGenerationError()
	env := map[string]lexpr{}
	list := fd.Body.List
	var texts []string
	// phase 0: up to the lookup of the generation
	gen := ""
	i := 0
	for ; i < len(list) && gen == ""; i++ {
		st := list[i]
		if k.silentStmt(st) || k.mutexStmt(st) {
			continue
		}
		as, ok := st.(*ast.AssignStmt)
		if !ok || as.Tok != token.DEFINE || len(as.Lhs) != 2 || len(as.Rhs) != 1 || src(as.Lhs[1]) != "err" ||
			src(as.Rhs[0]) != k.recv+".getGeneration("+ctx+", "+account+")" {
			k.fail(st, "unsupported statement before the lookup of the generation")
		}
		g, ok := as.Lhs[0].(*ast.Ident)
		if !ok || g.Name == "_" || k.reserved(g.Name) || k.silent[g.Name] || i+1 >= len(list) {
			k.fail(st, "unsupported form of the lookup of the generation")
		}
		chk, ok := plainIf(list[i+1])
		if !ok || (!isErrNotNil(chk.Cond) && src(chk.Cond) != "errors.Is(err, "+notFound+")") {
			k.fail(list[i+1], "the error of the lookup is not checked immediately (err != nil, or errors.Is(err, %s))", notFound)
		}
		r, ok := k.silentTail(chk.Body).(*ast.ReturnStmt)
		if !ok || len(r.Results) != 3 || !(src(r.Results[2]) == "err" || k.isRefusal(r, 3)) {
			k.fail(chk, "error arm of the lookup does not return an error")
		}
		gen = g.Name
		texts = append(texts, src(as)+"; "+src(chk.Cond)+" => refuse  [getGeneration returns (nil, "+notFound+") or (generation, nil)]")
		i++
	}
	if gen == "" {
		k.fail(nil, "%s does not look up the generation", k.spec.fn)
	}
	k.roots[gen] = true
	k.lenSel[gen+".sharedSecrets"] = "nSecrets"
	k.lenSel[gen+".sharedVVecs"] = "nVvecs"
	k.lenSel[gen+".participants"] = "nParticipants"
	// phase 1: the acceptance conditions
	var conds []string
	listedDef := ""
	stopped := false
	for ; i < len(list) && !stopped; i++ {
		st := list[i]
		if k.silentStmt(st) {
			continue
		}
		switch x := st.(type) {
		case *ast.IfStmt:
			c, text := k.refusalGuardLocal(st, env, 3)
			conds = append(conds, c.s)
			texts = append(texts, text)
		case *ast.RangeStmt:
			if listedDef != "" || src(x.X) != gen+".participants" {
				// a second loop, or a loop over something else: the aggregation has begun
				texts = append(texts, "[translation stops at: "+loopHead(x)+"]")
				stopped = true
				break
			}
			var ltexts []string
			listedDef, ltexts = k.commitListedLoop(x, gen)
			conds = append(conds, "¬ commitListedGen listed")
			texts = append(texts, ltexts...)
		default:
			texts = append(texts, "[translation stops at: "+src(st)+"]")
			stopped = true
		}
	}
	if !stopped {
		k.fail(nil, "%s consists of guards only", k.spec.fn)
	}
	if listedDef == "" {
		k.fail(nil, "%s has no loop over the generation's participants before the aggregation", k.spec.fn)
	}
	var b strings.Builder
	b.WriteString(listedDef)
	k.docHead(&b, "the conditions between the lookup of the generation and the key aggregation, `true` = none of them refuses.\n    `nSecrets`: len(generation.sharedSecrets); `nVvecs`: len(generation.sharedVVecs); `nParticipants`: len(generation.participants);\n    `listed`: per listed participant, in order, (its ID is a key of sharedSecrets, its ID is a key of sharedVVecs)")
	fmt.Fprintf(&b, "def %s (nSecrets nVvecs nParticipants : Nat) (listed : List (Bool × Bool)) : Bool :=\n  %s\n\n", k.spec.name, boolChain(conds, "  "))
	k.emitGuardTexts(&b, texts)
	return b.String()
}

func loopHead(r *ast.RangeStmt) string {
	h := "for "
	if r.Key != nil {
		h += src(r.Key)
		if r.Value != nil {
			h += ", " + src(r.Value)
		}
		h += " " + r.Tok.String() + " "
	}
	return h + "range " + src(r.X) + " { … }"
}

// commitListedLoop recognises
//
//	for _, P := range G.participants {            (or: for i := range G.participants, with G.participants[i].ID)
//	    _, a := G.sharedSecrets[P.ID]             ↦ p.1
//	    _, b := G.sharedVVecs[P.ID]               ↦ p.2
//	    if <cond over a, b> { …; return …, <error> }
//	}
//
// and emits the loop as a recursive function over the list of (a, b) pairs.
func (k *ktrans) commitListedLoop(r *ast.RangeStmt, gen string) (string, []string) {
	bad := func(n ast.Node, why string) {
		k.fail(n, "loop over the participants is not of the recognised shape (%s)", why)
	}
	key, _ := r.Key.(*ast.Ident)
	if r.Tok != token.DEFINE || key == nil {
		bad(r, "for _, p := range …")
	}
	elem := ""
	if r.Value == nil {
		if key.Name == "_" || k.reserved(key.Name) {
			bad(r, "index variable")
		}
		k.roots[key.Name] = true
		elem = gen + ".participants[" + key.Name + "].ID"
	} else {
		val, _ := r.Value.(*ast.Ident)
		if val == nil || key.Name != "_" || val.Name == "_" || k.reserved(val.Name) {
			bad(r, "for _, p := range …")
		}
		k.roots[val.Name] = true
		elem = val.Name + ".ID"
	}
	env := map[string]lexpr{}
	texts := []string{strings.TrimSuffix(loopHead(r), " … }")}
	var conds []string
	for _, st := range r.Body.List {
		if k.silentStmt(st) {
			continue
		}
		switch x := st.(type) {
		case *ast.AssignStmt:
			// _, a := G.<map>[elem]
			if x.Tok != token.DEFINE || len(x.Lhs) != 2 || len(x.Rhs) != 1 || src(x.Lhs[0]) != "_" {
				bad(st, "_, present := map[id]")
			}
			flag, okf := x.Lhs[1].(*ast.Ident)
			ix, oki := x.Rhs[0].(*ast.IndexExpr)
			if !okf || !oki || flag.Name == "_" || k.reserved(flag.Name) || src(ix.Index) != elem {
				bad(st, "_, present := map[id]")
			}
			if _, used := env[flag.Name]; used {
				bad(st, "flag declared twice")
			}
			switch src(ix.X) {
			case gen + ".sharedSecrets":
				env[flag.Name] = lexpr{"p.1", tBool, true}
			case gen + ".sharedVVecs":
				env[flag.Name] = lexpr{"p.2", tBool, true}
			default:
				bad(st, "membership in a map other than sharedSecrets / sharedVVecs")
			}
			texts = append(texts, "  "+src(st))
		case *ast.IfStmt:
			c, text := k.refusalGuard(st, env, 3)
			conds = append(conds, c.s)
			texts = append(texts, "  "+text)
		default:
			bad(st, "unsupported statement")
		}
	}
	if len(conds) == 0 {
		bad(r, "no guard")
	}
	texts = append(texts, "}")
	var b strings.Builder
	k.docHead(&b, "the loop over generation.participants: `false` = some iteration refuses")
	b.WriteString("def commitListedGen : List (Bool × Bool) → Bool\n  | [] => true\n  | p :: ps =>\n    ")
	for _, c := range conds {
		b.WriteString("if " + c + " then false\n    else ")
	}
	b.WriteString("commitListedGen ps\n\n")
	return b.String(), texts
}

// ---- 4. getGeneration: lookup, expiry test, result ----
//
//	G, E := s.generations[account]                                       E ↦ present
//	guards: if cond { …log…; [delete(s.generations, account)]; return nil, <package error> }
//	        over E, time.Since(G.processStarted) ↦ now - started, s.generationTimeout ↦ timeout
//	return G, nil
//
// The expiry test is the one guard that reads the clock.

func transGetGeneration(k *ktrans, fd *ast.FuncDecl) string {
	ps := flatParams(fd)
	if k.recv == "" || len(ps) != 2 || ps[0].typ != "context.Context" || ps[1].typ != "string" || resultTypes(fd) != "*generation, error" {
		k.fail(nil, "%s is not func (s) (context.Context, string) (*generation, error)", k.spec.fn)
	}
	account := ps[1].name
	if account == "_" || k.reserved(account) {
		k.fail(nil, "unusable parameter name")
	}
	k.roots[account] = true
	k.loadPkgErrs()
	k.spec.params = []kparam{{k.recv + ".generationTimeout", "timeout", "Nat", tNat}}
	env := map[string]lexpr{}
	type arm struct {
		cond    string
		deletes bool
	}
	var arms []arm
	var texts []string
	gen, expiry := "", ""
	closed := false
	mapSrc := k.recv + ".generations"
	for _, st := range fd.Body.List {
		if closed {
			k.fail(st, "statement after the final return")
		}
		if k.silentStmt(st) {
			continue
		}
		switch x := st.(type) {
		case *ast.AssignStmt:
			ix, isIx := x.Rhs[0].(*ast.IndexExpr)
			if !isIx || len(x.Rhs) != 1 || len(x.Lhs) != 2 || x.Tok != token.DEFINE || gen != "" || src(ix.X) != mapSrc || src(ix.Index) != account {
				k.fail(st, "unsupported statement (expected: g, exists := %s[%s])", mapSrc, account)
			}
			g, okg := x.Lhs[0].(*ast.Ident)
			e, oke := x.Lhs[1].(*ast.Ident)
			if !okg || !oke || g.Name == "_" || e.Name == "_" || g.Name == e.Name || k.reserved(g.Name) || k.reserved(e.Name) || k.silent[g.Name] || k.silent[e.Name] {
				k.fail(st, "unsupported form of the lookup")
			}
			gen = g.Name
			k.roots[gen] = true
			k.sinceOf[gen+".processStarted"] = "started"
			env[e.Name] = lexpr{"present", tBool, true}
			texts = append(texts, src(st)+"  [map lookup: "+e.Name+" ↦ present]")
		case *ast.IfStmt:
			g, ok := plainIf(st)
			if !ok {
				k.fail(st, "if with init or else")
			}
			c := k.cond(g.Cond, env)
			deletes := false
			for j, bs := range g.Body.List {
				if j == len(g.Body.List)-1 {
					r, isRet := bs.(*ast.ReturnStmt)
					if !isRet || len(r.Results) != 2 || src(r.Results[0]) != "nil" || !k.pkgErrs[src(r.Results[1])] {
						k.fail(bs, "guard block does not end in `return nil, <package error>`")
					}
					break
				}
				if k.silentStmt(bs) {
					continue
				}
				if es, isExpr := bs.(*ast.ExprStmt); isExpr && src(es.X) == "delete("+mapSrc+", "+account+")" && !deletes {
					deletes = true
					continue
				}
				k.fail(bs, "unsupported statement in a guard block")
			}
			if len(g.Body.List) == 0 {
				k.fail(st, "empty guard block")
			}
			if mentions(c.s, []string{"now"}) {
				if expiry != "" {
					k.fail(st, "more than one guard reads the clock")
				}
				expiry = c.s
			}
			arms = append(arms, arm{c.s, deletes})
			text := src(g.Cond) + " => "
			if deletes {
				text += "delete(" + mapSrc + ", " + account + "); "
			}
			texts = append(texts, text+"return nil, "+src(g.Body.List[len(g.Body.List)-1].(*ast.ReturnStmt).Results[1]))
		case *ast.ReturnStmt:
			if gen == "" || len(x.Results) != 2 || src(x.Results[0]) != gen || src(x.Results[1]) != "nil" {
				k.fail(st, "final return is not `return <generation>, nil`")
			}
			texts = append(texts, src(st))
			closed = true
		default:
			k.fail(st, "unsupported statement")
		}
	}
	if !closed {
		k.fail(nil, "%s does not end in `return <generation>, nil`", k.spec.fn)
	}
	if expiry == "" {
		k.fail(nil, "%s has no guard that reads the clock", k.spec.fn)
	}
	var b strings.Builder
	k.docHead(&b, "the one guard that reads the clock.  `now - started`: time.Since(generation.processStarted) (monotonic clock: never negative,\n    so the truncated subtraction of Nat is exact); `timeout`: s.generationTimeout (a Duration; the comparison is between Durations)")
	fmt.Fprintf(&b, "def %s (now started timeout : Nat) : Bool :=\n  decide (%s)\n\n", k.spec.name, expiry)
	k.docHead(&b, "the whole function: (a generation is returned, the map entry is deleted); `present`: the account has an entry in s.generations")
	b.WriteString("def getGenerationGen (present : Bool) (now started timeout : Nat) : Bool × Bool :=\n  ")
	for _, a := range arms {
		fmt.Fprintf(&b, "if %s then (false, %v)\n  else ", a.cond, a.deletes)
	}
	b.WriteString("(true, false)\n\n")
	k.emitGuardTexts(&b, texts)
	return b.String()
}

// ---- 5. Suitable: the refusal guards before the first allocation ----
//
//	guards: if cond { …; return nil, <error> }   over threshold (uint32 parameter), len(s.peers) ↦ npeers
//	pure local definitions without allocation (skipped; a guard reading them is untranslatable)
//	first statement containing make(T, n, …): the allocation; n ↦ the size

func containsMake(n ast.Node) (found *ast.CallExpr) {
	ast.Inspect(n, func(m ast.Node) bool {
		if c, ok := m.(*ast.CallExpr); ok && found == nil {
			if id, ok := c.Fun.(*ast.Ident); ok && (id.Name == "make" || id.Name == "new" || id.Name == "append") {
				found = c
			}
		}
		return found == nil
	})
	return found
}

func transSuitable(k *ktrans, fd *ast.FuncDecl) string {
	ps := flatParams(fd)
	if k.recv == "" || len(ps) != 1 || ps[0].typ != "uint32" || ps[0].name == "_" || k.reserved(ps[0].name) || resultTypes(fd) != "[]*core.Endpoint, error" {
		k.fail(nil, "%s is not func (s) (uint32) ([]*core.Endpoint, error)", k.spec.fn)
	}
	th := ps[0].name
	k.roots[th] = true
	k.u32["threshold"] = true
	k.lenSel[k.recv+".peers"] = "npeers"
	env := map[string]lexpr{th: {"threshold", tNat, true}}
	var conds, texts []string
	size := ""
	for _, st := range fd.Body.List {
		if k.silentStmt(st) {
			continue
		}
		if g, isIf := st.(*ast.IfStmt); isIf && containsMake(g.Cond) == nil && (g.Init == nil || containsMake(g.Init) == nil) {
			c, text := k.refusalGuard(st, env, 2)
			conds = append(conds, c.s)
			texts = append(texts, text)
			continue
		}
		if call := containsMake(st); call != nil {
			// the first allocation: it must be `x := make(T, n)` / make(T, n, c) sized by a translatable expression
			as, ok := st.(*ast.AssignStmt)
			if !ok || len(as.Rhs) != 1 || as.Rhs[0] != ast.Expr(call) || src(call.Fun) != "make" || len(call.Args) < 2 {
				k.fail(st, "first allocation is not `x := make(T, n)`")
			}
			n := k.expr(call.Args[len(call.Args)-1], env) // the capacity if given, else the length
			if n.t == tUntyped {
				n = k.coerce(st, n, tNat)
			}
			if n.t != tNat {
				k.fail(st, "allocation size is not an unsigned value")
			}
			size = paren(n)
			texts = append(texts, "[first allocation: "+src(st)+"]")
			break
		}
		// a local definition that neither allocates nor calls anything: skipped (not readable by later guards)
		as, ok := st.(*ast.AssignStmt)
		if !ok || as.Tok != token.DEFINE {
			k.fail(st, "unsupported statement before the first allocation")
		}
		for _, l := range as.Lhs {
			if id, isId := l.(*ast.Ident); !isId || k.reserved(id.Name) {
				k.fail(st, "unsupported statement before the first allocation")
			}
		}
		for _, r := range as.Rhs {
			if !pureArg(r) {
				k.fail(st, "unsupported statement before the first allocation")
			}
		}
		texts = append(texts, "[skipped local: "+src(st)+"]")
	}
	if size == "" {
		k.fail(nil, "%s allocates nothing", k.spec.fn)
	}
	var b strings.Builder
	k.docHead(&b, "the guards before the first allocation, `true` = one of them refuses.\n    `threshold`: the uint32 parameter; `npeers`: len(s.peers)")
	fmt.Fprintf(&b, "def %s (threshold npeers : Nat) : Bool :=\n  ", k.spec.name)
	for _, c := range conds {
		b.WriteString("if " + c + " then true\n  else ")
	}
	b.WriteString("false\n\n")
	k.docHead(&b, "… and the size of the first allocation (`make`) if none of them does: `none` = refused before anything is allocated")
	fmt.Fprintf(&b, "def suitableAllocGen (threshold npeers : Nat) : Option Nat :=\n  if %s threshold npeers then none else some %s\n\n", k.spec.name, size)
	k.emitGuardTexts(&b, texts)
	return b.String()
}

// =============================================================================================
// P12: the import command's raise-only merge — the body of the loop over protection.Data in storeSlashingProtection
// (slashingprotection.go, package main).  Three kernels are cut out of ONE loop body, whose skeleton must be exactly
//
//	for I := range P.Data {                                   (P: the *SlashingProtection parameter; entry = P.Data[I])
//	    B, err := hex.DecodeString(strings.TrimPrefix(entry.PublicKey, "0x")); if err != nil { return <error> }
//	    var K [48]byte; copy(K[:], B)                          (the key: the model's hexDecode0x / fit48, not translated)
//	    KP, EX := M[K]                                         (M: the map being built; EX ↦ fromFile is `some`)
//	    if !EX { KP = &rules.SlashingProtection{…}; …; if EKP, EX2 := E[K]; EX2 { KP.F = EKP.G … } }
//	                                                           ↦ importStartGen        (E: the export of the existing store)
//	    for _, A := range entry.SignedAttestations { … }      ↦ importAttStepGen      (one iteration)
//	    for _, Q := range entry.SignedBlocks { … }            ↦ importBlockStepGen    (one iteration)
//	    M[K] = KP
//	}
//
// (the two inner loops in either order; log / print statements anywhere).  Anything else in the loop body makes all
// three kernels untranslatable; a statement outside the fragment inside one of the three parts makes that kernel
// untranslatable.  The numbers parsed from the file are inputs: `strconv.ParseInt(A.F, 10, 64)` ↦ an `Option Int`
// parameter (`none` = the call returned an error), so no string handling is generated.

var importFields = []kparam{
	{"HighestProposedSlot", "curSlot", "Int", tInt},
	{"HighestAttestedSourceEpoch", "curSrc", "Int", tInt},
	{"HighestAttestedTargetEpoch", "curTgt", "Int", tInt},
}

type importShape struct {
	prot, idx     string // P, I
	entry         string // source text of the current entry: P.Data[I]
	m, e          string // M, E
	key, keyBytes string // K, B
	kp, exists    string // KP, EX
	startIf       *ast.IfStmt
	attLoop       *ast.RangeStmt
	blockLoop     *ast.RangeStmt
	keyTexts      []string // the key derivation, for the guard list of importStartGen
	loopOrder     string
	taken         map[string]bool
}

// importPrint: fmt.Fprintf(os.Stderr, …) / fmt.Fprintln / fmt.Printf / fmt.Println with pure arguments — how package
// main reports to the operator; no effect on the merge.
func (k *ktrans) importPrint(st ast.Stmt) bool {
	es, ok := st.(*ast.ExprStmt)
	if !ok {
		return false
	}
	call, ok := es.X.(*ast.CallExpr)
	if !ok {
		return false
	}
	args := call.Args
	switch src(call.Fun) {
	case "fmt.Fprintf", "fmt.Fprintln", "fmt.Fprint":
		if len(args) == 0 || (src(args[0]) != "os.Stderr" && src(args[0]) != "os.Stdout") {
			return false
		}
		args = args[1:]
	case "fmt.Printf", "fmt.Println", "fmt.Print":
	default:
		return false
	}
	for _, a := range args {
		if !pureArg(a) {
			return false
		}
	}
	return true
}

func (k *ktrans) importSilent(st ast.Stmt) bool { return k.silentStmt(st) || k.importPrint(st) }

// importReserved: packages, builtins and names this kernel's translation interprets; the loop body must not rebind them
// (the source's own local `bytes` is fine: package bytes is not interpreted here).
var importReserved = map[string]bool{
	"strconv": true, "errors": true, "fmt": true, "hex": true, "strings": true, "rules": true, "os": true, "math": true,
	"err": true, "nil": true, "true": true, "false": true, "copy": true, "make": true, "len": true, "int64": true,
	"uint64": true, "int": true, "log": true,
}

// importFresh: a name the loop body introduces; it must not hide anything the translation refers to.
func (k *ktrans) importFresh(n ast.Node, sh *importShape, e ast.Expr) string {
	id, ok := e.(*ast.Ident)
	if !ok || id.Name == "_" || importReserved[id.Name] || k.roots[id.Name] || sh.taken[id.Name] || k.silent[id.Name] {
		k.fail(n, "unusable or already used local name %s", src(e))
	}
	sh.taken[id.Name] = true
	return id.Name
}

func mentionsIdent(n ast.Node, name string) (found bool) {
	ast.Inspect(n, func(m ast.Node) bool {
		if id, ok := m.(*ast.Ident); ok && id.Name == name {
			found = true
		}
		return !found
	})
	return found
}

// importErrReturn: `return <error>` out of a function with the single result `error`.  afterErr: the statement is the
// arm of `if err != nil` directly after the call that set err, so `err` and `errors.Wrap(err, …)` are not nil either.
func (k *ktrans) importErrReturn(st ast.Stmt, afterErr bool) bool {
	r, ok := st.(*ast.ReturnStmt)
	if !ok || len(r.Results) != 1 {
		return false
	}
	if afterErr && src(r.Results[0]) == "err" {
		return true
	}
	call, ok := r.Results[0].(*ast.CallExpr)
	if !ok {
		return false
	}
	args := call.Args
	switch src(call.Fun) {
	case "errors.New", "fmt.Errorf":
	case "errors.Wrap", "errors.Wrapf", "errors.WithMessage":
		if !afterErr || len(args) == 0 || src(args[0]) != "err" {
			return false
		}
		args = args[1:]
	default:
		return false
	}
	for _, a := range args {
		if !pureArg(a) {
			return false
		}
	}
	return true
}

// importErrArm: `if err != nil { …prints…; return <error> }`
func (k *ktrans) importErrArm(st ast.Stmt) bool {
	x, ok := plainIf(st)
	if !ok || !isErrNotNil(x.Cond) || len(x.Body.List) == 0 {
		return false
	}
	for i, bs := range x.Body.List {
		if i == len(x.Body.List)-1 {
			return k.importErrReturn(bs, true)
		}
		if !k.importSilent(bs) {
			return false
		}
	}
	return false
}

// importStructOK: rules.SlashingProtection declares the three watermarks as int64 (the types the translation assigns
// by name).
func (k *ktrans) importStructOK() {
	dir := filepath.Join(k.repo, "rules")
	ents, err := os.ReadDir(dir)
	if err != nil {
		k.fail(nil, "cannot read the rules package")
	}
	found := map[string]bool{}
	for _, e := range ents {
		if e.IsDir() || !strings.HasSuffix(e.Name(), ".go") || strings.HasSuffix(e.Name(), "_test.go") {
			continue
		}
		f := parse(filepath.Join(dir, e.Name()))
		if f == nil {
			continue
		}
		for _, d := range f.Decls {
			g, ok := d.(*ast.GenDecl)
			if !ok || g.Tok != token.TYPE {
				continue
			}
			for _, sp := range g.Specs {
				ts, ok := sp.(*ast.TypeSpec)
				if !ok || ts.Name.Name != "SlashingProtection" {
					continue
				}
				stt, ok := ts.Type.(*ast.StructType)
				if !ok {
					k.fail(nil, "rules.SlashingProtection is not a struct")
				}
				for _, fl := range stt.Fields.List {
					for _, n := range fl.Names {
						if src(fl.Type) == "int64" {
							found[n.Name] = true
						}
					}
				}
			}
		}
	}
	for _, f := range importFields {
		if !found[f.goExpr] {
			k.fail(nil, "rules.SlashingProtection has no int64 field %s", f.goExpr)
		}
	}
}

func (k *ktrans) importSkeleton(fd *ast.FuncDecl) *importShape {
	ps := flatParams(fd)
	if fd.Recv != nil || len(ps) != 2 || ps[0].typ != "context.Context" || ps[1].typ != "*SlashingProtection" || resultTypes(fd) != "error" {
		k.fail(nil, "%s is not func(context.Context, *SlashingProtection) error", k.spec.fn)
	}
	k.importStructOK()
	sh := &importShape{prot: ps[1].name, taken: map[string]bool{}}
	if sh.prot == "_" || importReserved[sh.prot] {
		k.fail(nil, "unusable parameter name")
	}
	sh.taken[sh.prot] = true
	if ps[0].name != "_" {
		sh.taken[ps[0].name] = true
	}
	// the loop over P.Data: exactly one, at the top level of the function
	var loop *ast.RangeStmt
	loopAt := -1
	for i, st := range fd.Body.List {
		if r, ok := st.(*ast.RangeStmt); ok && src(r.X) == sh.prot+".Data" {
			if loop != nil {
				k.fail(st, "more than one loop over %s.Data", sh.prot)
			}
			loop, loopAt = r, i
		}
	}
	if loop == nil {
		k.fail(nil, "%s has no top-level loop over %s.Data", k.spec.fn, sh.prot)
	}
	if loop.Tok != token.DEFINE || loop.Value != nil || loop.Key == nil {
		k.fail(loop, "the loop over the file's entries is not `for i := range %s.Data`", sh.prot)
	}
	sh.idx = k.importFresh(loop, sh, loop.Key)
	sh.entry = sh.prot + ".Data[" + sh.idx + "]"

	body := loop.Body.List
	pos := 0
	next := func(what string) ast.Stmt {
		for pos < len(body) && k.importSilent(body[pos]) {
			pos++
		}
		if pos >= len(body) {
			k.fail(loop, "the loop body ends before %s", what)
		}
		pos++
		return body[pos-1]
	}
	// the key
	st := next("the decoding of the public key")
	as, ok := st.(*ast.AssignStmt)
	if !ok || as.Tok != token.DEFINE || len(as.Lhs) != 2 || len(as.Rhs) != 1 || src(as.Lhs[1]) != "err" ||
		src(as.Rhs[0]) != "hex.DecodeString(strings.TrimPrefix("+sh.entry+".PublicKey, \"0x\"))" {
		k.fail(st, "expected: b, err := hex.DecodeString(strings.TrimPrefix(%s.PublicKey, \"0x\"))", sh.entry)
	}
	sh.keyBytes = k.importFresh(st, sh, as.Lhs[0])
	sh.keyTexts = append(sh.keyTexts, "[key] "+src(st)+"; err != nil => refuse")
	if st = next("the check of the decoding error"); !k.importErrArm(st) {
		k.fail(st, "the error of hex.DecodeString is not checked immediately by `if err != nil { return <error> }`")
	}
	st = next("the declaration of the key")
	ds, ok := st.(*ast.DeclStmt)
	var vs *ast.ValueSpec
	if ok {
		if g, isG := ds.Decl.(*ast.GenDecl); isG && g.Tok == token.VAR && len(g.Specs) == 1 {
			vs, _ = g.Specs[0].(*ast.ValueSpec)
		}
	}
	if vs == nil || len(vs.Names) != 1 || len(vs.Values) != 0 || vs.Type == nil || src(vs.Type) != "[48]byte" {
		k.fail(st, "expected: var key [48]byte")
	}
	sh.key = k.importFresh(st, sh, vs.Names[0])
	sh.keyTexts = append(sh.keyTexts, "[key] "+src(st))
	st = next("the copy into the key")
	if es, isE := st.(*ast.ExprStmt); !isE || src(es.X) != "copy("+sh.key+"[:], "+sh.keyBytes+")" {
		k.fail(st, "expected: copy(%s[:], %s)", sh.key, sh.keyBytes)
	}
	sh.keyTexts = append(sh.keyTexts, "[key] "+src(st))
	// the lookup in the map being built
	st = next("the lookup of the key in the map being built")
	as, ok = st.(*ast.AssignStmt)
	var ix *ast.IndexExpr
	if ok && len(as.Rhs) == 1 {
		ix, _ = as.Rhs[0].(*ast.IndexExpr)
	}
	if !ok || as.Tok != token.DEFINE || len(as.Lhs) != 2 || ix == nil || src(ix.Index) != sh.key {
		k.fail(st, "expected: keyProtection, exists := protectionMap[%s]", sh.key)
	}
	sh.m = k.importFresh(st, sh, ix.X)
	sh.kp = k.importFresh(st, sh, as.Lhs[0])
	sh.exists = k.importFresh(st, sh, as.Lhs[1])
	// the start value
	st = next("the selection of the start value")
	sif, ok := plainIf(st)
	if !ok || src(sif.Cond) != "!"+sh.exists {
		k.fail(st, "expected: if !%s { … } (no init, no else)", sh.exists)
	}
	sh.startIf = sif
	// the two folds, in either order
	for n := 0; n < 2; n++ {
		st = next("the loops over the entry's attestations and blocks")
		r, ok := st.(*ast.RangeStmt)
		switch {
		case ok && src(r.X) == sh.entry+".SignedAttestations" && sh.attLoop == nil:
			sh.attLoop = r
			sh.loopOrder += "attestations;"
		case ok && src(r.X) == sh.entry+".SignedBlocks" && sh.blockLoop == nil:
			sh.blockLoop = r
			sh.loopOrder += "blocks;"
		default:
			k.fail(st, "expected one loop over %s.SignedAttestations and one over %s.SignedBlocks", sh.entry, sh.entry)
		}
	}
	// the record goes (back) into the map
	st = next("the store into the map being built")
	if as, ok = st.(*ast.AssignStmt); !ok || as.Tok != token.ASSIGN || len(as.Lhs) != 1 || len(as.Rhs) != 1 ||
		src(as.Lhs[0]) != sh.m+"["+sh.key+"]" || src(as.Rhs[0]) != sh.kp {
		k.fail(st, "expected: %s[%s] = %s", sh.m, sh.key, sh.kp)
	}
	for ; pos < len(body); pos++ {
		if !k.importSilent(body[pos]) {
			k.fail(body[pos], "statement after %s[%s] = %s", sh.m, sh.key, sh.kp)
		}
	}
	// M: declared empty before the loop, and untouched until the loop
	declared := false
	for _, st := range fd.Body.List[:loopAt] {
		if !mentionsIdent(st, sh.m) {
			continue
		}
		as, ok := st.(*ast.AssignStmt)
		if declared || !ok || as.Tok != token.DEFINE || len(as.Lhs) != 1 || len(as.Rhs) != 1 || src(as.Lhs[0]) != sh.m ||
			src(as.Rhs[0]) != "make(map[[48]byte]*rules.SlashingProtection)" {
			k.fail(st, "%s is not declared once as make(map[[48]byte]*rules.SlashingProtection) and left alone until the loop", sh.m)
		}
		declared = true
	}
	if !declared {
		k.fail(nil, "%s is not declared before the loop", sh.m)
	}
	for _, n := range []string{sh.m, sh.kp, sh.key, sh.idx, sh.prot} {
		k.roots[n] = true
	}
	return sh
}

// importStoreDecl: E is the result of ExportSlashingProtection, declared once before the loop.
func (k *ktrans) importStoreDecl(fd *ast.FuncDecl, sh *importShape) string {
	text := ""
	for _, st := range fd.Body.List {
		if r, ok := st.(*ast.RangeStmt); ok && src(r.X) == sh.prot+".Data" {
			break
		}
		if !mentionsIdent(st, sh.e) {
			continue
		}
		as, ok := st.(*ast.AssignStmt)
		var call *ast.CallExpr
		if ok && len(as.Rhs) == 1 {
			call, _ = as.Rhs[0].(*ast.CallExpr)
		}
		if text != "" || call == nil || as.Tok != token.DEFINE || len(as.Lhs) != 2 || src(as.Lhs[0]) != sh.e || src(as.Lhs[1]) != "err" {
			k.fail(st, "%s is not declared once, as the result of ExportSlashingProtection, and left alone until the loop", sh.e)
		}
		sel, ok := call.Fun.(*ast.SelectorExpr)
		if !ok || sel.Sel.Name != "ExportSlashingProtection" {
			k.fail(st, "%s is not the result of ExportSlashingProtection", sh.e)
		}
		text = src(st)
	}
	if text == "" {
		k.fail(nil, "%s is not declared before the loop", sh.e)
	}
	return text
}

// importFieldAssign: `KP.F = e`, F one of the fields the kernel may write; returns the Lean variable and the value.
func (k *ktrans) importFieldAssign(st ast.Stmt, sh *importShape, fields []kparam, env map[string]lexpr) (string, lexpr, bool) {
	as, ok := st.(*ast.AssignStmt)
	if !ok || as.Tok != token.ASSIGN || len(as.Lhs) != 1 || len(as.Rhs) != 1 {
		return "", lexpr{}, false
	}
	sel, ok := as.Lhs[0].(*ast.SelectorExpr)
	if !ok || src(sel.X) != sh.kp {
		return "", lexpr{}, false
	}
	for _, f := range fields {
		if f.goExpr == sel.Sel.Name {
			v := k.expr(as.Rhs[0], env)
			if v.t == tUntyped {
				v = k.coerce(st, v, tInt)
			}
			if v.t != tInt {
				k.fail(st, "field assigned a value that is not an int64")
			}
			return f.lean, v, true
		}
	}
	k.fail(st, "assignment to a field that is not part of this kernel's state")
	return "", lexpr{}, false
}

func (k *ktrans) importReadable(root string, fields []kparam, lean func(f kparam) string) {
	for _, f := range fields {
		k.spec.params = append(k.spec.params, kparam{root + "." + f.goExpr, lean(f), "Int", tInt})
	}
}

// ---- 1. the start value ----

func transImportStart(k *ktrans, fd *ast.FuncDecl) string {
	sh := k.importSkeleton(fd)
	k.importReadable(sh.kp, importFields, func(f kparam) string { return f.lean })
	env := map[string]lexpr{}
	texts := append([]string{}, sh.keyTexts...)
	texts = append(texts, sh.kp+", "+sh.exists+" := "+sh.m+"["+sh.key+"]  [map lookup: the record ↦ fromFile]", "!"+sh.exists+" => {")
	var body []ast.Stmt
	for _, st := range sh.startIf.Body.List {
		if !k.importSilent(st) {
			body = append(body, st)
		}
	}
	if len(body) == 0 {
		k.fail(sh.startIf, "empty block")
	}
	// KP = &rules.SlashingProtection{F: c, …}   (a field that is not listed is 0)
	as, ok := body[0].(*ast.AssignStmt)
	var lit *ast.CompositeLit
	if ok && len(as.Rhs) == 1 {
		if u, isU := as.Rhs[0].(*ast.UnaryExpr); isU && u.Op == token.AND {
			lit, _ = u.X.(*ast.CompositeLit)
		}
	}
	if !ok || as.Tok != token.ASSIGN || len(as.Lhs) != 1 || src(as.Lhs[0]) != sh.kp || lit == nil || lit.Type == nil || src(lit.Type) != "rules.SlashingProtection" {
		k.fail(body[0], "expected: %s = &rules.SlashingProtection{…}", sh.kp)
	}
	initial := map[string]string{}
	for _, el := range lit.Elts {
		kv, ok := el.(*ast.KeyValueExpr)
		if !ok {
			k.fail(el, "positional struct literal")
		}
		name := src(kv.Key)
		known := false
		for _, f := range importFields {
			known = known || f.goExpr == name
		}
		if _, dup := initial[name]; !known || dup {
			k.fail(el, "field of the fresh record that is not one of the three watermarks (or is given twice)")
		}
		v := k.expr(kv.Value, map[string]lexpr{})
		if v.t != tUntyped {
			k.fail(el, "initial value is not an integer constant")
		}
		initial[name] = k.coerce(el, v, tInt).s
	}
	ind := "    "
	var lines []string
	for _, f := range importFields {
		v, given := initial[f.goExpr]
		if !given {
			v = "0"
		}
		lines = append(lines, ind+"let "+f.lean+" : Int := "+v)
	}
	texts = append(texts, "  "+src(body[0]))
	result := "(curSlot, curSrc, curTgt)"
	closed := false
	for _, st := range body[1:] {
		if closed {
			k.fail(st, "statement after the lookup in the existing store")
		}
		if name, v, ok := k.importFieldAssign(st, sh, importFields, env); ok {
			lines = append(lines, ind+"let "+name+" : Int := "+v.s)
			texts = append(texts, "  "+src(st))
			continue
		}
		// if EKP, EX2 := E[K]; EX2 { KP.F = e … }
		x, ok := st.(*ast.IfStmt)
		if !ok || x.Else != nil || x.Init == nil {
			k.fail(st, "unsupported statement in the selection of the start value")
		}
		las, ok := x.Init.(*ast.AssignStmt)
		var ix *ast.IndexExpr
		if ok && len(las.Rhs) == 1 {
			ix, _ = las.Rhs[0].(*ast.IndexExpr)
		}
		if !ok || las.Tok != token.DEFINE || len(las.Lhs) != 2 || ix == nil || src(ix.Index) != sh.key {
			k.fail(st, "expected: if existing, exists := existingProtection[%s]; exists { … }", sh.key)
		}
		if _, isId := ix.X.(*ast.Ident); !isId || src(ix.X) == sh.m {
			k.fail(st, "lookup in something other than the export of the existing store")
		}
		sh.e = src(ix.X)
		if sh.taken[sh.e] || importReserved[sh.e] || k.roots[sh.e] {
			k.fail(st, "lookup in something other than the export of the existing store")
		}
		decl := k.importStoreDecl(fd, sh)
		sh.taken[sh.e] = true
		k.roots[sh.e] = true
		// the flag may reuse the name of the outer flag (as the source does): it hides it from here on
		flag, isId := las.Lhs[1].(*ast.Ident)
		if !isId || flag.Name == "_" || importReserved[flag.Name] || k.roots[flag.Name] || (sh.taken[flag.Name] && flag.Name != sh.exists) {
			k.fail(st, "unusable flag name")
		}
		ekp := k.importFresh(st, sh, las.Lhs[0])
		if src(x.Cond) != flag.Name {
			k.fail(st, "the record of the existing store is used under a condition other than its presence")
		}
		k.roots[ekp] = true
		pos := map[string]string{"curSlot": "ex.1", "curSrc": "ex.2.1", "curTgt": "ex.2.2"}
		k.importReadable(ekp, importFields, func(f kparam) string { return pos[f.lean] })
		lines = append(lines, ind+"match fromStore with", ind+"| none => "+result, ind+"| some ex =>")
		texts = append(texts, "  ["+decl+"]", "  "+src(las)+"; "+src(x.Cond)+" => {  [map lookup: the record ↦ fromStore]")
		n := 0
		for _, bs := range x.Body.List {
			if k.importSilent(bs) {
				continue
			}
			name, v, ok := k.importFieldAssign(bs, sh, importFields, env)
			if !ok {
				k.fail(bs, "unsupported statement in the copy of the existing record")
			}
			lines = append(lines, ind+"  let "+name+" : Int := "+v.s)
			texts = append(texts, "    "+src(bs))
			n++
		}
		lines = append(lines, ind+"  "+result)
		texts = append(texts, "  }")
		closed = true
	}
	if !closed {
		lines = append(lines, ind+result)
	}
	texts = append(texts, "}", "[loops over the entry: "+sh.loopOrder+"]", sh.m+"["+sh.key+"] = "+sh.kp)
	var b strings.Builder
	k.docHead(&b, "the record the merge of one file entry starts from, as (slot, source, target).\n    `fromFile`: the record already in the map being built (the key was seen earlier in this file); `fromStore`: the key's record in\n    the export of the existing store")
	fmt.Fprintf(&b, "def %s (fromFile fromStore : Option (Int × Int × Int)) : Int × Int × Int :=\n  match fromFile with\n  | some kp => kp\n  | none =>\n%s\n\n",
		k.spec.name, strings.Join(lines, "\n"))
	k.emitGuardTexts(&b, texts)
	return b.String()
}

// ---- 2./3. one iteration of a fold ----
//
//	V, err := strconv.ParseInt(A.F, 10, 64); if err != nil { return <error> }     ↦ match <input F> with | none => none | some v_V =>
//	if c { return <fresh error> }                                                 ↦ if c then none else
//	if c { KP.G = e }                                                             ↦ let curG : Int := if c then e else curG
//	KP.G = e                                                                      ↦ let curG : Int := e
//	x := e (an int64 local)                                                       ↦ let v_x : Int := e
//
// in source order; the end of the body is `some <state>`.

func (k *ktrans) importStep(fd *ast.FuncDecl, pick func(sh *importShape) *ast.RangeStmt, fields []kparam, inputs map[string]string,
	sig, result, what string) string {
	sh := k.importSkeleton(fd)
	r := pick(sh)
	key, _ := r.Key.(*ast.Ident)
	if r.Tok != token.DEFINE || key == nil || key.Name != "_" || r.Value == nil {
		k.fail(r, "the loop is not `for _, x := range …`")
	}
	elem := k.importFresh(r, sh, r.Value)
	k.roots[elem] = true
	k.importReadable(sh.kp, fields, func(f kparam) string { return f.lean })
	env := map[string]lexpr{}
	texts := []string{strings.TrimSuffix(loopHead(r), " … }")}
	ind := "  "
	var lines []string
	local := func(n ast.Node, e ast.Expr) string {
		name := k.importFresh(n, sh, e)
		k.leanLocal(n, name)
		return "v_" + name
	}
	list := r.Body.List
	for i := 0; i < len(list); i++ {
		st := list[i]
		if k.importSilent(st) {
			continue
		}
		if name, v, ok := k.importFieldAssign(st, sh, fields, env); ok {
			lines = append(lines, ind+"let "+name+" : Int := "+v.s)
			texts = append(texts, "  "+src(st))
			continue
		}
		switch x := st.(type) {
		case *ast.AssignStmt:
			if x.Tok != token.DEFINE || len(x.Rhs) != 1 {
				k.fail(st, "unsupported assignment")
			}
			if len(x.Lhs) == 1 {
				v := k.expr(x.Rhs[0], env)
				if v.t != tInt {
					k.fail(st, "local that is not an int64")
				}
				lean := local(st, x.Lhs[0])
				lines = append(lines, ind+"let "+lean+" : Int := "+v.s)
				env[src(x.Lhs[0])] = lexpr{lean, tInt, true}
				texts = append(texts, "  "+src(st))
				continue
			}
			call, ok := x.Rhs[0].(*ast.CallExpr)
			if !ok || len(x.Lhs) != 2 || src(x.Lhs[1]) != "err" || src(call.Fun) != "strconv.ParseInt" || len(call.Args) != 3 ||
				src(call.Args[1]) != "10" || src(call.Args[2]) != "64" {
				k.fail(st, "expected: v, err := strconv.ParseInt(%s.<field>, 10, 64)", elem)
			}
			sel, ok := call.Args[0].(*ast.SelectorExpr)
			if !ok || src(sel.X) != elem || inputs[sel.Sel.Name] == "" {
				k.fail(st, "the number parsed is not a field of the loop element that is an input of this kernel")
			}
			if i+1 >= len(list) || !k.importErrArm(list[i+1]) {
				k.fail(st, "the error of strconv.ParseInt is not checked immediately by `if err != nil { return <error> }`")
			}
			lean := local(st, x.Lhs[0])
			lines = append(lines, ind+"match "+inputs[sel.Sel.Name]+" with", ind+"| none => none", ind+"| some "+lean+" =>")
			ind += "  "
			env[src(x.Lhs[0])] = lexpr{lean, tInt, true}
			texts = append(texts, "  "+src(st)+"; err != nil => refuse  ["+src(call)+" ↦ "+inputs[sel.Sel.Name]+"]")
			i++
		case *ast.IfStmt:
			if _, ok := plainIf(st); !ok {
				k.fail(st, "if with init or else")
			}
			c := k.cond(x.Cond, env)
			var body []ast.Stmt
			for _, bs := range x.Body.List {
				if !k.importSilent(bs) {
					body = append(body, bs)
				}
			}
			if len(body) != 1 {
				k.fail(st, "conditional block is not a single return of an error or a single field assignment")
			}
			if _, isRet := body[0].(*ast.ReturnStmt); isRet {
				if !k.importErrReturn(body[0], false) {
					k.fail(body[0], "return of something other than a fresh error")
				}
				lines = append(lines, ind+"if "+c.s+" then none else")
				texts = append(texts, "  "+src(x.Cond)+" => refuse")
				continue
			}
			name, v, ok := k.importFieldAssign(body[0], sh, fields, env)
			if !ok {
				k.fail(st, "conditional block is not a single return of an error or a single field assignment")
			}
			lines = append(lines, ind+"let "+name+" : Int := if "+c.s+" then "+v.s+" else "+name)
			texts = append(texts, "  "+src(x.Cond)+" => "+src(body[0]))
		default:
			k.fail(st, "unsupported statement")
		}
	}
	lines = append(lines, ind+"some "+result)
	texts = append(texts, "}")
	var b strings.Builder
	k.docHead(&b, what)
	fmt.Fprintf(&b, "def %s %s :=\n%s\n\n", k.spec.name, sig, strings.Join(lines, "\n"))
	k.emitGuardTexts(&b, texts)
	return b.String()
}

func transImportAttStep(k *ktrans, fd *ast.FuncDecl) string {
	return k.importStep(fd, func(sh *importShape) *ast.RangeStmt { return sh.attLoop }, importFields[1:],
		map[string]string{"SourceEpoch": "src", "TargetEpoch": "tgt"},
		"(curSrc curTgt : Int) (src tgt : Option Int) : Option (Int × Int)", "(curSrc, curTgt)",
		"one iteration of the loop over the entry's signed attestations.  `curSrc`, `curTgt`: the record's HighestAttestedSourceEpoch / …TargetEpoch;\n    `src`, `tgt`: strconv.ParseInt(attestation.SourceEpoch / .TargetEpoch, 10, 64) (`none` = it returned an error);\n    result `none` = the function returns an error, else the two fields after the iteration")
}

func transImportBlockStep(k *ktrans, fd *ast.FuncDecl) string {
	return k.importStep(fd, func(sh *importShape) *ast.RangeStmt { return sh.blockLoop }, importFields[:1],
		map[string]string{"Slot": "slot"},
		"(curSlot : Int) (slot : Option Int) : Option Int", "curSlot",
		"one iteration of the loop over the entry's signed blocks.  `curSlot`: the record's HighestProposedSlot;\n    `slot`: strconv.ParseInt(proposal.Slot, 10, 64) (`none` = it returned an error);\n    result `none` = the function returns an error, else the field after the iteration")
}
