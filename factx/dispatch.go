// dispatch.go — P20: the per-entry path of the ruler's `runRules` (services/ruler/golang/runner.go) — which rules method
// answers which action — and the batch shortcut `runRulesForMultipleBeaconAttestations`.
//
// Both functions are read by strict recognisers: EVERY statement must be one of the shapes below (anything else ⇒
// kernelUntranslatable_…).  Locals are recognised by ROLE (the statement that created them), never by name, and printed
// canonically, so a renaming changes nothing.
//
//	runRules:
//	  if … { return … }                                            (its first statement: the batch shortcut, runRulesPathGen's business)
//	  R := make([]rules.Result, len(D))   for I := range D|R { R[I] = rules.Y }
//	  _, E := util.Scatter(len(D), func(OFF int, ENT int, _ *sync.RWMutex) (any, error) {
//	      for I := OFF; I < OFF+ENT; I++ { ENTRY }
//	      return <pure>, nil })
//	  if E != nil { log… }     return R
//	ENTRY, in this order (log…/logger definitions with pure arguments anywhere; `var N string` and `if <pure> { N = <pure> } else { N = <pure> }` anywhere after 1):
//	  1. if D[I] == nil { log…; [R[I] = rules.X;] continue }            (required, before anything reads D[I])
//	  2. M, E' := S.assembleMetadata(<pure>…)   [if E' != nil { log…; [R[I] = rules.X; continue] }]
//	  3. switch action { case ruler.A: ARM … [default: ARM] }           (one constant per case; no fallthrough)
//	  4. [if R[I] == rules.X { log…; R[I] = rules.Y }]                  (at most one)
//	ARM:  [V, OK := D[I].Data.(T)   if !OK { log…; R[I] = rules.X; continue }]   R[I] = S.rules.METHOD(ctx, M, V)  |  R[I] = rules.X
//
// `util.Scatter(n, work)` is taken to call `work(offset, entries, …)` on extents that partition 0 … n-1 and to wait for
// all of them (util/scatter.go; cf. extentSizeGen): the entry function below is what happens to EACH position once.
package main

import (
	"fmt"
	"go/ast"
	"go/token"
	"strings"
)

type dpArm struct {
	constName, value string // "" = the default arm
	typ, method      string // "" = no assertion / no rules call
	mismatch         int    // value written when the assertion fails
	constVal         int    // no rules call: the enumerator value written
	constText        string
	text             string
}

type dpShape struct {
	k                        *ktrans
	ctx, creds, action, data string
	results, idx, meta       string
	off, ent                 string
	initVal, nilVal          int
	metaGuard                bool
	metaVal                  int
	arms                     []dpArm // the `case` arms, in source order
	def                      *dpArm
	conv                     [][2]int
	texts                    []string
	rules                    []enumVal
	consts, assigned         map[string]string
	locals                   map[string]bool
	rulesCalls               int
}

func (d *dpShape) fail(n ast.Node, f string, a ...interface{}) { d.k.fail(n, f, a...) }

var dpReserved = []string{"rules", "ruler", "util", "sync", "fmt", "len", "make", "nil", "true", "false", "any", "error", "string", "int", "_"}

func (d *dpShape) isId(e ast.Expr, name string) bool {
	id, ok := e.(*ast.Ident)
	return ok && name != "" && id.Name == name
}

// fresh: a newly defined local that hides nothing the translation reads (`allowData`: it may hide D, as the first arm
// of the source does inside its own case clause — the clause's later statements are then checked not to read D).
func (d *dpShape) fresh(n ast.Node, e ast.Expr, allowData bool) string {
	id, ok := e.(*ast.Ident)
	if !ok {
		d.fail(n, "definition of other than a local")
	}
	roles := []string{d.k.recv, d.ctx, d.creds, d.action, d.results, d.idx, d.meta, d.off, d.ent}
	if !allowData {
		roles = append(roles, d.data)
	}
	for _, w := range append(roles, dpReserved...) {
		if w != "" && w != "_" && id.Name == w {
			d.fail(n, "%s is rebound", id.Name)
		}
	}
	if d.k.silent[id.Name] || d.locals[id.Name] {
		d.fail(n, "%s is rebound", id.Name)
	}
	return id.Name
}

func (d *dpShape) pure(e ast.Expr) bool {
	switch x := e.(type) {
	case nil:
		return true
	case *ast.BasicLit, *ast.Ident:
		return true
	case *ast.ParenExpr:
		return d.pure(x.X)
	case *ast.SelectorExpr:
		return d.pure(x.X)
	case *ast.IndexExpr:
		return d.pure(x.X) && d.pure(x.Index)
	case *ast.BinaryExpr:
		return d.pure(x.X) && d.pure(x.Y) && x.Op != token.QUO && x.Op != token.REM
	case *ast.CallExpr:
		switch src(x.Fun) {
		case "fmt.Sprintf", "len":
			for _, a := range x.Args {
				if !d.pure(a) {
					return false
				}
			}
			return x.Ellipsis == token.NoPos
		}
	}
	return false
}

func (d *dpShape) silentChain(e ast.Expr) bool {
	for {
		switch x := e.(type) {
		case *ast.CallExpr:
			for _, a := range x.Args {
				if !d.pure(a) {
					return false
				}
			}
			e = x.Fun
		case *ast.SelectorExpr:
			if x.Sel.Name == "Fatal" || x.Sel.Name == "Panic" {
				return false
			}
			e = x.X
		case *ast.Ident:
			return d.k.silent[x.Name]
		default:
			return false
		}
	}
}

// silent: a logging call, or the definition of a logger from a logger (`log := log.With()….Logger()`).
func (d *dpShape) silent(st ast.Stmt) bool {
	switch x := st.(type) {
	case *ast.EmptyStmt:
		return true
	case *ast.ExprStmt:
		_, isCall := x.X.(*ast.CallExpr)
		return isCall && d.silentChain(x.X)
	case *ast.AssignStmt:
		if x.Tok != token.DEFINE || len(x.Lhs) != 1 || len(x.Rhs) != 1 {
			return false
		}
		call, ok := x.Rhs[0].(*ast.CallExpr)
		if !ok || !d.silentChain(call) {
			return false
		}
		id, ok := x.Lhs[0].(*ast.Ident)
		if !ok {
			return false
		}
		if id.Name != "_" && !d.k.silent[id.Name] {
			d.k.silent[d.fresh(st, id, false)] = true
		}
		return true
	}
	return false
}

// localOnly: `var N string` / `N = <pure>` / `if <pure> { N = … } [else { N = … }]` for string locals N declared this way.
func (d *dpShape) localOnly(st ast.Stmt) bool {
	switch x := st.(type) {
	case *ast.DeclStmt:
		gd, ok := x.Decl.(*ast.GenDecl)
		if !ok || gd.Tok != token.VAR {
			return false
		}
		for _, sp := range gd.Specs {
			vs := sp.(*ast.ValueSpec)
			if vs.Type == nil || src(vs.Type) != "string" {
				return false
			}
			for _, v := range vs.Values {
				if !d.pure(v) {
					return false
				}
			}
			for _, nm := range vs.Names {
				d.locals[d.fresh(st, nm, false)] = true
			}
		}
		return true
	case *ast.AssignStmt:
		if len(x.Lhs) != 1 || len(x.Rhs) != 1 || !d.pure(x.Rhs[0]) {
			return false
		}
		id, ok := x.Lhs[0].(*ast.Ident)
		if ok && x.Tok == token.DEFINE && id.Name != "_" { // N := <pure>
			d.locals[d.fresh(st, id, false)] = true
			return true
		}
		return ok && x.Tok == token.ASSIGN && d.locals[id.Name]
	case *ast.IfStmt:
		if x.Init != nil || !d.pure(x.Cond) {
			return false
		}
		for _, b := range x.Body.List {
			if !d.silent(b) && !d.localOnly(b) {
				return false
			}
		}
		switch e := x.Else.(type) {
		case nil:
		case *ast.BlockStmt:
			for _, b := range e.List {
				if !d.silent(b) && !d.localOnly(b) {
					return false
				}
			}
		default:
			return false
		}
		return true
	}
	return false
}

func (d *dpShape) loud(list []ast.Stmt) (out []ast.Stmt) {
	for _, s := range list {
		if !d.silent(s) {
			out = append(out, s)
		}
	}
	return
}

func (d *dpShape) rulesValue(n ast.Node, e ast.Expr) (int, bool) {
	se, ok := e.(*ast.SelectorExpr)
	if !ok || src(se.X) != "rules" {
		return 0, false
	}
	v, ok := enumLookup(d.rules, se.Sel.Name)
	if !ok {
		d.fail(n, "rules.%s is not an enumerator of rules.Result in %s", se.Sel.Name, rulesResultFile)
	}
	return v, true
}

func (d *dpShape) isLenData(e ast.Expr) bool {
	c, ok := e.(*ast.CallExpr)
	return ok && src(c.Fun) == "len" && len(c.Args) == 1 && d.isId(c.Args[0], d.data)
}

// slot: `R[I]`
func (d *dpShape) isSlot(e ast.Expr) bool {
	ix, ok := e.(*ast.IndexExpr)
	return ok && d.isId(ix.X, d.results) && d.isId(ix.Index, d.idx)
}

func (d *dpShape) isEntry(e ast.Expr) bool {
	ix, ok := e.(*ast.IndexExpr)
	return ok && d.isId(ix.X, d.data) && d.isId(ix.Index, d.idx)
}

// setSlot: `R[I] = rhs`
func (d *dpShape) setSlot(st ast.Stmt) (ast.Expr, bool) {
	as, ok := st.(*ast.AssignStmt)
	if !ok || as.Tok != token.ASSIGN || len(as.Lhs) != 1 || len(as.Rhs) != 1 || !d.isSlot(as.Lhs[0]) {
		return nil, false
	}
	return as.Rhs[0], true
}

func isBranch(st ast.Stmt, tok token.Token) bool {
	b, ok := st.(*ast.BranchStmt)
	return ok && b.Tok == tok && b.Label == nil
}

// writeAndLeave: `{ log…; [R[I] = rules.X;] LEAVE }` — returns (X, written); refused if it is anything else.
func (d *dpShape) writeAndLeave(b *ast.BlockStmt, leave token.Token, what string) (int, bool) {
	rest := d.loud(b.List)
	if len(rest) == 1 && isBranch(rest[0], leave) {
		return 0, false
	}
	if len(rest) == 2 && isBranch(rest[1], leave) {
		if rhs, ok := d.setSlot(rest[0]); ok {
			if v, ok := d.rulesValue(rest[0], rhs); ok {
				return v, true
			}
		}
	}
	d.fail(b, "%s: the block is not { log…; [results[i] = rules.X;] %s }", what, leave)
	return 0, false
}

// rulesCall: `S.rules.M(args…)`; other: a method of something else called `….rules.M` or `S.X.OnM`.
func (d *dpShape) rulesCall(e ast.Expr) (string, []ast.Expr, bool) {
	c, ok := e.(*ast.CallExpr)
	if !ok || c.Ellipsis != token.NoPos {
		return "", nil, false
	}
	m, ok := c.Fun.(*ast.SelectorExpr)
	if !ok {
		return "", nil, false
	}
	l, ok := m.X.(*ast.SelectorExpr)
	if !ok || l.Sel.Name != "rules" || !d.isId(l.X, d.k.recv) {
		return "", nil, false
	}
	return m.Sel.Name, c.Args, true
}

func countCalls(n ast.Node) (c int) {
	ast.Inspect(n, func(m ast.Node) bool {
		if call, ok := m.(*ast.CallExpr); ok {
			if se, ok := call.Fun.(*ast.SelectorExpr); ok && strings.HasPrefix(se.Sel.Name, "On") {
				c++
			}
		}
		return true
	})
	return c
}

func (d *dpShape) enumName(v int) string {
	for _, e := range d.rules {
		if e.val == v {
			return "rules." + e.name
		}
	}
	return fmt.Sprintf("rules.Result(%d)", v)
}

// arm: the statements of one case clause.
func (d *dpShape) arm(cc *ast.CaseClause) dpArm {
	var a dpArm
	what := "the default arm"
	if cc.List != nil {
		if len(cc.List) != 1 {
			d.fail(cc, "a case naming several constants")
		}
		se, ok := cc.List[0].(*ast.SelectorExpr)
		if !ok || src(se.X) != "ruler" {
			d.fail(cc, "a case that is not ruler.<Action…>: %s", src(cc.List[0]))
		}
		a.constName = se.Sel.Name
		v, ok := d.consts[a.constName]
		if !ok {
			d.fail(cc, "ruler.%s is not declared with a string literal in %s", a.constName, rrActionsFile)
		}
		if where, bad := d.assigned[a.constName]; bad {
			d.fail(cc, "ruler.%s is a variable that %s assigns to (or takes the address of)", a.constName, where)
		}
		a.value = v
		what = "the arm of ruler." + a.constName
	}
	ast.Inspect(cc, func(n ast.Node) bool {
		if b, ok := n.(*ast.BranchStmt); ok && b.Tok == token.FALLTHROUGH {
			d.fail(cc, "%s falls through", what)
		}
		return true
	})
	if n := countCalls(cc); n > 1 {
		d.fail(cc, "%s calls %d On… methods", what, n)
	}
	savedSilent := map[string]bool{}
	for k, v := range d.k.silent {
		savedSilent[k] = v
	}
	defer func() { d.k.silent = savedSilent }() // a logger defined inside the clause dies with it
	rest := d.loud(cc.Body)
	var v, ok string
	p := 0
	if len(rest) > 0 {
		if as, isAs := rest[0].(*ast.AssignStmt); isAs && len(as.Rhs) == 1 {
			if ta, isTa := as.Rhs[0].(*ast.TypeAssertExpr); isTa {
				if as.Tok != token.DEFINE || len(as.Lhs) != 2 || ta.Type == nil {
					d.fail(as, "%s: a type assertion that is not `v, ok := rulesData[i].Data.(T)`", what)
				}
				se, isSe := ta.X.(*ast.SelectorExpr)
				if !isSe || se.Sel.Name != "Data" || !d.isEntry(se.X) {
					d.fail(as, "%s asserts the type of something other than rulesData[i].Data", what)
				}
				a.typ = src(ta.Type)
				v, ok = d.fresh(as, as.Lhs[0], true), d.fresh(as, as.Lhs[1], false)
				if v == ok {
					d.fail(as, "%s: the assertion binds one name twice", what)
				}
				if len(rest) < 2 {
					d.fail(as, "%s does not test the assertion", what)
				}
				x, isIf := plainIf(rest[1])
				un, isUn := ast.Expr(nil), false
				if isIf {
					var u *ast.UnaryExpr
					if u, isUn = x.Cond.(*ast.UnaryExpr); isUn {
						un = u.X
						isUn = u.Op == token.NOT && d.isId(un, ok)
					}
				}
				if !isIf || !isUn {
					d.fail(rest[1], "%s: the assertion is not followed by `if !ok { … }`", what)
				}
				val, written := d.writeAndLeave(x.Body, token.CONTINUE, what+", type mismatch")
				if !written {
					d.fail(x, "%s: a type mismatch leaves results[i] unwritten", what)
				}
				a.mismatch = val
				p = 2
			}
		}
	}
	for _, s := range rest[p:] {
		ast.Inspect(s, func(n ast.Node) bool {
			if _, isTa := n.(*ast.TypeAssertExpr); isTa {
				d.fail(s, "%s asserts two types (or asserts one after its first statement)", what)
			}
			return true
		})
	}
	if len(rest) != p+1 {
		d.fail(cc, "%s is not [assertion; mismatch test;] one assignment to results[i]", what)
	}
	rhs, isSet := d.setSlot(rest[p])
	if !isSet {
		d.fail(rest[p], "%s: not an assignment to results[i]", what)
	}
	if m, args, isCall := d.rulesCall(rhs); isCall {
		if v == "" {
			d.fail(rest[p], "%s hands unasserted data to a rule", what)
		}
		if len(args) != 3 || !d.isId(args[0], d.ctx) || !d.isId(args[1], d.meta) || !d.isId(args[2], v) {
			d.fail(rest[p], "%s: the rule is not called with (ctx, metadata, <the asserted data>)", what)
		}
		a.method = m
		d.rulesCalls++
		a.text = fmt.Sprintf("data, ok := rulesData[i].Data.(%s); if !ok { results[i] = %s; continue }; results[i] = s.rules.%s(ctx, metadata, data)", a.typ, d.enumName(a.mismatch), m)
	} else if val, isConst := d.rulesValue(rest[p], rhs); isConst {
		a.constVal, a.constText = val, src(rhs)
		a.text = "results[i] = " + src(rhs)
		if v != "" {
			a.text = fmt.Sprintf("data, ok := rulesData[i].Data.(%s); if !ok { results[i] = %s; continue }; ", a.typ, d.enumName(a.mismatch)) + a.text
		}
	} else {
		if countCalls(rhs) > 0 {
			d.fail(rest[p], "%s calls a method on something other than %s.rules", what, d.k.recv)
		}
		d.fail(rest[p], "%s: results[i] is given neither a rule's answer nor an enumerator", what)
	}
	if cc.List == nil {
		a.text = "default: " + a.text
	} else {
		a.text = "case ruler." + a.constName + ": " + a.text
	}
	return a
}

// entry: the body of the extent loop.
func (d *dpShape) entry(body *ast.BlockStmt) {
	list := body.List
	p := 0
	// 1. the nil test, before anything reads D
	for ; p < len(list); p++ {
		if d.silent(list[p]) && countIdent(list[p], d.data) == 0 {
			continue
		}
		break
	}
	nilOK := false
	if p < len(list) {
		if x, ok := plainIf(list[p]); ok {
			if be, ok := x.Cond.(*ast.BinaryExpr); ok && be.Op == token.EQL && d.isEntry(be.X) && src(be.Y) == "nil" {
				v, written := d.writeAndLeave(x.Body, token.CONTINUE, "the nil-entry test")
				d.nilVal = d.initVal
				d.texts = append(d.texts, "if rulesData[i] == nil { continue }")
				if written {
					d.nilVal = v
					d.texts[len(d.texts)-1] = "if rulesData[i] == nil { results[i] = " + d.enumName(v) + "; continue }"
				}
				nilOK = true
				p++
			}
		}
	}
	if !nilOK {
		d.fail(body, "the entry loop does not start with `if rulesData[i] == nil { …; continue }`")
	}
	next := func() ast.Stmt {
		for ; p < len(list); p++ {
			if d.silent(list[p]) || d.localOnly(list[p]) {
				continue
			}
			s := list[p]
			p++
			return s
		}
		return nil
	}
	// 2. the metadata
	s := next()
	as, ok := s.(*ast.AssignStmt)
	if !ok || as.Tok != token.DEFINE || len(as.Lhs) != 2 || len(as.Rhs) != 1 {
		d.fail(body, "after the nil test: not `metadata, err := %s.assembleMetadata(…)`", d.k.recv)
	}
	call, ok := as.Rhs[0].(*ast.CallExpr)
	if !ok || call.Ellipsis != token.NoPos {
		d.fail(s, "not a call of assembleMetadata")
	}
	if se, ok := call.Fun.(*ast.SelectorExpr); !ok || se.Sel.Name != "assembleMetadata" || !d.isId(se.X, d.k.recv) {
		d.fail(s, "not a call of %s.assembleMetadata", d.k.recv)
	}
	for _, a := range call.Args {
		if !d.pure(a) {
			d.fail(s, "assembleMetadata is handed a computed argument")
		}
	}
	d.meta = d.fresh(s, as.Lhs[0], false)
	errName := ""
	if src(as.Lhs[1]) != "_" {
		errName = d.fresh(s, as.Lhs[1], false)
	}
	s = next()
	if x, ok := plainIf(s); ok && errName != "" && src(x.Cond) == errName+" != nil" {
		if rest := d.loud(x.Body.List); len(rest) == 0 {
			d.texts = append(d.texts, "metadata, err := s.assembleMetadata(…); if err != nil { (log only) }")
		} else {
			v, written := d.writeAndLeave(x.Body, token.CONTINUE, "the metadata-error test")
			if !written {
				d.fail(x, "a metadata error leaves results[i] unwritten")
			}
			d.metaGuard, d.metaVal = true, v
			d.texts = append(d.texts, "metadata, err := s.assembleMetadata(…); if err != nil { results[i] = "+d.enumName(v)+"; continue }")
		}
		s = next()
	} else {
		d.texts = append(d.texts, "metadata, … := s.assembleMetadata(…) (its error decides nothing)")
	}
	// 3. the switch
	sw, ok := s.(*ast.SwitchStmt)
	if !ok || sw.Init != nil || !d.isId(sw.Tag, d.action) {
		d.fail(body, "after the metadata: not `switch action { … }`")
	}
	d.texts = append(d.texts, "switch action")
	for _, c := range sw.Body.List {
		cc := c.(*ast.CaseClause)
		a := d.arm(cc)
		d.texts = append(d.texts, a.text)
		if cc.List == nil {
			if d.def != nil {
				d.fail(cc, "two default arms")
			}
			d.def = &a
		} else {
			d.arms = append(d.arms, a)
		}
	}
	// 4. the conversion
	for s = next(); s != nil; s = next() {
		x, ok := plainIf(s)
		if !ok || len(d.conv) > 0 {
			d.fail(s, "unsupported statement after the switch")
		}
		be, ok := x.Cond.(*ast.BinaryExpr)
		if !ok || be.Op != token.EQL || !d.isSlot(be.X) {
			d.fail(s, "after the switch: not `if results[i] == rules.X { …; results[i] = rules.Y }`")
		}
		from, ok := d.rulesValue(s, be.Y)
		rest := d.loud(x.Body.List)
		if !ok || len(rest) != 1 {
			d.fail(s, "after the switch: not `if results[i] == rules.X { …; results[i] = rules.Y }`")
		}
		rhs, isSet := d.setSlot(rest[0])
		if !isSet {
			d.fail(s, "after the switch: not `if results[i] == rules.X { …; results[i] = rules.Y }`")
		}
		to, ok := d.rulesValue(s, rhs)
		if !ok {
			d.fail(s, "after the switch: not `if results[i] == rules.X { …; results[i] = rules.Y }`")
		}
		d.conv = append(d.conv, [2]int{from, to})
		d.texts = append(d.texts, "if results[i] == "+src(be.Y)+" { results[i] = "+src(rhs)+" }")
	}
}

// scatter: `_, E := util.Scatter(len(D), func(OFF int, ENT int, _ *sync.RWMutex) (any, error) { for I := OFF; I < OFF+ENT; I++ { … }; return <pure>, nil })`;
// returns E ("" = `_`) and the loop body.
func (d *dpShape) scatter(s ast.Stmt) (string, *ast.BlockStmt) {
	as, ok := s.(*ast.AssignStmt)
	if !ok || len(as.Lhs) != 2 || len(as.Rhs) != 1 || src(as.Lhs[0]) != "_" {
		d.fail(s, "not `_, err := util.Scatter(…)`")
	}
	call, ok := as.Rhs[0].(*ast.CallExpr)
	if !ok || src(call.Fun) != "util.Scatter" || len(call.Args) != 2 || call.Ellipsis != token.NoPos || !d.isLenData(call.Args[0]) {
		d.fail(s, "not `util.Scatter(len(rulesData), func…)`")
	}
	fl, ok := call.Args[1].(*ast.FuncLit)
	if !ok {
		d.fail(s, "util.Scatter is not handed a function literal")
	}
	var ps []gparam
	for _, f := range fl.Type.Params.List {
		for _, n := range f.Names {
			ps = append(ps, gparam{n.Name, src(f.Type)})
		}
	}
	if len(ps) != 3 || ps[0].typ != "int" || ps[1].typ != "int" || ps[2].name != "_" {
		d.fail(fl, "the work function is not func(offset int, entries int, _ *sync.RWMutex)")
	}
	d.off, d.ent = "", ""
	off, ent := d.fresh(fl, ast.NewIdent(ps[0].name), false), d.fresh(fl, ast.NewIdent(ps[1].name), false)
	if off == ent {
		d.fail(fl, "the work function's parameters have one name")
	}
	d.off, d.ent = off, ent
	rest := d.loud(fl.Body.List)
	if len(rest) != 2 {
		d.fail(fl, "the work function is not one loop and a return")
	}
	loop, ok := rest[0].(*ast.ForStmt)
	if !ok || loop.Init == nil || loop.Cond == nil || loop.Post == nil {
		d.fail(rest[0], "the work function does not start with `for i := offset; i < offset+entries; i++`")
	}
	init, ok := loop.Init.(*ast.AssignStmt)
	if !ok || init.Tok != token.DEFINE || len(init.Lhs) != 1 || len(init.Rhs) != 1 || !d.isId(init.Rhs[0], off) {
		d.fail(loop, "the loop does not start at the extent's offset")
	}
	d.idx = ""
	idx := d.fresh(loop, init.Lhs[0], false)
	d.idx = idx
	cond, ok := loop.Cond.(*ast.BinaryExpr)
	okc := ok && cond.Op == token.LSS && d.isId(cond.X, idx)
	if okc {
		sum, ok := cond.Y.(*ast.BinaryExpr)
		okc = ok && sum.Op == token.ADD && d.isId(sum.X, off) && d.isId(sum.Y, ent)
	}
	post, ok := loop.Post.(*ast.IncDecStmt)
	if !okc || !ok || post.Tok != token.INC || !d.isId(post.X, idx) {
		d.fail(loop, "the loop is not `for i := offset; i < offset+entries; i++`")
	}
	ret, ok := rest[1].(*ast.ReturnStmt)
	if !ok || len(ret.Results) != 2 || src(ret.Results[1]) != "nil" || !pureExpr(ret.Results[0]) {
		d.fail(rest[1], "the work function does not end in `return <a fresh value>, nil`")
	}
	// nothing inside the loop may change the loop variable, the extent, or leave the function
	ast.Inspect(loop.Body, func(n ast.Node) bool {
		switch x := n.(type) {
		case *ast.ReturnStmt, *ast.GoStmt, *ast.DeferStmt, *ast.LabeledStmt, *ast.SelectStmt, *ast.FuncLit:
			d.fail(n, "return / go / defer / label / select / function literal inside the entry loop")
		case *ast.BranchStmt:
			if x.Label != nil || x.Tok == token.GOTO {
				d.fail(n, "labelled branch inside the entry loop")
			}
		case *ast.AssignStmt:
			for _, l := range x.Lhs {
				if d.isId(l, idx) || d.isId(l, off) || d.isId(l, ent) {
					d.fail(n, "the loop variable or the extent is assigned to")
				}
			}
		case *ast.IncDecStmt:
			if d.isId(x.X, idx) || d.isId(x.X, off) || d.isId(x.X, ent) {
				d.fail(n, "the loop variable or the extent is assigned to")
			}
		case *ast.UnaryExpr:
			if x.Op == token.AND {
				d.fail(n, "an address is taken inside the entry loop")
			}
		}
		return true
	})
	errName := ""
	if src(as.Lhs[1]) != "_" {
		if as.Tok != token.DEFINE {
			d.fail(s, "the scatter error is not a new local")
		}
		errName = d.fresh(s, as.Lhs[1], false)
	}
	return errName, loop.Body
}

// resultsInit: `R := make([]rules.Result, len(D))` [`for I := range D|R { R[I] = rules.Y }`]; returns how many statements it took.
func (d *dpShape) resultsInit(list []ast.Stmt) int {
	if len(list) == 0 {
		d.fail(nil, "no result list")
	}
	name, ok := makeDefine(list[0], "[]rules.Result")
	if !ok || !d.isLenData(list[0].(*ast.AssignStmt).Rhs[0].(*ast.CallExpr).Args[1]) {
		d.fail(list[0], "not `results := make([]rules.Result, len(rulesData))`")
	}
	if v, ok := enumLookupByVal(d.rules, 0); !ok {
		d.fail(list[0], "rules.Result has no enumerator for its zero value")
	} else {
		_ = v
	}
	d.results = d.fresh(list[0], ast.NewIdent(name), false)
	d.initVal = 0
	if len(list) > 1 {
		if x, ok := list[1].(*ast.RangeStmt); ok && x.Tok == token.DEFINE && x.Value == nil && x.Key != nil && (d.isId(x.X, d.data) || d.isId(x.X, d.results)) && len(x.Body.List) == 1 {
			d.idx = ""
			d.idx = d.fresh(x, x.Key, false)
			rhs, isSet := d.setSlot(x.Body.List[0])
			d.idx = ""
			if isSet {
				if v, ok := d.rulesValue(x, rhs); ok {
					d.initVal = v
					return 2
				}
			}
			d.fail(x, "the loop after the creation of the result list is not `for i := range rulesData { results[i] = rules.X }`")
		}
	}
	return 1
}

func enumLookupByVal(vals []enumVal, v int) (string, bool) {
	for _, e := range vals {
		if e.val == v {
			return e.name, true
		}
	}
	return "", false
}

func dpCommon(k *ktrans, fd *ast.FuncDecl, want []string) *dpShape {
	d := &dpShape{k: k, locals: map[string]bool{}}
	if k.recv == "" || src(fd.Recv.List[0].Type) != "*Service" || resultTypes(fd) != "[]rules.Result" {
		k.fail(nil, "%s is not a method of *Service returning []rules.Result", fd.Name.Name)
	}
	ps := flatParams(fd)
	if len(ps) != len(want) {
		k.fail(nil, "%s does not take %d parameters", fd.Name.Name, len(want))
	}
	for i, p := range ps {
		if p.typ != want[i] || p.name == "_" {
			k.fail(nil, "parameter %d of %s is not a named %s", i+1, fd.Name.Name, want[i])
		}
		for _, n := range append([]string{k.recv}, dpReserved...) {
			if p.name == n {
				k.fail(nil, "a parameter of %s hides %s", fd.Name.Name, n)
			}
		}
	}
	var fail string
	if d.rules, fail = enumValues(k.repo, rulesResultFile, "Result"); fail != "" {
		k.fail(nil, "rules.Result: %s", fail)
	}
	d.consts, d.assigned = stringConsts(k.repo, rrActionsFile)
	nlit := 0
	ast.Inspect(fd.Body, func(n ast.Node) bool {
		switch n.(type) {
		case *ast.GoStmt, *ast.DeferStmt, *ast.LabeledStmt, *ast.SelectStmt:
			k.fail(n, "go / defer / label / select")
		case *ast.FuncLit:
			nlit++
		}
		return true
	})
	if nlit != 1 {
		k.fail(nil, "%s contains %d function literals (expected: the one handed to util.Scatter)", fd.Name.Name, nlit)
	}
	return d
}

func dpRecognise(k *ktrans, fd *ast.FuncDecl) *dpShape {
	d := dpCommon(k, fd, []string{"context.Context", "*checker.Credentials", "string", "[]*ruler.RulesData"})
	ps := flatParams(fd)
	d.ctx, d.creds, d.action, d.data = ps[0].name, ps[1].name, ps[2].name, ps[3].name
	list := d.loud(fd.Body.List)
	// the batch shortcut (recognised in detail by runRulesPathGen)
	if len(list) < 4 {
		k.fail(nil, "%s is too short to hold the per-entry path", fd.Name.Name)
	}
	head, ok := plainIf(list[0])
	if !ok || len(head.Body.List) != 1 {
		k.fail(list[0], "the first statement is not the choice of the path")
	}
	if _, ok := head.Body.List[0].(*ast.ReturnStmt); !ok {
		k.fail(list[0], "the first statement is not the choice of the path")
	}
	list = list[1:]
	list = list[d.resultsInit(list):]
	if len(list) < 2 {
		k.fail(nil, "no scatter call")
	}
	errName, body := d.scatter(list[0])
	list = list[1:]
	if x, ok := plainIf(list[0]); ok && errName != "" && src(x.Cond) == errName+" != nil" {
		if len(d.loud(x.Body.List)) != 0 {
			k.fail(x, "the scatter error is more than logged")
		}
		list = list[1:]
	}
	if len(list) != 1 {
		k.fail(nil, "the scatter call is not followed by [a logged error and] `return results`")
	}
	ret, ok := list[0].(*ast.ReturnStmt)
	if !ok || len(ret.Results) != 1 || !d.isId(ret.Results[0], d.results) {
		k.fail(list[0], "the function does not end in `return results`")
	}
	d.entry(body)
	// no rules method is reached in any other way
	if n := mentionsSelector(fd.Body, "rules"); n != d.rulesCalls {
		k.fail(nil, "%s mentions %s.rules %d times, %d of them the recognised calls", fd.Name.Name, k.recv, n, d.rulesCalls)
	}
	// D is rebound only by an arm's assertion (checked there); R, the action, … nowhere
	defs := definitions(fd.Body)
	for _, n := range []string{k.recv, d.ctx, d.creds, d.action, d.results, d.meta} {
		lim := 0
		if n == d.results || n == d.meta {
			lim = 1
		}
		if len(defs[n]) > lim {
			k.fail(nil, "%s rebinds %s", fd.Name.Name, n)
		}
	}
	return d
}

// ---- emission ------------------------------------------------------------------------------------

func leanTriples(arms []dpArm) string {
	var q []string
	for _, a := range arms {
		typ, m := a.typ, a.method
		if typ == "" {
			typ = "(no assertion)"
		}
		if m == "" {
			m = "(no rule: " + a.constText + ")"
		}
		q = append(q, fmt.Sprintf("(%s, %s, %s)", leanStr(a.value), leanStr(typ), leanStr(m)))
	}
	return "[\n  " + strings.Join(q, ",\n  ") + "]"
}

func (d *dpShape) armBody(a *dpArm) string {
	val := "(ruleVerdict, false)"
	if a.method == "" {
		val = fmt.Sprintf("(%d, false)", a.constVal)
	}
	if a.typ != "" {
		return fmt.Sprintf("if !typeOk then (%d, true) else %s", a.mismatch, val)
	}
	return val
}

func transDispatch(k *ktrans, fd *ast.FuncDecl) string {
	d := dpRecognise(k, fd)
	var b strings.Builder
	k.docHead(&b, "the `switch action` of the per-entry path, one line per `case` IN SOURCE ORDER: the VALUE of the action constant compared with\n"+
		"    ("+rrActionsFile+": declared with a string literal and assigned to nowhere in the repository's non-test files), the type `rulesData[i].Data` is\n"+
		"    asserted to have, as written, and the method of `s.rules` whose answer becomes `results[i]`.  Every arm makes at most one assertion (of\n"+
		"    `rulesData[i].Data`), calls at most one method, of `s.rules`, with `(ctx, metadata, <the asserted value>)`, and does not fall through;\n"+
		"    `s.rules` is mentioned nowhere else in the function")
	fmt.Fprintf(&b, "def dispatchTableGen : List (String × String × String) := %s\n\n", leanTriples(d.arms))
	def := fmt.Sprintf("(%d, false)", d.initVal)
	defDoc := "there is no `default` arm: `results[i]` stays as initialised"
	if d.def != nil {
		def = d.armBody(d.def)
		defDoc = "the `default` arm"
	}
	fmt.Fprintf(&b, "/-- … the arms themselves: the value `results[i]` has when the arm is left, and whether it is left by `continue` (`true`: the statements after\n"+
		"    the switch are skipped).  `some k`: the k-th line of `dispatchTableGen`; anything else: %s.\n"+
		"    typeOk: the arm's type assertion holds; ruleVerdict: what the arm's rules method returns (`rulesResultValuesGen`) -/\n"+
		"def dispatchArmGen (actionIdx : Option Nat) (typeOk : Bool) (ruleVerdict : Nat) : Nat × Bool :=\n  match actionIdx with\n", defDoc)
	for i := range d.arms {
		fmt.Fprintf(&b, "  | some %d => %s\n", i, d.armBody(&d.arms[i]))
	}
	fmt.Fprintf(&b, "  | _ => %s\n\n", def)
	conv := "v"
	convDoc := "there is none"
	if len(d.conv) == 1 {
		conv = fmt.Sprintf("if v = %d then %d else v", d.conv[0][0], d.conv[0][1])
		convDoc = fmt.Sprintf("`if results[i] == %s { results[i] = %s }`", d.enumName(d.conv[0][0]), d.enumName(d.conv[0][1]))
	}
	meta := ""
	metaDoc := "a metadata error is not tested for"
	if d.metaGuard {
		meta = fmt.Sprintf("  else if metadataErr then %d\n", d.metaVal)
		metaDoc = "metadataErr: `s.assembleMetadata(…)` returns an error"
	}
	fmt.Fprintf(&b, "/-- … the `rules.Result` value (`rulesResultValuesGen`) position i of the returned list holds, for ONE entry; the list is created with every\n"+
		"    position %d and each position is visited once (`util.Scatter` over `len(rulesData)`, extents `for i := offset; i < offset+entries; i++`).\n"+
		"    entryNil: `rulesData[i] == nil`; %s; the conversion after the switch: %s.  Tests in source order -/\n"+
		"def dispatchEntryGen (entryNil metadataErr : Bool) (actionIdx : Option Nat) (typeOk : Bool) (ruleVerdict : Nat) : Nat :=\n"+
		"  if entryNil then %d\n%s  else\n    match dispatchArmGen actionIdx typeOk ruleVerdict with\n    | (v, true) => v\n    | (v, false) => %s\n\n",
		d.initVal, metaDoc, convDoc, d.nilVal, meta, conv)
	k.emitGuardTexts(&b, d.texts)
	return b.String()
}

// ---- the batch shortcut ------------------------------------------------------------------------------

func transDispatchBatch(k *ktrans, fd *ast.FuncDecl) string {
	d := dpCommon(k, fd, []string{"context.Context", "*checker.Credentials", "[]*ruler.RulesData"})
	ps := flatParams(fd)
	d.ctx, d.creds, d.data = ps[0].name, ps[1].name, ps[2].name
	list := d.loud(fd.Body.List)
	list = list[d.resultsInit(list):]
	// metadatas := make([]*rules.ReqMetadata, len(D)); reqData := make([]*rules.T, len(D))
	if len(list) < 5 {
		k.fail(nil, "%s is too short", fd.Name.Name)
	}
	metas, ok := makeDefine(list[0], "[]*rules.ReqMetadata")
	if !ok || !d.isLenData(list[0].(*ast.AssignStmt).Rhs[0].(*ast.CallExpr).Args[1]) {
		k.fail(list[0], "not `metadatas := make([]*rules.ReqMetadata, len(rulesData))`")
	}
	d.meta = d.fresh(list[0], ast.NewIdent(metas), false)
	qas, ok := list[1].(*ast.AssignStmt)
	var qtyp string
	var req string
	if ok && qas.Tok == token.DEFINE && len(qas.Lhs) == 1 && len(qas.Rhs) == 1 {
		if c, isCall := qas.Rhs[0].(*ast.CallExpr); isCall && src(c.Fun) == "make" && len(c.Args) == 2 && d.isLenData(c.Args[1]) {
			if at, isArr := c.Args[0].(*ast.ArrayType); isArr && at.Len == nil {
				qtyp = src(at.Elt)
				req = d.fresh(qas, qas.Lhs[0], false)
			}
		}
	}
	if req == "" || req == d.meta {
		k.fail(list[1], "not `reqData := make([]T, len(rulesData))`")
	}
	errName, body := d.scatter(list[2])
	list = list[3:]
	if x, ok := plainIf(list[0]); ok && errName != "" && src(x.Cond) == errName+" != nil" {
		if len(d.loud(x.Body.List)) != 0 {
			k.fail(x, "the scatter error is more than logged")
		}
		list = list[1:]
	}
	var facts, texts []string
	facts = append(facts, fmt.Sprintf("results: created len(rulesData) long, every position %s", d.enumName(d.initVal)))
	// the preparation loop
	slotIs := func(e ast.Expr, arr string) bool {
		ix, ok := e.(*ast.IndexExpr)
		return ok && d.isId(ix.X, arr) && d.isId(ix.Index, d.idx)
	}
	var innerErr, dataVar, okVar string
	stage := 0 // 1: metadata assigned, 2: its error tested, 3: asserted, 4: mismatch tested, 5: stored
	for _, s := range body.List {
		if d.silent(s) || d.localOnly(s) {
			continue
		}
		switch x := s.(type) {
		case *ast.DeclStmt:
			// var err error
			gd := x.Decl.(*ast.GenDecl)
			if gd.Tok == token.VAR && len(gd.Specs) == 1 {
				vs := gd.Specs[0].(*ast.ValueSpec)
				if len(vs.Names) == 1 && len(vs.Values) == 0 && src(vs.Type) == "error" && innerErr == "" {
					innerErr = d.fresh(s, vs.Names[0], false)
					continue
				}
			}
		case *ast.IfStmt:
			if x.Init != nil || x.Else != nil {
				break
			}
			if be, isBin := x.Cond.(*ast.BinaryExpr); isBin && be.Op == token.EQL && src(be.Y) == `""` && stage == 0 {
				if se, isSel := be.X.(*ast.SelectorExpr); isSel && se.Sel.Name == "AccountName" && d.isEntry(se.X) {
					v, written := d.writeAndLeave(x.Body, token.BREAK, "the missing-account test")
					if !written {
						k.fail(x, "a missing account leaves results[i] unwritten")
					}
					f := fmt.Sprintf("missing account: if rulesData[i].AccountName == \"\" { results[i] = %s; break }", d.enumName(v))
					facts, texts = append(facts, f), append(texts, f)
					continue
				}
			}
			if stage == 1 && innerErr != "" && src(x.Cond) == innerErr+" != nil" {
				v, written := d.writeAndLeave(x.Body, token.BREAK, "the metadata-error test")
				if !written {
					k.fail(x, "a metadata error leaves results[i] unwritten")
				}
				f := fmt.Sprintf("metadata error: metadatas[i], err = s.assembleMetadata(…); if err != nil { results[i] = %s; break }", d.enumName(v))
				facts, texts = append(facts, f), append(texts, f)
				stage = 2
				continue
			}
			if u, isUn := x.Cond.(*ast.UnaryExpr); isUn && u.Op == token.NOT && stage == 3 && d.isId(u.X, okVar) {
				v, written := d.writeAndLeave(x.Body, token.BREAK, "the type-mismatch test")
				if !written {
					k.fail(x, "a type mismatch leaves results[i] unwritten")
				}
				f := fmt.Sprintf("type mismatch: data, ok := rulesData[i].Data.(%s); if !ok { results[i] = %s; break }", qtyp, d.enumName(v))
				facts, texts = append(facts, f), append(texts, f)
				stage = 4
				continue
			}
		case *ast.AssignStmt:
			if len(x.Rhs) != 1 {
				break
			}
			if call, isCall := x.Rhs[0].(*ast.CallExpr); isCall && stage == 0 && x.Tok == token.ASSIGN && len(x.Lhs) == 2 &&
				slotIs(x.Lhs[0], d.meta) && d.isId(x.Lhs[1], innerErr) {
				se, isSel := call.Fun.(*ast.SelectorExpr)
				pureArgs := call.Ellipsis == token.NoPos
				for _, a := range call.Args {
					pureArgs = pureArgs && d.pure(a)
				}
				if isSel && se.Sel.Name == "assembleMetadata" && d.isId(se.X, k.recv) && pureArgs {
					stage = 1
					continue
				}
			}
			if ta, isTa := x.Rhs[0].(*ast.TypeAssertExpr); isTa && stage == 2 && x.Tok == token.DEFINE && len(x.Lhs) == 2 && ta.Type != nil {
				se, isSel := ta.X.(*ast.SelectorExpr)
				if isSel && se.Sel.Name == "Data" && d.isEntry(se.X) {
					if src(ta.Type) != qtyp {
						k.fail(s, "the asserted type %s is not the element type %s of the list handed to the rule", src(ta.Type), qtyp)
					}
					dataVar, okVar = d.fresh(s, x.Lhs[0], false), d.fresh(s, x.Lhs[1], false)
					stage = 3
					continue
				}
			}
			if stage == 4 && x.Tok == token.ASSIGN && len(x.Lhs) == 1 && slotIs(x.Lhs[0], req) && d.isId(x.Rhs[0], dataVar) && dataVar != okVar {
				stage = 5
				continue
			}
		}
		k.fail(s, "unsupported statement in the preparation loop (stage %d)", stage)
	}
	if stage != 5 {
		k.fail(body, "the preparation loop does not end in `reqData[i] = data` (stage %d)", stage)
	}
	facts = append(facts, fmt.Sprintf("data: reqData := make([]%s, len(rulesData)); reqData[i] = data (the value asserted to be %s)", qtyp, qtyp),
		"break: leaves the loop over the extent — the later entries of that extent are not examined and keep "+d.enumName(d.initVal))
	texts = append(texts, "reqData[i] = data")
	// for I := range R { if R[I] == rules.X { return R } }
	if len(list) != 2 {
		k.fail(nil, "after the scatter: not the early-return loop and the rules call")
	}
	rg, ok := list[0].(*ast.RangeStmt)
	okr := ok && rg.Tok == token.DEFINE && rg.Value == nil && rg.Key != nil && (d.isId(rg.X, d.results) || d.isId(rg.X, d.data)) && len(d.loud(rg.Body.List)) == 1
	if okr {
		d.idx = ""
		d.idx = d.fresh(rg, rg.Key, false)
		x, isIf := plainIf(d.loud(rg.Body.List)[0])
		okr = isIf
		if isIf {
			be, isBin := x.Cond.(*ast.BinaryExpr)
			rest := d.loud(x.Body.List)
			okr = isBin && be.Op == token.EQL && d.isSlot(be.X) && len(rest) == 1
			if okr {
				v, isVal := d.rulesValue(x, be.Y)
				ret, isRet := rest[0].(*ast.ReturnStmt)
				okr = isVal && isRet && len(ret.Results) == 1 && d.isId(ret.Results[0], d.results)
				if okr {
					f := fmt.Sprintf("early return: for i := range results { if results[i] == %s { return results } } (the rule is not called; the other positions are returned as they are)", d.enumName(v))
					facts, texts = append(facts, f), append(texts, f)
				}
			}
		}
	}
	if !okr {
		k.fail(list[0], "after the scatter: not `for i := range results { if results[i] == rules.X { return results } }`")
	}
	ret, ok := list[1].(*ast.ReturnStmt)
	if !ok || len(ret.Results) != 1 {
		k.fail(list[1], "the function does not end in the rules call")
	}
	m, args, ok := d.rulesCall(ret.Results[0])
	if !ok {
		k.fail(list[1], "the function does not end in `return %s.rules.M(…)`", k.recv)
	}
	if len(args) != 3 || !d.isId(args[0], d.ctx) || !d.isId(args[1], d.meta) || !d.isId(args[2], req) {
		k.fail(list[1], "the rule is not called with (ctx, metadatas, reqData)")
	}
	if n := mentionsSelector(fd.Body, "rules"); n != 1 {
		k.fail(nil, "%s mentions %s.rules %d times", fd.Name.Name, k.recv, n)
	}
	if n := countCalls(fd.Body); n != 1 {
		k.fail(nil, "%s calls %d On… methods", fd.Name.Name, n)
	}
	f := fmt.Sprintf("rule: return s.rules.%s(ctx, metadatas, reqData)", m)
	facts = append(facts, f, "unknown: the list the rule returns is returned as it is — "+d.enumName(0)+" in it is NOT converted")
	texts = append(texts, f)
	defs := definitions(fd.Body)
	for _, n := range []string{k.recv, d.ctx, d.creds, d.data, d.results, d.meta, req} {
		lim := 0
		if n == d.results || n == d.meta || n == req {
			lim = 1
		}
		if len(defs[n]) > lim {
			k.fail(nil, "%s rebinds %s", fd.Name.Name, n)
		}
	}
	var b strings.Builder
	k.docHead(&b, "what the batch shortcut does, as canonical facts (locals printed as their roles): how the result list starts, what each refusal in the\n"+
		"    preparation loop writes and how it leaves, what is handed to which method of `s.rules` (the only mention of `s.rules`), and what is done with its answer")
	fmt.Fprintf(&b, "def dispatchBatchGen : List String := [\n")
	for i, f := range facts {
		sep := ","
		if i == len(facts)-1 {
			sep = ""
		}
		fmt.Fprintf(&b, "  %s%s\n", leanStr(f), sep)
	}
	b.WriteString("]\n\n")
	k.emitGuardTexts(&b, texts)
	return b.String()
}
