// lister.go — P18: the lister's `ListAccounts` (services/lister/standard/listaccounts.go), read as
//
//	listAnchorGen   the string handed to regexp.Compile, as a function of the account part of the path
//	listPathGen     what happens to ONE path (a decision tree over the outcomes of the opaque calls, leaves 0 / 1 / 2)
//	listAccountGen  whether ONE account of the wallet is appended (a decision tree, leaves true / false)
//	listShapeGen    canonical string facts (what is handed to which call, the loops, the result slice)
//
// Locals are recognised by ROLE (the call that produced them), never by name.  The function must be
//
//	func (s *Service) ListAccounts(ctx context.Context, credentials *checker.Credentials, paths []string) (core.Result, []e2wtypes.Account)
//
// and its body, apart from SILENT statements (see silent), must be, in this order,
//
//	[if credentials == nil { …silent…; return core.ResultX, nil }]
//	A := make([]e2wtypes.Account, 0)
//	for _, P := range paths { PATH BODY }
//	return core.ResultX, A
//
// PATH BODY (translated by continuation, as precheck.go does; anything else ⇒ kernelUntranslatable_…):
//
//	W, AP, E := e2wallet.WalletAndAccountNames(P)                 var R *regexp.Regexp
//	AP = <string expr>      if <HasPrefix/HasSuffix condition on AP> { AP = <string expr> }        (the anchoring; a let chain)
//	R, E = regexp.Compile(AP)            WL, E := s.fetcher.FetchWallet(ctx, P)            WAS, E := s.fetcher.FetchAccounts(ctx, <string expr>)
//	if C { … } [else …]                  (no init; C over E ==/!= nil, W / AP ==/!= "" (AP: before it is reassigned), R ==/!= nil, !, &&, ||)
//	continue                             (leaf 0; `break`, `return`, labels, goto: refused)
//	for _, X := range WAS { ACCOUNT BODY }     (leaf 1 / 2 by whether R is nil; only silent statements may follow it)
//
// ACCOUNT BODY:
//
//	if C { … } [else …]                  (C also over R.MatchString(<string expr>) — only where R is known to be non-nil —,
//	                                      RES ==/!= core.ResultSucceeded, OK, RS[0] ==/!= rules.APPROVED)
//	N := <string expr>                   RES := s.checkAccess(ctx, credentials, <string expr>, ruler.ActionY)
//	PP, OK := X.(e2wtypes.AccountPublicKeyProvider)
//	var PK []byte     PK = <getter chain>     D := <composite literal>          (data handed to the rules only)
//	if Q, OK2 := X.(<another type>); OK2 { PK = <getter chain> }                (data only)
//	RS := s.ruler.RunRules(ctx, credentials, ruler.ActionY, <data>)
//	A = append(A, X)                     (at most once on a path)
//	continue                             (`break`, `return`: refused)
package main

import (
	"fmt"
	"go/ast"
	"go/token"
	"strconv"
	"strings"
)

const lsFile = "services/lister/standard/listaccounts.go"

var lsPkgs = []string{"core", "rules", "ruler", "checker", "context", "fmt", "regexp", "strings", "time", "e2wallet", "e2wtypes", "otel",
	"attribute", "trace", "nil", "true", "false", "len", "append", "make", "string", "error", "byte", "iota"}

type lsKind int

const (
	lsObj     lsKind = iota // opaque value with a role (ctx, credentials, paths, path, wallet, walletAccounts, walletAccount, providers, accounts)
	lsErr                   // error; lean = Bool term "is not nil"
	lsStr                   // string; canon = canonical Go text; slean = Lean String term ("" = none); empty = Bool term for `== ""` ("" = not readable)
	lsBool                  // bool; lean
	lsRes                   // the core.Result of checkAccess; lean = Bool term "is core.ResultSucceeded"
	lsRegex                 // *regexp.Regexp; lean = Bool term "is not nil"
	lsData                  // data that only flows to the rules; canon
	lsResults               // what RunRules returned
	lsSilent                // counters, times: only readable by log / span / monitor calls
)

type lsVal struct {
	kind                            lsKind
	role, lean, empty, canon, slean string
	depth                           int
}

type lsState struct {
	env      map[string]lsVal
	known    map[string]bool // Bool inputs whose value is fixed on this path
	done     map[string]bool // opaque calls made on this path
	lets     []string        // the anchoring so far, as Lean let bindings
	appended bool
	depth    int
	account  bool // inside the account loop
}

func (s lsState) fork() lsState {
	c := s
	c.env, c.known, c.done = map[string]lsVal{}, map[string]bool{}, map[string]bool{}
	for n, v := range s.env {
		c.env[n] = v
	}
	for n, v := range s.known {
		c.known[n] = v
	}
	for n := range s.done {
		c.done[n] = true
	}
	c.lets = append([]string{}, s.lets...)
	return c
}

type lsTrans struct {
	k          *ktrans
	consts     map[string]string
	assigned   map[string]string
	facts      map[string]string
	sil        map[ast.Stmt]bool
	anchor     string // body of listAnchorGen
	anchorSet  bool
	anchorStmt map[ast.Stmt]bool
	nameFn     string // the name handed to checkAccess as a Lean function of walletName, accountName
	action     string
	pathTree   *pnode
	acctTree   *pnode
	pathLoop   *ast.RangeStmt
	acctLoop   *ast.RangeStmt
	top        []string // texts of the top-level statements
}

var lsFactKeys = []string{"nil credentials", "result slice", "path loop", "names", "wallet", "accounts of", "account loop",
	"regex matched against", "checkAccess name", "checkAccess action", "RunRules action", "RunRules data", "append", "finally"}

func (l *lsTrans) fail(n ast.Node, f string, a ...interface{}) { l.k.fail(n, f, a...) }

func (l *lsTrans) fact(n ast.Node, key, val string) {
	if old, ok := l.facts[key]; ok && old != val {
		l.fail(n, "%s: differs between paths (%s / %s)", key, old, val)
	}
	l.facts[key] = val
}

// ---- Bool terms --------------------------------------------------------------------------------

func lsAtom(s string) bool {
	if s == "" {
		return false
	}
	for _, r := range s {
		if !(r >= 'a' && r <= 'z' || r >= 'A' && r <= 'Z') {
			return false
		}
	}
	return s != "true" && s != "false"
}

func lsNot(s string) string {
	switch s {
	case "true":
		return "false"
	case "false":
		return "true"
	}
	return lnot(s)
}

func lsBin(op token.Token, a, b string) string {
	if op == token.LAND {
		switch {
		case a == "false" || b == "false":
			return "false"
		case a == "true":
			return b
		case b == "true":
			return a
		}
		return lparen(a) + " && " + lparen(b)
	}
	switch {
	case a == "true" || b == "true":
		return "true"
	case a == "false":
		return b
	case b == "false":
		return a
	}
	return lparen(a) + " || " + lparen(b)
}

// eval: a Bool term (an input, its negation, or anything else) under what is known on this path.
func (st *lsState) eval(t string) string {
	if lsAtom(t) {
		if v, ok := st.known[t]; ok {
			return strconv.FormatBool(v)
		}
	}
	if strings.HasPrefix(t, "!") && lsAtom(t[1:]) {
		if v, ok := st.known[t[1:]]; ok {
			return strconv.FormatBool(!v)
		}
	}
	return t
}

func (st *lsState) assume(t string, v bool) {
	if lsAtom(t) {
		st.known[t] = v
	} else if strings.HasPrefix(t, "!") && lsAtom(t[1:]) {
		st.known[t[1:]] = !v
	}
}

// ---- expressions -------------------------------------------------------------------------------

func (l *lsTrans) lookup(e ast.Expr, st *lsState) (lsVal, bool) {
	id, ok := e.(*ast.Ident)
	if !ok {
		return lsVal{}, false
	}
	v, ok := st.env[id.Name]
	return v, ok
}

func (l *lsTrans) isRole(e ast.Expr, st *lsState, role string) bool {
	v, ok := l.lookup(e, st)
	return ok && v.kind == lsObj && v.role == role
}

// nameCall: `W.Name()` / `X.Name()` with W the fetched wallet, X the account of the account loop; returns the role.
func (l *lsTrans) nameCall(e ast.Expr, st *lsState) string {
	x, ok := e.(*ast.CallExpr)
	if !ok || len(x.Args) != 0 {
		return ""
	}
	se, ok := x.Fun.(*ast.SelectorExpr)
	if !ok || se.Sel.Name != "Name" {
		return ""
	}
	v, ok := l.lookup(se.X, st)
	if !ok || v.kind != lsObj || (v.role != "wallet" && v.role != "walletAccount") {
		return ""
	}
	return v.role
}

// actionValue: `ruler.ActionX` by value.
func (l *lsTrans) actionValue(e ast.Expr) (string, bool) {
	se, ok := e.(*ast.SelectorExpr)
	if !ok || src(se.X) != "ruler" {
		return "", false
	}
	v, ok := l.consts[se.Sel.Name]
	if !ok {
		l.fail(e, "ruler.%s is not declared with a string literal in %s", se.Sel.Name, rrActionsFile)
	}
	if where, bad := l.assigned[se.Sel.Name]; bad {
		l.fail(e, "ruler.%s is a variable that %s assigns to (or takes the address of)", se.Sel.Name, where)
	}
	return v, true
}

var lsPureFuns = map[string]bool{"fmt.Sprintf": true, "len": true, "time.Since": true, "time.Now": true, "attribute.String": true,
	"attribute.Int": true, "attribute.Bool": true, "trace.WithAttributes": true}

// pure: an expression a log / span / monitor call may read.
func (l *lsTrans) pure(e ast.Expr, st *lsState) bool {
	switch x := e.(type) {
	case *ast.BasicLit, *ast.Ident:
		return true
	case *ast.ParenExpr:
		return l.pure(x.X, st)
	case *ast.SelectorExpr:
		return l.pure(x.X, st)
	case *ast.CallExpr:
		if x.Ellipsis != token.NoPos {
			return false
		}
		if lsPureFuns[src(x.Fun)] {
			for _, a := range x.Args {
				if !l.pure(a, st) {
					return false
				}
			}
			return true
		}
		return l.nameCall(x, st) != ""
	}
	return false
}

type lsString struct {
	canon, lean string
	atom, ok    bool // ok: lean is available
}

// strExpr: a string expression: canonical Go text (locals printed as their roles, string locals inlined) and a Lean term.
func (l *lsTrans) strExpr(e ast.Expr, st *lsState) lsString {
	par := func(v lsString) string {
		if v.atom {
			return v.lean
		}
		return "(" + v.lean + ")"
	}
	switch x := e.(type) {
	case *ast.BasicLit:
		if x.Kind == token.STRING {
			if s, err := strconv.Unquote(x.Value); err == nil && printable(s) {
				return lsString{strconv.Quote(s), leanStr(s), true, true}
			}
		}
	case *ast.ParenExpr:
		v := l.strExpr(x.X, st)
		return lsString{"(" + v.canon + ")", par(v), true, v.ok}
	case *ast.Ident:
		if v, ok := st.env[x.Name]; ok && v.kind == lsStr && v.canon != "" {
			return lsString{v.canon, v.slean, isAtomLean(v.slean), v.slean != ""}
		}
	case *ast.BinaryExpr:
		if x.Op == token.ADD {
			a, b := l.strExpr(x.X, st), l.strExpr(x.Y, st)
			return lsString{a.canon + " + " + b.canon, par(a) + " ++ " + par(b), false, a.ok && b.ok}
		}
	case *ast.CallExpr:
		if r := l.nameCall(x, st); r != "" {
			return lsString{r + ".Name()", map[string]string{"wallet": "walletName", "walletAccount": "accountName"}[r], true, true}
		}
		if src(x.Fun) == "fmt.Sprintf" && len(x.Args) > 0 && x.Ellipsis == token.NoPos {
			lit, ok := x.Args[0].(*ast.BasicLit)
			if !ok || lit.Kind != token.STRING {
				break
			}
			format, err := strconv.Unquote(lit.Value)
			if err != nil || !printable(format) {
				break
			}
			pieces := strings.Split(format, "%s")
			if len(pieces)-1 != len(x.Args)-1 {
				l.fail(e, "fmt.Sprintf: number of %%s verbs and of arguments differ")
			}
			canon := []string{strconv.Quote(format)}
			var parts []string
			ok = true
			for i, pc := range pieces {
				if strings.Contains(pc, "%") {
					l.fail(e, "fmt.Sprintf with a verb other than %%s")
				}
				if pc != "" {
					parts = append(parts, leanStr(pc))
				}
				if i < len(pieces)-1 {
					a := l.strExpr(x.Args[i+1], st)
					canon = append(canon, a.canon)
					parts = append(parts, par(a))
					ok = ok && a.ok
				}
			}
			out := lsString{canon: "fmt.Sprintf(" + strings.Join(canon, ", ") + ")", ok: ok}
			switch len(parts) {
			case 0:
				out.lean, out.atom = `""`, true
			case 1:
				out.lean, out.atom = parts[0], isAtomLean(parts[0])
			default:
				out.lean = strings.Join(parts, " ++ ")
			}
			return out
		}
	}
	l.fail(e, "string expression outside the fragment (literals, +, fmt.Sprintf with a literal format of %%s verbs, wallet.Name(), walletAccount.Name(), string locals)")
	return lsString{}
}

// strCond: a condition on strings only: strings.HasPrefix / strings.HasSuffix of string expressions, and `!`.
func (l *lsTrans) strCond(e ast.Expr, st *lsState) (string, bool) {
	switch x := e.(type) {
	case *ast.ParenExpr:
		return l.strCond(x.X, st)
	case *ast.UnaryExpr:
		if x.Op == token.NOT {
			c, ok := l.strCond(x.X, st)
			return "!" + lparen(c), ok
		}
	case *ast.CallExpr:
		fn := map[string]string{"strings.HasPrefix": "String.startsWith", "strings.HasSuffix": "String.endsWith"}[src(x.Fun)]
		if fn != "" && len(x.Args) == 2 {
			a, b := l.strExpr(x.Args[0], st), l.strExpr(x.Args[1], st)
			if !a.ok || !b.ok {
				l.fail(e, "condition on a string that is not readable")
			}
			wrap := func(v lsString) string {
				if v.atom {
					return v.lean
				}
				return "(" + v.lean + ")"
			}
			return fn + " " + wrap(a) + " " + wrap(b), true
		}
	}
	return "", false
}

// canon: an expression handed to the rules, locals printed as their roles, data locals inlined, ruler.ActionX by value.
func (l *lsTrans) canon(e ast.Expr, st *lsState) string {
	switch x := e.(type) {
	case *ast.BasicLit:
		return x.Value
	case *ast.ParenExpr:
		return "(" + l.canon(x.X, st) + ")"
	case *ast.Ident:
		if v, ok := st.env[x.Name]; ok {
			switch {
			case (v.kind == lsStr || v.kind == lsData) && v.canon != "":
				return v.canon
			case v.kind == lsObj && v.role != "":
				return v.role
			}
			l.fail(e, "a local of this kind cannot be handed to the rules")
		}
		if x.Name == "nil" {
			return "nil"
		}
	case *ast.UnaryExpr:
		if x.Op == token.AND {
			if _, ok := x.X.(*ast.CompositeLit); ok {
				return "&" + l.canon(x.X, st)
			}
		}
	case *ast.CallExpr:
		if r := l.nameCall(x, st); r != "" {
			return r + ".Name()"
		}
		if src(x.Fun) == "fmt.Sprintf" {
			return l.strExpr(x, st).canon
		}
		// getter chain on a provider: P.PublicKey().Marshal()
		if se, ok := x.Fun.(*ast.SelectorExpr); ok && len(x.Args) == 0 {
			if v, ok := l.lookup(se.X, st); ok && v.kind == lsObj && strings.HasSuffix(v.role, "Provider") {
				return v.role + "." + se.Sel.Name + "()"
			}
			if _, isCall := se.X.(*ast.CallExpr); isCall {
				return l.canon(se.X, st) + "." + se.Sel.Name + "()"
			}
		}
	case *ast.CompositeLit:
		var elts []string
		for _, el := range x.Elts {
			if kv, ok := el.(*ast.KeyValueExpr); ok {
				if _, ok := kv.Key.(*ast.Ident); !ok {
					l.fail(e, "composite literal with a computed key")
				}
				elts = append(elts, src(kv.Key)+": "+l.canon(kv.Value, st))
			} else {
				elts = append(elts, l.canon(el, st))
			}
		}
		t := ""
		if x.Type != nil {
			t = src(x.Type)
		}
		return t + "{" + strings.Join(elts, ", ") + "}"
	case *ast.SelectorExpr:
		if v, ok := l.actionValue(x); ok {
			return strconv.Quote(v)
		}
	}
	l.fail(e, "expression handed to the rules outside the fragment")
	return ""
}

// cond: a condition as a Lean Bool term over the inputs; conditional evaluation (&&, ||) is followed so that
// MatchString is only accepted where the regular expression is known to be non-nil.
func (l *lsTrans) cond(e ast.Expr, st *lsState) string {
	switch x := e.(type) {
	case *ast.ParenExpr:
		return l.cond(x.X, st)
	case *ast.Ident:
		if v, ok := st.env[x.Name]; ok && v.kind == lsBool {
			return st.eval(v.lean)
		}
		if x.Name == "true" || x.Name == "false" {
			return x.Name
		}
	case *ast.UnaryExpr:
		if x.Op == token.NOT {
			return lsNot(l.cond(x.X, st))
		}
	case *ast.CallExpr:
		se, ok := x.Fun.(*ast.SelectorExpr)
		if !ok || se.Sel.Name != "MatchString" || len(x.Args) != 1 || x.Ellipsis != token.NoPos {
			break
		}
		v, ok := l.lookup(se.X, st)
		if !ok || v.kind != lsRegex || !st.account {
			break
		}
		if st.eval(v.lean) != "true" {
			l.fail(e, "MatchString on a regular expression that may be nil here")
		}
		l.fact(e, "regex matched against", l.strExpr(x.Args[0], st).canon)
		return st.eval("regexMatches")
	case *ast.BinaryExpr:
		switch x.Op {
		case token.LAND, token.LOR:
			a := l.cond(x.X, st)
			c := st.fork()
			c.assume(a, x.Op == token.LAND)
			b := l.cond(x.Y, &c)
			return lsBin(x.Op, a, b)
		case token.EQL, token.NEQ:
			pos := ""
			lh, rh := x.X, x.Y
			if ix, isIx := lh.(*ast.IndexExpr); isIx {
				// RS[0] == rules.APPROVED
				v, ok := l.lookup(ix.X, st)
				if !ok || v.kind != lsResults || src(ix.Index) != "0" {
					break
				}
				if src(rh) != "rules.APPROVED" {
					l.fail(e, "the rules' answer is compared with other than rules.APPROVED (the input `rulesApproved` cannot express that)")
				}
				pos = st.eval("rulesApproved")
			} else {
				if _, isVar := l.lookup(lh, st); !isVar {
					lh, rh = rh, lh
				}
				v, ok := l.lookup(lh, st)
				if !ok {
					break
				}
				switch {
				case src(rh) == "nil" && v.kind == lsErr:
					pos = lsNot(st.eval(v.lean))
				case src(rh) == "nil" && v.kind == lsRegex:
					pos = lsNot(st.eval(v.lean))
				case src(rh) == `""` && v.kind == lsStr && v.empty != "":
					pos = st.eval(v.empty)
				case v.kind == lsRes:
					if src(rh) != "core.ResultSucceeded" {
						l.fail(e, "the result of checkAccess is compared with other than core.ResultSucceeded (the input `accessOk` cannot express that)")
					}
					pos = st.eval(v.lean)
				case v.kind == lsBool && (src(rh) == "true" || src(rh) == "false"):
					pos = st.eval(v.lean)
					if src(rh) == "false" {
						pos = lsNot(pos)
					}
				}
			}
			if pos == "" {
				break
			}
			if x.Op == token.NEQ {
				return lsNot(pos)
			}
			return pos
		}
	}
	l.fail(e, "condition outside the fragment")
	return ""
}

// ---- silent statements -------------------------------------------------------------------------

func (l *lsTrans) silentChain(e ast.Expr, st *lsState) bool {
	for {
		switch x := e.(type) {
		case *ast.CallExpr:
			if x.Ellipsis != token.NoPos {
				return false
			}
			for _, a := range x.Args {
				if !l.pure(a, st) {
					return false
				}
			}
			e = x.Fun
		case *ast.SelectorExpr:
			if x.Sel.Name == "Fatal" || x.Sel.Name == "Panic" {
				return false
			}
			if id, ok := x.X.(*ast.Ident); ok && id.Name == l.k.recv && x.Sel.Name == "monitor" {
				return true
			}
			e = x.X
		case *ast.Ident:
			_, bound := st.env[x.Name]
			return l.k.silent[x.Name] && !bound
		default:
			return false
		}
	}
}

// fresh: a name that may be defined here.
func (l *lsTrans) fresh(n ast.Node, e ast.Expr, st *lsState, allowSilent bool) string {
	id, ok := e.(*ast.Ident)
	if !ok {
		l.fail(n, "definition of other than a local")
	}
	if id.Name == "_" {
		return "_"
	}
	for _, r := range lsPkgs {
		if r == id.Name {
			l.fail(n, "%s is rebound", r)
		}
	}
	if id.Name == l.k.recv || (l.k.silent[id.Name] && !allowSilent) {
		l.fail(n, "%s is rebound", id.Name)
	}
	if old, bound := st.env[id.Name]; bound && (allowSilent || st.depth > old.depth) {
		l.fail(n, "%s is redefined (shadowing)", id.Name)
	}
	return id.Name
}

func (l *lsTrans) silent(s ast.Stmt, st *lsState) bool {
	switch x := s.(type) {
	case *ast.EmptyStmt:
		return true
	case *ast.ExprStmt:
		_, isCall := x.X.(*ast.CallExpr)
		return isCall && l.silentChain(x.X, st)
	case *ast.DeferStmt:
		return l.silentChain(x.Call, st)
	case *ast.IncDecStmt:
		v, ok := l.lookup(x.X, st)
		return ok && v.kind == lsSilent
	case *ast.AssignStmt:
		if x.Tok != token.DEFINE || len(x.Rhs) != 1 {
			return false
		}
		if lit, ok := x.Rhs[0].(*ast.BasicLit); ok && lit.Kind == token.INT && len(x.Lhs) == 1 {
			if n := l.fresh(s, x.Lhs[0], st, false); n != "_" {
				st.env[n] = lsVal{kind: lsSilent, depth: st.depth}
			}
			return true
		}
		call, ok := x.Rhs[0].(*ast.CallExpr)
		if !ok {
			return false
		}
		if src(call.Fun) == "time.Now" && len(call.Args) == 0 && len(x.Lhs) == 1 {
			if n := l.fresh(s, x.Lhs[0], st, false); n != "_" {
				st.env[n] = lsVal{kind: lsSilent, depth: st.depth}
			}
			return true
		}
		// ctx, span := otel.Tracer("…").Start(ctx, "…")   (top level of the function only: ctx keeps its role)
		if se, ok := call.Fun.(*ast.SelectorExpr); ok && se.Sel.Name == "Start" {
			tr, ok := se.X.(*ast.CallExpr)
			if !ok || src(tr.Fun) != "otel.Tracer" || len(tr.Args) != 1 || len(call.Args) != 2 || len(x.Lhs) != 2 {
				return false
			}
			for _, a := range []ast.Expr{tr.Args[0], call.Args[1]} {
				if lit, ok := a.(*ast.BasicLit); !ok || lit.Kind != token.STRING {
					return false
				}
			}
			if !l.isRole(call.Args[0], st, "ctx") || !(l.isRole(x.Lhs[0], st, "ctx") || src(x.Lhs[0]) == "_") || st.depth != 0 || st.account || l.pathLoop != nil {
				return false
			}
			if n := l.fresh(s, x.Lhs[1], st, true); n != "_" {
				l.k.silent[n] = true
			}
			return true
		}
		// L := log.With()….Logger()    (a logger may be rebound by a logger)
		if len(x.Lhs) != 1 || !l.silentChain(call, st) {
			return false
		}
		if n := l.fresh(s, x.Lhs[0], st, true); n != "_" {
			l.k.silent[n] = true
		}
		return true
	}
	return false
}

// ---- binding -----------------------------------------------------------------------------------

func (l *lsTrans) bind(s ast.Stmt, tok token.Token, lhs []ast.Expr, vals []lsVal, st *lsState) {
	if len(lhs) != len(vals) {
		l.fail(s, "number of left-hand sides and of results differ")
	}
	if tok != token.DEFINE && tok != token.ASSIGN {
		l.fail(s, "unsupported assignment")
	}
	for i, e := range lhs {
		id, ok := e.(*ast.Ident)
		if !ok {
			l.fail(s, "assignment to other than a local")
		}
		if id.Name == "_" {
			continue
		}
		old, bound := st.env[id.Name]
		v := vals[i]
		if tok == token.ASSIGN {
			if !bound || old.kind != v.kind {
				l.fail(s, "assignment to an unknown local, or to one of another kind: %s", id.Name)
			}
			v.depth = old.depth
			if v.role == "" {
				v.role = old.role
			}
		} else {
			l.fresh(s, e, st, false)
			if bound && old.kind != v.kind {
				l.fail(s, "%s is redefined with another kind", id.Name)
			}
			v.depth = st.depth
		}
		st.env[id.Name] = v
	}
}

func (l *lsTrans) once(s ast.Node, st *lsState, what string) {
	if st.done[what] {
		l.fail(s, "%s is called twice on one path", what)
	}
	st.done[what] = true
}

func (l *lsTrans) recvCall(e ast.Expr, field, method string) (*ast.CallExpr, bool) {
	call, ok := e.(*ast.CallExpr)
	if !ok || call.Ellipsis != token.NoPos {
		return nil, false
	}
	want := l.k.recv + "." + method
	if field != "" {
		want = l.k.recv + "." + field + "." + method
	}
	return call, src(call.Fun) == want && l.k.recv != ""
}

// ---- the two bodies ----------------------------------------------------------------------------

func (l *lsTrans) strUpdate(s *ast.AssignStmt, st *lsState, cond string) bool {
	if s.Tok != token.ASSIGN || len(s.Lhs) != 1 || len(s.Rhs) != 1 {
		return false
	}
	id, ok := s.Lhs[0].(*ast.Ident)
	if !ok {
		return false
	}
	old, ok := st.env[id.Name]
	if !ok || old.kind != lsStr || old.role != "accountPath" || st.account {
		return false
	}
	if st.done["regexp.Compile"] {
		l.fail(s, "the account part is changed after it has been compiled")
	}
	v := l.strExpr(s.Rhs[0], st)
	if !v.ok || old.slean == "" {
		l.fail(s, "the account part is built from a string that is not readable")
	}
	name := fmt.Sprintf("p%d", len(st.lets)+1)
	if cond == "" {
		st.lets = append(st.lets, fmt.Sprintf("let %s := %s", name, v.lean))
	} else {
		st.lets = append(st.lets, fmt.Sprintf("let %s := if %s then %s else %s", name, cond, v.lean, old.slean))
	}
	old.slean, old.empty = name, ""
	st.env[id.Name] = old
	l.anchorStmt[s] = true
	return true
}

func (l *lsTrans) walk(list []pcStmt, st lsState) *pnode {
	for i, ps := range list {
		s := ps.s
		st.depth = ps.depth
		if l.silent(s, &st) {
			l.sil[s] = true
			continue
		}
		switch x := s.(type) {
		case *ast.BranchStmt:
			if x.Tok != token.CONTINUE || x.Label != nil {
				l.fail(s, "`%s` in a loop (only a plain `continue` has a per-path / per-account meaning)", src(s))
			}
			if st.account {
				return &pnode{leaf: strconv.FormatBool(st.appended)}
			}
			return &pnode{leaf: "0"}
		case *ast.DeclStmt:
			gd, ok := x.Decl.(*ast.GenDecl)
			if !ok || gd.Tok != token.VAR || len(gd.Specs) != 1 {
				l.fail(s, "unsupported declaration")
			}
			vs := gd.Specs[0].(*ast.ValueSpec)
			if len(vs.Values) != 0 || vs.Type == nil || len(vs.Names) != 1 {
				l.fail(s, "unsupported declaration (only `var x T`)")
			}
			var v lsVal
			switch {
			case src(vs.Type) == "*regexp.Regexp" && !st.account:
				v = lsVal{kind: lsRegex, lean: "false"}
			case src(vs.Type) == "[]byte" && st.account:
				v = lsVal{kind: lsData, canon: "pubKey"}
			default:
				l.fail(s, "unsupported declaration")
			}
			l.bind(s, token.DEFINE, []ast.Expr{vs.Names[0]}, []lsVal{v}, &st)
			continue
		case *ast.AssignStmt:
			if len(x.Rhs) != 1 {
				l.fail(s, "unsupported assignment")
			}
			if l.strUpdate(x, &st, "") {
				continue
			}
			if l.assign(x, &st) {
				continue
			}
			l.fail(s, "unsupported assignment")
		case *ast.IfStmt:
			rest := list[i+1:]
			if l.dataIf(x, &st) {
				continue // kept in the guard texts: the data handed to the rules depends on it
			}
			if x.Init != nil {
				l.fail(s, "if with an init statement")
			}
			// if <string condition> { AP = … }
			if c, ok := l.strCond(x.Cond, &st); ok && x.Else == nil && !st.account {
				n := 0
				for _, bs := range x.Body.List {
					inner := st.fork()
					inner.depth = ps.depth + 1
					if l.silent(bs, &inner) {
						l.sil[bs] = true
						continue
					}
					as, ok := bs.(*ast.AssignStmt)
					n++
					if !ok || n > 1 || !l.strUpdate(as, &st, c) {
						l.fail(bs, "a block under a condition on strings may only assign the account part, once")
					}
				}
				l.anchorStmt[s] = true
				continue
			}
			c := l.cond(x.Cond, &st)
			arm := func(extra []ast.Stmt, v bool) *pnode {
				f := st.fork()
				f.assume(c, v)
				return l.walk(append(atDepth(extra, ps.depth+1), rest...), f)
			}
			var elseList []ast.Stmt
			switch e := x.Else.(type) {
			case nil:
			case *ast.BlockStmt:
				elseList = e.List
			case *ast.IfStmt:
				elseList = []ast.Stmt{e}
			default:
				l.fail(s, "unsupported else")
			}
			switch c {
			case "true":
				return arm(x.Body.List, true)
			case "false":
				return arm(elseList, false)
			}
			then, els := arm(x.Body.List, true), arm(elseList, false)
			if then.render("") == els.render("") {
				return then
			}
			return &pnode{cond: c, then: then, els: els}
		case *ast.RangeStmt:
			if st.account {
				l.fail(s, "a loop inside the account loop")
			}
			v, ok := l.lookup(x.X, &st)
			if !ok || v.kind != lsObj || v.role != "walletAccounts" || x.Tok != token.DEFINE || (x.Key != nil && src(x.Key) != "_") || x.Value == nil {
				l.fail(s, "a loop other than `for _, X := range <what FetchAccounts returned>`")
			}
			if l.acctLoop != nil && l.acctLoop != x {
				l.fail(s, "two account loops")
			}
			l.acctLoop = x
			l.fact(s, "account loop", "for _, walletAccount := range walletAccounts")
			// the account body, with the regular expression as the input `hasRegex`
			as := st.fork()
			as.account, as.appended, as.known, as.done = true, false, map[string]bool{}, map[string]bool{}
			for n, val := range as.env {
				switch val.kind {
				case lsRegex:
					val.lean = "hasRegex"
					as.env[n] = val
				case lsErr:
					delete(as.env, n) // the inputs of the path are not inputs of the account body
				case lsStr:
					val.empty = ""
					as.env[n] = val
				}
			}
			as.depth = ps.depth + 1
			name := l.fresh(s, x.Value, &as, false)
			if name != "_" {
				as.env[name] = lsVal{kind: lsObj, role: "walletAccount", depth: ps.depth + 1}
			}
			tree := l.walk(atDepth(x.Body.List, ps.depth+1), as)
			if l.acctTree != nil && l.acctTree.render("") != tree.render("") {
				l.fail(s, "the account loop reads differently on different paths")
			}
			l.acctTree = tree
			for _, r := range list[i+1:] {
				f := st.fork()
				f.depth = r.depth
				if !l.silent(r.s, &f) {
					l.fail(r.s, "a statement after the account loop")
				}
				l.sil[r.s] = true
			}
			// which accounts are candidates: R nil ⇒ all (1), else those it matches (2)
			has := "false"
			n := 0
			for _, val := range st.env {
				if val.kind == lsRegex {
					has = st.eval(val.lean)
					n++
				}
			}
			if n > 1 {
				l.fail(s, "two regular expressions")
			}
			switch has {
			case "true":
				return &pnode{leaf: "2"}
			case "false":
				return &pnode{leaf: "1"}
			}
			return &pnode{cond: has, then: &pnode{leaf: "2"}, els: &pnode{leaf: "1"}}
		}
		l.fail(s, "unsupported statement")
	}
	if st.account {
		return &pnode{leaf: strconv.FormatBool(st.appended)}
	}
	return &pnode{leaf: "0"} // the body ends without reaching the account loop: nothing is listed for this path
}

// dataIf: `if Q, OK2 := X.(T); OK2 { PK = <getter chain of Q> }` — only the data handed to the rules depends on it.
func (l *lsTrans) dataIf(x *ast.IfStmt, st *lsState) bool {
	if !st.account || x.Init == nil || x.Else != nil {
		return false
	}
	as, ok := x.Init.(*ast.AssignStmt)
	if !ok || as.Tok != token.DEFINE || len(as.Lhs) != 2 || len(as.Rhs) != 1 {
		return false
	}
	ta, ok := as.Rhs[0].(*ast.TypeAssertExpr)
	if !ok || ta.Type == nil || !l.isRole(ta.X, st, "walletAccount") {
		return false
	}
	q, okq := as.Lhs[0].(*ast.Ident)
	b, okb := as.Lhs[1].(*ast.Ident)
	if !okq || !okb || src(x.Cond) != b.Name || b.Name == "_" || q.Name == "_" {
		return false
	}
	inner := st.fork()
	inner.depth = st.depth + 1
	for _, n := range []string{q.Name, b.Name} {
		for _, r := range lsPkgs {
			if r == n {
				return false
			}
		}
		if n == l.k.recv || l.k.silent[n] {
			return false
		}
	}
	inner.env[q.Name] = lsVal{kind: lsObj, role: "other" + "Provider", depth: inner.depth}
	inner.env[b.Name] = lsVal{kind: lsBool, lean: "", depth: inner.depth}
	for _, bs := range x.Body.List {
		if l.silent(bs, &inner) {
			continue
		}
		ba, ok := bs.(*ast.AssignStmt)
		if !ok || ba.Tok != token.ASSIGN || len(ba.Lhs) != 1 || len(ba.Rhs) != 1 {
			return false
		}
		v, ok := l.lookup(ba.Lhs[0], &inner)
		if !ok || v.kind != lsData {
			return false
		}
		l.canon(ba.Rhs[0], &inner) // must be a getter chain
	}
	return true
}

// assign: the opaque calls and the data assignments.
func (l *lsTrans) assign(x *ast.AssignStmt, st *lsState) bool {
	rhs := x.Rhs[0]
	obj := func(role string) lsVal { return lsVal{kind: lsObj, role: role} }
	errv := func(p string) lsVal { return lsVal{kind: lsErr, lean: p} }
	if call, ok := rhs.(*ast.CallExpr); ok && call.Ellipsis == token.NoPos {
		switch fn := src(call.Fun); {
		case fn == "e2wallet.WalletAndAccountNames" && !st.account:
			if len(call.Args) != 1 || !l.isRole(call.Args[0], st, "path") {
				l.fail(x, "WalletAndAccountNames of other than the path")
			}
			l.once(x, st, fn)
			l.fact(x, "names", "e2wallet.WalletAndAccountNames(path)")
			l.bind(x, x.Tok, x.Lhs, []lsVal{
				{kind: lsStr, role: "walletName", canon: "walletName", empty: "walletEmpty"},
				{kind: lsStr, role: "accountPath", canon: "accountPath", slean: "accountPath", empty: "accountEmpty"},
				errv("namesErr")}, st)
			return true
		case fn == "regexp.Compile" && !st.account:
			if len(call.Args) != 1 {
				return false
			}
			v, ok := l.lookup(call.Args[0], st)
			if !ok || v.kind != lsStr || v.role != "accountPath" || v.slean == "" {
				l.fail(x, "regexp.Compile of other than the (anchored) account part")
			}
			l.once(x, st, fn)
			body := strings.Join(append(append([]string{}, st.lets...), v.slean), "\n  ")
			if l.anchorSet && l.anchor != body {
				l.fail(x, "the compiled string differs between paths")
			}
			l.anchor, l.anchorSet = body, true
			l.anchorStmt[x] = true
			if len(x.Lhs) != 2 {
				return false
			}
			if r, ok := l.lookup(x.Lhs[0], st); !ok || r.kind != lsRegex {
				l.fail(x, "the compiled expression is not kept in the `var R *regexp.Regexp`")
			}
			l.bind(x, x.Tok, x.Lhs, []lsVal{{kind: lsRegex, lean: "!compileErr"}, errv("compileErr")}, st)
			return true
		case st.account && fn == "fmt.Sprintf":
			v := l.strExpr(call, st)
			l.bind(x, x.Tok, x.Lhs, []lsVal{{kind: lsStr, canon: v.canon, slean: v.lean}}, st)
			return true
		case st.account && fn == "append":
			if x.Tok != token.ASSIGN || len(x.Lhs) != 1 || len(call.Args) != 2 || !l.isRole(x.Lhs[0], st, "accounts") ||
				!l.isRole(call.Args[0], st, "accounts") || !l.isRole(call.Args[1], st, "walletAccount") {
				l.fail(x, "an append other than `accounts = append(accounts, walletAccount)`")
			}
			if st.appended {
				l.fail(x, "the account is appended twice on one path")
			}
			st.appended = true
			l.fact(x, "append", "accounts = append(accounts, walletAccount)")
			return true
		}
		if c, ok := l.recvCall(rhs, "fetcher", "FetchWallet"); ok && !st.account {
			if len(c.Args) != 2 || !l.isRole(c.Args[0], st, "ctx") || !l.isRole(c.Args[1], st, "path") {
				l.fail(x, "FetchWallet of other than (ctx, path)")
			}
			l.once(x, st, "FetchWallet")
			l.fact(x, "wallet", "FetchWallet(ctx, path)")
			l.bind(x, x.Tok, x.Lhs, []lsVal{obj("wallet"), errv("fetchWalletErr")}, st)
			return true
		}
		if c, ok := l.recvCall(rhs, "fetcher", "FetchAccounts"); ok && !st.account {
			if len(c.Args) != 2 || !l.isRole(c.Args[0], st, "ctx") {
				l.fail(x, "FetchAccounts: unexpected arguments")
			}
			l.once(x, st, "FetchAccounts")
			l.fact(x, "accounts of", "FetchAccounts(ctx, "+l.strExpr(c.Args[1], st).canon+")")
			l.bind(x, x.Tok, x.Lhs, []lsVal{obj("walletAccounts"), errv("fetchAccountsErr")}, st)
			return true
		}
		if c, ok := l.recvCall(rhs, "", "checkAccess"); ok && st.account {
			if len(c.Args) != 4 || !l.isRole(c.Args[0], st, "ctx") || !l.isRole(c.Args[1], st, "credentials") {
				l.fail(x, "checkAccess: unexpected arguments")
			}
			act, ok := l.actionValue(c.Args[3])
			if !ok {
				l.fail(x, "checkAccess: the action is not a ruler.ActionX")
			}
			name := l.strExpr(c.Args[2], st)
			if !name.ok {
				l.fail(x, "checkAccess: the name is not readable")
			}
			l.once(x, st, "checkAccess")
			l.fact(x, "checkAccess name", name.canon)
			l.fact(x, "checkAccess action", act)
			if l.nameFn != "" && l.nameFn != name.lean {
				l.fail(x, "the name handed to checkAccess differs between paths")
			}
			l.nameFn, l.action = name.lean, act
			l.bind(x, x.Tok, x.Lhs, []lsVal{{kind: lsRes, lean: "accessOk"}}, st)
			return true
		}
		if c, ok := l.recvCall(rhs, "ruler", "RunRules"); ok && st.account {
			if len(c.Args) != 4 || !l.isRole(c.Args[0], st, "ctx") || !l.isRole(c.Args[1], st, "credentials") {
				l.fail(x, "RunRules: unexpected arguments")
			}
			act, ok := l.actionValue(c.Args[2])
			if !ok {
				l.fail(x, "RunRules: the action is not a ruler.ActionX")
			}
			l.once(x, st, "RunRules")
			l.fact(x, "RunRules action", act)
			l.fact(x, "RunRules data", l.canon(c.Args[3], st))
			l.bind(x, x.Tok, x.Lhs, []lsVal{{kind: lsResults}}, st)
			return true
		}
	}
	if !st.account {
		return false
	}
	// PP, OK := X.(e2wtypes.AccountPublicKeyProvider)
	if ta, ok := rhs.(*ast.TypeAssertExpr); ok && ta.Type != nil && l.isRole(ta.X, st, "walletAccount") {
		if src(ta.Type) != "e2wtypes.AccountPublicKeyProvider" || len(x.Lhs) != 2 {
			l.fail(x, "a type assertion other than `P, ok := walletAccount.(e2wtypes.AccountPublicKeyProvider)`")
		}
		l.once(x, st, "AccountPublicKeyProvider")
		l.bind(x, x.Tok, x.Lhs, []lsVal{obj("pubKeyProvider"), {kind: lsBool, lean: "hasPubKey"}}, st)
		return true
	}
	// data: PK = <getter chain> ; D := <composite literal>
	if len(x.Lhs) == 1 {
		if old, ok := l.lookup(x.Lhs[0], st); ok && old.kind == lsData && x.Tok == token.ASSIGN {
			l.canon(rhs, st)
			return true // printed as its role
		}
		_, isLit := rhs.(*ast.CompositeLit)
		if u, ok := rhs.(*ast.UnaryExpr); ok && u.Op == token.AND {
			_, isLit = u.X.(*ast.CompositeLit)
		}
		if isLit && x.Tok == token.DEFINE {
			l.bind(x, x.Tok, x.Lhs, []lsVal{{kind: lsData, canon: l.canon(rhs, st)}}, st)
			return true
		}
	}
	return false
}

// ---- the function ------------------------------------------------------------------------------

func lsRecognise(k *ktrans, fd *ast.FuncDecl) *lsTrans {
	l := &lsTrans{k: k, facts: map[string]string{}, sil: map[ast.Stmt]bool{}, anchorStmt: map[ast.Stmt]bool{}}
	l.consts, l.assigned = stringConsts(k.repo, rrActionsFile)
	if k.recv == "" || src(fd.Recv.List[0].Type) != "*Service" {
		l.fail(nil, "%s is not a method of *Service", k.spec.fn)
	}
	if resultTypes(fd) != "core.Result, []e2wtypes.Account" {
		l.fail(nil, "%s does not return (core.Result, []e2wtypes.Account)", k.spec.fn)
	}
	ps := flatParams(fd)
	want := []gparam{{"ctx", "context.Context"}, {"credentials", "*checker.Credentials"}, {"paths", "[]string"}}
	if len(ps) != len(want) {
		l.fail(nil, "%s does not take %d parameters", k.spec.fn, len(want))
	}
	st := lsState{env: map[string]lsVal{}, known: map[string]bool{}, done: map[string]bool{}}
	for i, w := range want {
		if ps[i].typ != w.typ {
			l.fail(nil, "parameter %d of %s is not a %s", i+1, k.spec.fn, w.typ)
		}
		if ps[i].name == "_" {
			continue
		}
		if ps[i].name == k.recv || k.silent[ps[i].name] {
			l.fail(nil, "parameter %s hides the receiver or the logger", ps[i].name)
		}
		for _, r := range lsPkgs {
			if r == ps[i].name {
				l.fail(nil, "parameter %s hides %s", ps[i].name, r)
			}
		}
		st.env[ps[i].name] = lsVal{kind: lsObj, role: w.name}
	}
	defs := definitions(fd.Body)
	for _, n := range append(append([]string{}, lsPkgs...), k.recv) {
		if len(defs[n]) > 0 {
			l.fail(nil, "%s rebinds %s", k.spec.fn, n)
		}
	}
	phase := 0
	for _, s := range fd.Body.List {
		if l.silent(s, &st) {
			l.sil[s] = true
			continue
		}
		switch x := s.(type) {
		case *ast.IfStmt:
			// if credentials == nil { …; return core.ResultX, nil }
			if phase != 0 || x.Init != nil || x.Else != nil {
				l.fail(s, "unsupported statement")
			}
			be, ok := x.Cond.(*ast.BinaryExpr)
			if !ok || be.Op != token.EQL || !l.isRole(be.X, &st, "credentials") || src(be.Y) != "nil" {
				l.fail(s, "unsupported statement")
			}
			for i, bs := range x.Body.List {
				inner := st.fork()
				inner.depth = 1
				if l.silent(bs, &inner) {
					continue
				}
				r, ok := bs.(*ast.ReturnStmt)
				if !ok || i != len(x.Body.List)-1 || len(r.Results) != 2 || !strings.HasPrefix(src(r.Results[0]), "core.Result") {
					l.fail(bs, "unsupported statement under `credentials == nil`")
				}
				l.fact(bs, "nil credentials", "return "+src(r.Results[0])+", "+src(r.Results[1]))
			}
			phase = 1
			l.top = append(l.top, "if "+src(x.Cond)+" { "+l.facts["nil credentials"]+" }")
		case *ast.AssignStmt:
			// A := make([]e2wtypes.Account, 0)
			if phase > 1 || x.Tok != token.DEFINE || len(x.Lhs) != 1 || len(x.Rhs) != 1 || src(x.Rhs[0]) != "make([]e2wtypes.Account, 0)" {
				l.fail(s, "unsupported statement")
			}
			n := l.fresh(s, x.Lhs[0], &st, false)
			if n == "_" {
				l.fail(s, "unsupported statement")
			}
			st.env[n] = lsVal{kind: lsObj, role: "accounts"}
			l.fact(s, "result slice", "accounts := make([]e2wtypes.Account, 0), before the path loop")
			phase = 2
			l.top = append(l.top, src(s))
		case *ast.RangeStmt:
			if phase != 2 || !l.isRole(x.X, &st, "paths") || x.Tok != token.DEFINE || (x.Key != nil && src(x.Key) != "_") || x.Value == nil {
				l.fail(s, "a loop other than `for _, P := range paths` after the result slice has been made")
			}
			l.pathLoop = x
			body := st.fork()
			body.depth = 1
			n := l.fresh(s, x.Value, &body, false)
			if n != "_" {
				body.env[n] = lsVal{kind: lsObj, role: "path", depth: 1}
			}
			l.fact(s, "path loop", "for _, path := range paths")
			l.pathTree = l.walk(atDepth(x.Body.List, 1), body)
			phase = 3
			l.top = append(l.top, "for _, "+src(x.Value)+" := range "+src(x.X)+" { … }")
		case *ast.ReturnStmt:
			if phase != 3 || len(x.Results) != 2 || !strings.HasPrefix(src(x.Results[0]), "core.Result") || !l.isRole(x.Results[1], &st, "accounts") {
				l.fail(s, "unsupported return")
			}
			l.fact(s, "finally", "return "+src(x.Results[0])+", accounts")
			phase = 4
			l.top = append(l.top, src(s))
		default:
			l.fail(s, "unsupported statement")
		}
	}
	if phase != 4 {
		l.fail(nil, "%s is not: [nil check,] result slice, path loop, return", k.spec.fn)
	}
	return l
}

// ---- guard texts -------------------------------------------------------------------------------

func (l *lsTrans) effects(list []ast.Stmt, keep func(ast.Stmt) bool) []string {
	var out []string
	for _, s := range list {
		if l.sil[s] || (keep != nil && !keep(s)) {
			continue
		}
		switch x := s.(type) {
		case *ast.IfStmt:
			out = append(out, l.ifText(x, keep))
		case *ast.RangeStmt:
			out = append(out, "for "+src(x.Key)+", "+src(x.Value)+" := range "+src(x.X)+" { … }")
		default:
			out = append(out, src(s))
		}
	}
	return out
}

func (l *lsTrans) ifText(x *ast.IfStmt, keep func(ast.Stmt) bool) string {
	t := "if "
	if x.Init != nil {
		t += src(x.Init) + "; "
	}
	t += src(x.Cond) + " { " + strings.Join(l.effects(x.Body.List, nil), "; ") + " }"
	switch e := x.Else.(type) {
	case *ast.BlockStmt:
		t += " else { " + strings.Join(l.effects(e.List, nil), "; ") + " }"
	case *ast.IfStmt:
		t += " else " + l.ifText(e, nil)
	}
	return t
}

// ---- the four kernels --------------------------------------------------------------------------

func transListAnchor(k *ktrans, fd *ast.FuncDecl) string {
	l := lsRecognise(k, fd)
	if !l.anchorSet {
		l.fail(nil, "%s does not call regexp.Compile on the account part", k.spec.fn)
	}
	var b strings.Builder
	k.docHead(&b, "the string handed to `regexp.Compile`, as a function of the account part of the path (the second result of `e2wallet.WalletAndAccountNames(path)`):\n"+
		"    every assignment to that local between the call that produced it and `regexp.Compile`, in source order, as one `let` each\n"+
		"    (`if C { x = e }` ↦ `if C then e else x`; `strings.HasPrefix` / `HasSuffix` ↦ `String.startsWith` / `endsWith`; `fmt.Sprintf` of `%s` verbs ↦ `++`)")
	fmt.Fprintf(&b, "def %s (accountPath : String) : String :=\n  %s\n\n", k.spec.name, l.anchor)
	var texts []string
	var collect func(list []ast.Stmt)
	collect = func(list []ast.Stmt) {
		for _, s := range list {
			if l.anchorStmt[s] {
				texts = append(texts, l.effects([]ast.Stmt{s}, nil)...)
				continue
			}
			if x, ok := s.(*ast.IfStmt); ok {
				collect(x.Body.List)
			}
		}
	}
	collect(l.pathLoop.Body.List)
	k.emitGuardTexts(&b, texts)
	return b.String()
}

func transListPath(k *ktrans, fd *ast.FuncDecl) string {
	l := lsRecognise(k, fd)
	var b strings.Builder
	k.docHead(&b, "the body of the path loop up to the account loop, for ONE path: 0 = the path is skipped (`continue`, or the account loop is not reached),\n"+
		"    1 = the account loop is reached with the regular expression nil (every account of the wallet is a candidate), 2 = it is reached with a compiled\n"+
		"    expression (the candidates are the accounts it matches).  namesErr: `e2wallet.WalletAndAccountNames(path)` returned an error; walletEmpty / accountEmpty:\n"+
		"    its first / second result is \"\" (the second: as returned, before the anchoring); compileErr: `regexp.Compile(listAnchorGen …)` returned an error (then\n"+
		"    the expression is nil); fetchWalletErr / fetchAccountsErr: `s.fetcher.FetchWallet(ctx, path)` / `s.fetcher.FetchAccounts(ctx, wallet.Name())` returned an error.\n"+
		"    An input is only read where the Go has made the call.  `break`, `return`, labels are refused")
	fmt.Fprintf(&b, "def %s (namesErr walletEmpty accountEmpty compileErr fetchWalletErr fetchAccountsErr : Bool) : Nat :=\n  %s\n\n", k.spec.name, l.pathTree.render("  "))
	k.emitGuardTexts(&b, l.effects(l.pathLoop.Body.List, func(s ast.Stmt) bool { return true }))
	return b.String()
}

func transListAccount(k *ktrans, fd *ast.FuncDecl) string {
	l := lsRecognise(k, fd)
	if l.acctTree == nil {
		l.fail(nil, "%s has no account loop", k.spec.fn)
	}
	var b strings.Builder
	k.docHead(&b, "the body of the account loop, for ONE account of the wallet: is `accounts = append(accounts, walletAccount)` executed?  hasRegex: the regular\n"+
		"    expression is not nil (`listPathGen … = 2`); regexMatches: `MatchString(<listShapeGen: regex matched against>)` (only called where the expression is known\n"+
		"    to be non-nil); accessOk: `s.checkAccess(ctx, credentials, <checkAccess name>, <checkAccess action>)` returned `core.ResultSucceeded`; hasPubKey: the type\n"+
		"    assertion `walletAccount.(e2wtypes.AccountPublicKeyProvider)` holds; rulesApproved: `s.ruler.RunRules(ctx, credentials, <RunRules action>, <RunRules data>)[0]`\n"+
		"    is `rules.APPROVED`.  An input is only read where the Go has made the call.  `break`, `return`, a second append are refused")
	fmt.Fprintf(&b, "def %s (hasRegex regexMatches accessOk hasPubKey rulesApproved : Bool) : Bool :=\n  %s\n\n", k.spec.name, l.acctTree.render("  "))
	if l.nameFn != "" {
		fmt.Fprintf(&b, "/-- … the name handed to `checkAccess`, as a function of `wallet.Name()` and `walletAccount.Name()` -/\ndef listCheckedNameFnGen (walletName accountName : String) : String :=\n  %s\n\n", l.nameFn)
		fmt.Fprintf(&b, "/-- … the action handed to `checkAccess`, by value (%s) -/\ndef listActionGen : String := %s\n\n", rrActionsFile, leanStr(l.action))
	}
	k.emitGuardTexts(&b, l.effects(l.acctLoop.Body.List, nil))
	return b.String()
}

func transListShape(k *ktrans, fd *ast.FuncDecl) string {
	l := lsRecognise(k, fd)
	var facts []string
	for _, key := range lsFactKeys {
		v, ok := l.facts[key]
		if !ok {
			v = "(none)"
		}
		facts = append(facts, key+": "+v)
	}
	var b strings.Builder
	k.docHead(&b, "canonical facts, every local printed as its ROLE (path = the path loop's variable; walletName, accountPath = the results of WalletAndAccountNames; wallet = what\n"+
		"    FetchWallet returned; walletAccounts = what FetchAccounts returned; walletAccount = the account loop's variable; accounts = the slice returned), string and data\n"+
		"    locals inlined, `ruler.ActionX` by value (services/ruler/service.go).  Both loops are plain `for _, x := range` loops (in order); the only write to `accounts`\n"+
		"    is the append shown, so the result is the concatenation over the paths, in path order, of the appended accounts in the order FetchAccounts gave them")
	fmt.Fprintf(&b, "def %s : List String := [\n", k.spec.name)
	for i, f := range facts {
		sep := ","
		if i == len(facts)-1 {
			sep = ""
		}
		fmt.Fprintf(&b, "  %s%s\n", leanStr(f), sep)
	}
	b.WriteString("]\n\n")
	k.emitGuardTexts(&b, l.top)
	return b.String()
}
