"""hist engine: histories of signing requests against one dirk instance (real signer + ruler + rules on
badger + checker + fetcher) and the same histories through the Lean model; serves C01 C02 C05 C06 C08
C09 C11."""
import os

from common import Broken, hx, run_impl, run_model, sh, ddmin

TWO63 = 1 << 63
TWO64 = 1 << 64

DOM_ATT = bytes([1, 0, 0, 0])
DOM_PROP = bytes([0, 0, 0, 0])
DOM_EXIT = bytes([4, 0, 0, 0])
DOM_RANDAO = bytes([2, 0, 0, 0])
DOM_SEL = bytes([5, 0, 0, 0])

_keys = None


def interop_keys(dh, n=40):
    global _keys
    if _keys is None or len(_keys) < n:
        rc, out, err = sh([dh, "keys", str(max(n, 40))])
        if rc != 0:
            raise Broken("harness-keys", err[-1000:])
        _keys = [bytes.fromhex(l.split()[1]) for l in out.splitlines()]
    return _keys


class Acct:
    def __init__(self, wallet, name, pk, unlockable=True, pass2=False, dist=None):
        self.wallet, self.name, self.pk, self.unlockable = wallet, name, pk, unlockable
        self.pass2 = pass2          # encrypted with the unlocker's second account passphrase
        self.dist = dist            # "id=endpoint;id=endpoint": a DISTRIBUTED account (in a distributed wallet) with these participants

    @property
    def path(self):
        return self.wallet + "/" + self.name


def std_config(keys, nacct=6, locked=True):
    accts = []
    for i in range(nacct):
        w = "Wallet 1" if i < (nacct + 1) // 2 + 1 else "Wallet 2"
        accts.append(Acct(w, "Account %d" % i, keys[i]))
    if locked:
        accts.append(Acct("Wallet 1", "Locked", keys[nacct], unlockable=False))
    perms = [
        ("client1", "Wallet 1", ["All"]),
        ("client2", "Wallet 2", ["All"]),
        ("client3", "Wallet 1/Account 0", ["~Sign beacon proposal", "Sign beacon attestation", "Sign"]),
        ("client3", "Wallet 2", ["None"]),
        # layered entries that overlap on one account: the narrow one decides proposals, the broad one everything else
        ("client4", "Wallet 1/Account 1", ["Sign beacon proposal"]),
        ("client4", "Wallet 1", ["~Sign beacon proposal", "All"]),
        # generic signing allowed, attesting refused (explicitly / by not being mentioned): every endpoint must ask for ITS operation
        ("client5", "Wallet 1", ["~Sign beacon attestation", "All"]),
        ("client6", "Wallet 1", ["Sign", "Sign beacon proposal", "Access account"]),
        ("clientall", "", ["All"]) if False else ("clientall", ".*", ["All"]),
    ]
    admins = ["10.0.0.1", "::1"]
    return accts, perms, admins


def accts_from_config(cfg):
    """the accounts a list of configuration lines declares (for replay files, which carry the lines only)"""
    out = []
    for l in cfg:
        f = l.split()
        if f and f[0] == "acct":
            un = lambda x: "" if x == "." else bytes.fromhex(x).decode()
            out.append(Acct(un(f[1]), un(f[2]), bytes.fromhex(f[3]), f[4] == "1"))
    return out


def config_lines(accts, perms, admins, raws=()):
    out = []
    for a in accts:
        if getattr(a, "dist", None):
            out.append("acct %s %s %s d%s" % (hx(a.wallet), hx(a.name), a.pk.hex(), hx(a.dist)))
            continue
        out.append("acct %s %s %s %d" % (hx(a.wallet), hx(a.name), a.pk.hex(), (2 if getattr(a, "pass2", False) else 1) if a.unlockable else 0))
    for c, p, ops in perms:
        out.append("perm %s %s %s" % (hx(c), hx(p), ",".join(hx(o) for o in ops) if ops else "-"))
    for ip in admins:
        out.append("admin %s" % hx(ip))
    for k, v in raws:
        out.append("raw %s %s" % (k.hex(), v.hex()))
    out.append("begin")
    return out


def dom32(prefix, rng, kind=None):
    kind = kind or rng.weighted([("zero", 3), ("rand", 3)])
    if kind == "zero":
        return prefix + bytes(28)
    return prefix + bytes(rng.below(256) for _ in range(28))


def root(rng, tag=None):
    """a 32-byte root from a small tag (so equal/different roots are both frequent)"""
    t = tag if tag is not None else rng.below(4)
    return bytes([0xA0 + t]) * 32


def optbytes(b):
    return "-" if b is None else hx(b)


class HistGen:
    """Generates one history. Tracks a rough per-key high-water mark to aim epochs at the boundary."""

    def __init__(self, rng, accts, opts):
        self.r = rng
        self.accts = accts
        self.opts = opts
        self.hi_t = {}
        self.hi_s = {}
        self.hi_slot = {}

    def addr(self, a, allow_both=True):
        k = self.r.weighted([("n", 5), ("k", 4), ("b", 2 if allow_both else 0)])
        if k == "n":
            return "n:" + hx(a.path)
        if k == "k":
            # the fetcher resolves a key by its first 48 bytes: sometimes send a longer spelling
            extra = ""
            if not self.opts.get("clean") and self.r.chance(0.10):
                extra = self.r.choice(["00", "ff", "0102", "00" * 16])
            return "k:" + a.pk.hex() + extra
        # name and key together; half of the time they name DIFFERENT accounts (the key is what resolves)
        other = self.r.choice(self.accts) if self.r.chance(0.5) else a
        return "b:%s:%s" % (hx(other.path), a.pk.hex())

    def epoch_pair(self, a):
        r = self.r
        ht = self.hi_t.get(a.pk, -1)
        hs = self.hi_s.get(a.pk, -1)
        mode = r.weighted([("advance", 50), ("same_t", 8), ("lower_t", 6), ("lower_s", 6), ("surround", 6),
                           ("genesis", 3), ("equal", 3), ("huge", 6 if self.opts.get("huge", True) else 0),
                           ("rand", 4)])
        if mode == "advance":
            s = max(hs, 0) + r.below(3)
            t = max(ht + 1, s + 1) + r.below(3)
        elif mode == "same_t":
            t = max(ht, 1)
            s = min(max(hs, 0), t - 1) if t > 0 else 0
        elif mode == "lower_t":
            t = max(ht - 1 - r.below(2), 1)
            s = min(max(hs, 0), max(t - 1, 0))
        elif mode == "lower_s":
            s = max(hs - 1 - r.below(2), 0)
            t = max(ht + 1, s + 1)
        elif mode == "surround":
            s = max(hs - 1, 0)
            t = ht + 2
        elif mode == "genesis":
            s, t = 0, 0
        elif mode == "equal":
            s = t = max(ht, 1) + r.below(3)
        elif mode == "huge":
            t = r.choice([TWO63 - 2, TWO63 - 1, TWO63, TWO63 + 1, TWO64 - 2, TWO64 - 1, 1 << 31, 1 << 32])
            s = r.choice([max(hs, 0), t - 1, 0, max(t - 2, 0), TWO63 - 1, TWO63])
        else:
            s, t = r.below(50), r.below(50)
        s = max(0, min(s, TWO64 - 1))
        t = max(0, min(t, TWO64 - 1))
        return s, t

    def note_att(self, a, s, t):
        if s <= TWO63 - 1 and t <= TWO63 - 1 and (t > s or (s == 0 and t == 0)):
            if t > self.hi_t.get(a.pk, -1) and s >= self.hi_s.get(a.pk, -1):
                self.hi_t[a.pk], self.hi_s[a.pk] = t, s

    def att_data(self, a, domkind=None):
        r = self.r
        s, t = self.epoch_pair(a)
        dk = domkind or r.weighted([("att", 88), ("prop", 3), ("exit", 2), ("other", 2), ("short", 2), ("nil", 1),
                                    ("near", 2)])
        if dk == "att":
            dom = dom32(DOM_ATT, r)
            self.note_att(a, s, t)
        elif dk == "prop":
            dom = dom32(DOM_PROP, r)
        elif dk == "exit":
            dom = dom32(DOM_EXIT, r)
        elif dk == "other":
            dom = dom32(bytes([r.below(256) for _ in range(4)]), r)
            if dom[:4] == DOM_ATT:
                self.note_att(a, s, t)
        elif dk == "near":
            dom = dom32(r.choice([bytes([0, 0, 0, 1]), bytes([1, 0, 0, 1]), bytes([1, 1, 0, 0]), bytes([0, 1, 0, 0])]), r)
        elif dk == "short":
            dom = r.choice([DOM_ATT, DOM_ATT + bytes(27), DOM_ATT + bytes(29), bytes([1]), bytes([1, 0]), b""])
            if (dom + bytes(4))[:4] == DOM_ATT:
                self.note_att(a, s, t)
        else:
            dom = None
        clean = self.opts.get("clean")
        nilroot = r.weighted([(None, 1), ("bbr", 1), ("src", 1), ("tgt", 1)]) if (r.chance(0.03) and not clean) else None
        bbr = None if nilroot == "bbr" else root(r)
        sr = None if nilroot == "src" else root(r)
        tr = None if nilroot == "tgt" else root(r)
        if r.chance(0.04) and not clean:
            bbr = r.choice([b"\x01", bytes(31) + b"\x07", bytes(range(40)), b""])
        slot = r.choice([0, 1, t * 32 % TWO64, TWO64 - 1, r.below(1000)])
        cidx = r.choice([0, 1, 63, TWO64 - 1])
        return "%s,%d,%d,%s,%d,%s,%d,%s" % (optbytes(dom), slot, cidx, optbytes(bbr), s, optbytes(sr), t, optbytes(tr))

    def faults(self, batch_n=1):
        r = self.r
        if not self.opts.get("faults", False) or not r.chance(self.opts.get("fault_rate", 0.12)):
            return "-"
        k = r.weighted([("f", 4), ("s", 3), ("S", 3), ("g", 3), ("b", 2), ("u", 2)] + ([("r", 3)] if batch_n > 1 else []))
        if k == "r":
            # the ruler answers for the first 1..n-1 requests only
            return "r%d" % (1 + r.below(batch_n - 1))
        if k == "f":
            return "f%d" % r.below(batch_n)
        if k == "g":
            return "g%d" % r.below(batch_n)
        return k

    def client(self):
        return self.r.weighted([("client1", 44), ("client2", 8), ("client3", 10), ("client4", 14), ("client5", 7), ("client6", 7), ("clientall", 12), ("nobody", 4), ("", 2)])

    def pick_acct(self):
        # the locked account costs a keystore decryption attempt per request: pick it rarely
        a = self.r.choice(self.accts)
        if not a.unlockable and not self.r.chance(0.15):
            a = self.r.choice([x for x in self.accts if x.unlockable])
        return a

    def clean_op(self):
        """well-formed, authorised, fault-free requests only (C09 / C11)"""
        r = self.r
        good = [a for a in self.accts if a.unlockable and a.wallet == "Wallet 1"]
        kind = r.weighted([("att", 40), ("atts", 30), ("prop", 20), ("restart", 4), ("export", 6)])
        c = r.choice(["client1", "clientall"])
        # client4 holds layered, overlapping entries that authorise everything on "Account 1" only
        def c_for(accts_):
            return "client4" if all(x.name == "Account 1" for x in accts_) and r.chance(0.6) else c
        if kind == "att":
            a = r.choice(good)
            c = c_for([a])
            return "att %s - %s %s -" % (hx(c), self.addr(a, allow_both=False), self.att_data(a, "att"))
        if kind == "atts":
            n = r.weighted([(1, 1), (2, 4), (3, 4), (len(good), 3)])
            picks = r.shuffle(good)[:n]
            c = c_for(picks)
            return "atts %s - - %s" % (hx(c), ";".join(self.addr(a, allow_both=False) + "," + self.att_data(a, "att") for a in picks))
        if kind == "prop":
            a = r.choice(good)
            c = c_for([a])
            hs_ = self.hi_slot.get(a.pk, -1)
            mode = r.weighted([("adv", 60), ("same", 15), ("lower", 12), ("edge", 5), ("zero", 8)])
            slot = {"adv": hs_ + 1 + r.below(3), "same": max(hs_, 0), "lower": max(hs_ - 1 - r.below(3), 0),
                    "edge": r.choice([TWO63 - 1, TWO63 - 2]), "zero": 0}[mode]
            if slot <= TWO63 - 1 and slot > hs_:
                self.hi_slot[a.pk] = slot
            rt = root(r).hex()
            return "prop %s - %s %s,%d,%d,%s,%s,%s -" % (hx(c), self.addr(a, allow_both=False), dom32(DOM_PROP, r).hex(), slot,
                                                          r.choice([0, 7]), rt, root(r).hex(), root(r).hex())
        return kind

    def op(self):
        r = self.r
        if self.opts.get("clean"):
            return self.clean_op()
        kind = r.weighted(self.opts.get("weights") or
                          [("att", 34), ("atts", 24), ("prop", 16), ("sign", 7), ("msign", 6), ("restart", 4),
                           ("export", 6), ("unknown", 3)])
        ip = r.weighted([("-", 5), (hx("10.0.0.1"), 3), (hx("10.0.0.2"), 2), (hx("::1"), 1), (hx("0:0:0:0:0:0:0:1"), 1)])
        if kind == "att":
            a = self.pick_acct()
            return "att %s %s %s %s %s" % (hx(self.client()), ip, self.addr(a), self.att_data(a), self.faults())
        if kind == "atts":
            n = r.weighted([(1, 2), (2, 5), (3, 5), (5, 3), (len(self.accts), 2), (len(self.accts) + 3, 1)])
            dup = r.chance(0.12)
            if dup or n > len(self.accts):
                picks = [self.pick_acct() for _ in range(n)]
            else:
                picks = r.shuffle([a for a in self.accts if a.unlockable or r.chance(0.1)])[:n]
            c = self.client() if not r.chance(0.5) else "clientall"
            items = [self.addr(a, allow_both=False) + "," + self.att_data(a) for a in picks]
            return "atts %s %s %s %s" % (hx(c), ip, self.faults(len(items)), ";".join(items))
        if kind == "prop":
            a = self.pick_acct()
            hs = self.hi_slot.get(a.pk, -1)
            mode = r.weighted([("adv", 55), ("same", 15), ("lower", 10), ("huge", 10 if self.opts.get("huge", True) else 0), ("zero", 5), ("rand", 5)])
            if mode == "adv":
                slot = hs + 1 + r.below(3)
            elif mode == "same":
                slot = max(hs, 0)
            elif mode == "lower":
                slot = max(hs - 1 - r.below(3), 0)
            elif mode == "huge":
                slot = r.choice([TWO63 - 1, TWO63, TWO63 + 1, TWO64 - 1, TWO63 - 2])
            elif mode == "zero":
                slot = 0
            else:
                slot = r.below(100)
            dk = r.weighted([("prop", 88), ("att", 4), ("exit", 2), ("short", 3), ("nil", 1), ("near", 2)])
            if dk == "prop":
                dom = dom32(DOM_PROP, r)
            elif dk == "att":
                dom = dom32(DOM_ATT, r)
            elif dk == "exit":
                dom = dom32(DOM_EXIT, r)
            elif dk == "near":
                dom = dom32(r.choice([bytes([0, 0, 0, 1]), bytes([0, 1, 0, 0])]), r)
            elif dk == "short":
                dom = r.choice([DOM_PROP, bytes(31), bytes(33), b"\x00", b""])
            else:
                dom = None
            if dom is not None and (dom + bytes(4))[:4] == DOM_PROP and slot <= TWO63 - 1 and slot > hs:
                self.hi_slot[a.pk] = slot
            nr = r.weighted([(None, 1), ("p", 1), ("s", 1), ("b", 1)]) if r.chance(0.03) else None
            pr = None if nr == "p" else root(r)
            sr = None if nr == "s" else root(r)
            br = None if nr == "b" else root(r)
            d = "%s,%d,%d,%s,%s,%s" % (optbytes(dom), slot, r.choice([0, 7, TWO64 - 1]), optbytes(pr), optbytes(sr), optbytes(br))
            return "prop %s %s %s %s %s" % (hx(self.client()), ip, self.addr(a), d, self.faults())
        if kind in ("sign", "msign"):
            def sd():
                dk = r.weighted([("randao", 30), ("sel", 10), ("exit", 25), ("att", 12), ("prop", 12), ("rand", 5), ("short", 4), ("nil", 2)])
                dom = {"randao": DOM_RANDAO, "sel": DOM_SEL, "exit": DOM_EXIT, "att": DOM_ATT, "prop": DOM_PROP}.get(dk)
                if dom is not None:
                    dom = dom32(dom, r)
                elif dk == "rand":
                    dom = bytes(r.below(256) for _ in range(32))
                elif dk == "short":
                    dom = r.choice([DOM_RANDAO, DOM_ATT, DOM_EXIT + bytes(27), b"\x04", b""])
                data = root(r)
                if r.chance(0.05):
                    data = r.choice([None, b"", bytes(31), bytes(33)])
                return "%s,%s" % (optbytes(dom), optbytes(data))
            if kind == "sign":
                a = self.pick_acct()
                f = "g0" if self.opts.get("faults") and r.chance(0.05) else "-"
                return "sign %s %s %s %s %s" % (hx(self.client()), ip, self.addr(a), sd(), f)
            n = r.weighted([(1, 2), (2, 4), (4, 3), (len(self.accts), 2)])
            picks = r.shuffle([a for a in self.accts if a.unlockable or r.chance(0.1)])[:n] if not r.chance(0.1) else [self.pick_acct() for _ in range(n)]
            c = self.client() if not r.chance(0.5) else "clientall"
            f = "g%d" % r.below(len(picks)) if self.opts.get("faults") and r.chance(0.08) else "-"
            if f == "-" and len(picks) > 1 and self.opts.get("faults") and r.chance(0.04):
                f = "r%d" % (1 + r.below(len(picks) - 1))
            return "msign %s %s %s %s" % (hx(c), ip, f, ";".join(self.addr(a, allow_both=False) + "," + sd() for a in picks))
        if kind == "restart":
            return "restart"
        if kind == "export":
            return "export"
        # unknown account / key
        which = r.choice(["name", "key", "none"])
        a = self.accts[0]
        adr = {"name": "n:" + hx("Wallet 1/Nope"), "key": "k:" + (bytes([0xb0]) + bytes(47)).hex(), "none": "-"}[which]
        return "att %s %s %s %s -" % (hx("client1"), ip, adr, self.att_data(a, "att"))


def states_of(line):
    return [p.split(":")[0] for p in line.split()]


def payloads_of(line):
    return [p.split(":")[1] if ":" in p else None for p in line.split()]


def compare_lines(ops, impl, model):
    """returns list of (index, op, impl line, model line) where they disagree (states / export)."""
    bad = []
    for i, op in enumerate(ops):
        il = impl[i] if i < len(impl) else "<missing>"
        ml = model[i] if i < len(model) else "<missing>"
        k = op.split()[0]
        if k in ("att", "atts", "atts0", "prop", "sign", "msign"):
            f_ = op.split()
            fl_ = f_[5] if k in ("att", "prop", "sign") and len(f_) > 5 else (f_[3] if k in ("atts", "msign") and len(f_) > 3 else "-")
            if states_of(il) != states_of(ml):
                bad.append((i, op, il, ml))
        elif k == "rbatch":
            continue          # judged by the caller's expectation (the model does not carry 10^5 synthetic keys)
        else:
            if il.strip() != ml.strip():
                bad.append((i, op, il, ml))
    return bad


def key_of_addr(adr, accts):
    if adr == "-":
        return None
    p = adr.split(":")
    if p[0] in ("k", "b"):
        k = bytes.fromhex(p[-1])
        k48 = (k + bytes(48))[:48]
        for a in accts:
            if a.pk == k48:
                return a.pk
        return k48
    name = bytes.fromhex(p[1]).decode() if p[1] != "." else ""
    for a in accts:
        if a.path == name:
            return a.pk
    return None


def released(ops, impl, accts):
    """(kind, key, data-fields, signature hex, op index, position) for every signature the implementation returned"""
    out = []
    for i, op in enumerate(ops):
        if i >= len(impl):
            break
        f = op.split()
        k = f[0]
        pl = payloads_of(impl[i])
        st = states_of(impl[i])
        if k in ("att", "prop", "sign"):
            if pl and pl[0]:
                out.append((k, key_of_addr(f[3], accts), f[4], pl[0], i, 0, st[0]))
        elif k in ("atts", "msign"):
            items = f[4].split(";")
            for j, it in enumerate(items):
                if j < len(pl) and pl[j]:
                    adr, data = it.split(",", 1)
                    out.append(("att" if k == "atts" else "sign", key_of_addr(adr, accts), data, pl[j], i, j, st[j]))
    return out
