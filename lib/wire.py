"""wire engine: raw protobuf wire bytes sent over real gRPC/TLS to a real daemon running in a child process
under an address-space limit; liveness probed after every message.  Serves C20."""
import os
import subprocess
import time

from common import GOENV

VARINT, LEN = 0, 2


def varint(n):
    out = bytearray()
    n &= (1 << 64) - 1
    while True:
        b = n & 0x7F
        n >>= 7
        if n:
            out.append(b | 0x80)
        else:
            out.append(b)
            return bytes(out)


def fld(num, wt, val):
    key = varint((num << 3) | wt)
    if wt == VARINT:
        return key + varint(val)
    if wt == LEN:
        return key + varint(len(val)) + val
    if wt == 1:
        return key + val[:8].ljust(8, b"\0")
    if wt == 5:
        return key + val[:4].ljust(4, b"\0")
    return key


def msg(*fields):
    return b"".join(fields)


LENGTHS = [0, 1, 3, 4, 31, 32, 33, 47, 48, 49, 96, 4096]
INTS = [0, 1, 2, (1 << 31) - 1, 1 << 31, (1 << 32) - 1, 1 << 32, (1 << 63) - 1, 1 << 63, (1 << 64) - 1]

WALLET1_KEY0 = bytes.fromhex("a99a76ed7796f7be22d5b7e85deeb7c5677e88e511e0b337618f8c4eb61349b4bf2d153f649f7b53359fe8b94a38e44c")


def blob(r, n=None):
    n = r.choice(LENGTHS) if n is None else n
    return bytes(r.below(256) for _ in range(n))


def ident(r):
    """the `id` oneof of the signing requests: absent / account (various) / public key (various lengths)"""
    k = r.weighted([("acct", 5), ("key", 4), ("none", 1), ("both", 1), ("badacct", 2), ("emptykey", 1), ("emptyacct", 1)])
    acct = r.choice(["Wallet 1/Account 0", "Wallet 1/Account 15", "Wallet 2/Account 0", "Wallet 9/Nope", "Wallet 1/Nope"])
    if k == "acct":
        return fld(2, LEN, acct.encode())
    if k == "key":
        return fld(1, LEN, r.choice([WALLET1_KEY0, blob(r, 48), blob(r), WALLET1_KEY0 + b"\0"]))
    if k == "none":
        return b""
    if k == "both":
        return fld(1, LEN, WALLET1_KEY0) + fld(2, LEN, acct.encode())
    if k == "badacct":
        return fld(2, LEN, r.choice([b"NoSlash", b"/", b"/x", b"Wallet 1/", b"\xff\xfe/acct", b"a" * 5000]))
    if k == "emptykey":
        return fld(1, LEN, b"")
    return fld(2, LEN, b"")


def opt(r, f, p=0.85):
    """a field that is usually present"""
    return f if r.chance(p) else b""


def checkpoint(r):
    return msg(opt(r, fld(1, VARINT, r.choice(INTS))), opt(r, fld(2, LEN, blob(r))))


def att_data(r):
    return msg(opt(r, fld(1, VARINT, r.choice(INTS))), opt(r, fld(2, VARINT, r.choice(INTS))), opt(r, fld(3, LEN, blob(r))),
               opt(r, fld(4, LEN, checkpoint(r))), opt(r, fld(5, LEN, checkpoint(r))),
               fld(4, LEN, checkpoint(r)) if r.chance(0.05) else b"")


def domain(r):
    k = r.weighted([("att", 3), ("prop", 3), ("exit", 1), ("other", 2), ("len", 4)])
    if k == "len":
        return blob(r)
    pre = {"att": b"\x01\0\0\0", "prop": b"\0\0\0\0", "exit": b"\x04\0\0\0", "other": b"\x02\0\0\0"}[k]
    return pre + blob(r, 28)


def sign_request(r):
    return msg(ident(r), opt(r, fld(3, LEN, blob(r))), opt(r, fld(4, LEN, domain(r))))


def att_request(r):
    return msg(ident(r), opt(r, fld(3, LEN, domain(r))), opt(r, fld(4, LEN, att_data(r))))


def header(r):
    return msg(opt(r, fld(1, VARINT, r.choice(INTS))), opt(r, fld(2, VARINT, r.choice(INTS))), opt(r, fld(3, LEN, blob(r))),
               opt(r, fld(4, LEN, blob(r))), opt(r, fld(5, LEN, blob(r))))


def prop_request(r):
    return msg(ident(r), opt(r, fld(3, LEN, domain(r))), opt(r, fld(4, LEN, header(r))))


def batch(r, one, sizes=(0, 1, 2, 3, 17)):
    n = r.choice(sizes)
    parts = [fld(1, LEN, one(r)) for _ in range(n)]
    if n and r.chance(0.1):
        parts[r.below(n)] = fld(1, LEN, b"")         # an empty (all-default) entry
    return msg(*parts)


def noise(r, m):
    """unknown fields, wrong wire types, truncation"""
    k = r.weighted([("none", 12), ("unknown", 2), ("wrongtype", 2), ("trunc", 1), ("garbage", 1)])
    if k == "unknown":
        return m + fld(99, LEN, blob(r, 5)) + fld(1000, VARINT, 7)
    if k == "wrongtype":
        return fld(3, VARINT, 5) + m
    if k == "trunc" and len(m) > 2:
        return m[:r.below(len(m))]
    if k == "garbage":
        return blob(r, r.choice([1, 7, 64]))
    return m


def gen_messages(r, n, big=False):
    """(method, client, payload bytes, tag)"""
    out = []
    clients = ["client-test01", "client-test02", "client-test03", "client-test09"]
    for _ in range(n):
        c = r.choice(clients)
        k = r.weighted([("sign", 4), ("msign", 4), ("att", 5), ("atts", 5), ("prop", 4), ("list", 3), ("acctlock", 2), ("acctunlock", 2),
                        ("generate", 4), ("walletlock", 2), ("walletunlock", 2), ("dkg", 4)])
        if k == "sign":
            m, p = "/v1.Signer/Sign", sign_request(r)
        elif k == "msign":
            m, p = "/v1.Signer/Multisign", batch(r, sign_request, (0, 1, 2, 3, 17) + ((1000,) if big else ()))
        elif k == "att":
            m, p = "/v1.Signer/SignBeaconAttestation", att_request(r)
        elif k == "atts":
            m, p = "/v1.Signer/SignBeaconAttestations", batch(r, att_request, (0, 1, 2, 3, 17) + ((1000,) if big else ()))
        elif k == "prop":
            m, p = "/v1.Signer/SignBeaconProposal", prop_request(r)
        elif k == "list":
            m = "/v1.Lister/ListAccounts"
            paths = [r.choice([b"Wallet 1", b"Wallet 2/.*", b"Wallet 1/Account [0-9", b"", b"/", b"Wallet 1/(", b"Nope", b"Wallet 1/" + b"a" * 3000, b"\xff"])
                     for _ in range(r.choice([0, 1, 2, 5, 200 if big else 5]))]
            p = msg(*[fld(1, LEN, x) for x in paths])
        elif k in ("acctlock", "acctunlock"):
            m = "/v1.AccountManager/" + ("Lock" if k == "acctlock" else "Unlock")
            p = msg(opt(r, fld(1, LEN, r.choice([b"Wallet 1/Account 3", b"Wallet 1", b"", b"/", b"Wallet 9/x", b"Wallet 1/Nope"]))),
                    opt(r, fld(2, LEN, r.choice([b"pass", b"", b"wrong", blob(r, 4096)])), 0.6))
        elif k == "generate":
            m = "/v1.AccountManager/Generate"
            p = msg(opt(r, fld(1, LEN, r.choice([b"Wallet 1/New %d" % r.below(10 ** 6), b"Wallet 3/New %d" % r.below(10 ** 6), b"Wallet 3", b"", b"Nope/x", b"Wallet 1/Account 0"]))),
                    opt(r, fld(2, LEN, r.choice([b"pass", b""])), 0.7),
                    opt(r, fld(3, VARINT, r.choice([0, 1, 2, 3, 5, 1000, (1 << 32) - 1]))),
                    opt(r, fld(4, VARINT, r.choice([0, 1, 2, 3, 5, 1000, (1 << 32) - 1]))))
        elif k in ("walletlock", "walletunlock"):
            m = "/v1.WalletManager/" + ("Lock" if k == "walletlock" else "Unlock")
            p = msg(opt(r, fld(1, LEN, r.choice([b"Wallet 1", b"Wallet 2", b"", b"Nope", b"Wallet 1/x", b"\xff"]))), opt(r, fld(2, LEN, r.choice([b"pass", b"", b"x"])), 0.5))
        else:
            # key-generation messages from non-peers
            which = r.choice(["Prepare", "Execute", "Commit", "Abort", "Contribute"])
            m = "/v1.DKG/" + which
            ep = msg(fld(1, VARINT, r.choice(INTS)), fld(2, LEN, b"signer-test01"), fld(3, VARINT, r.choice([0, 1, (1 << 32) - 1])))
            if which == "Prepare":
                p = msg(fld(1, LEN, b"Wallet 3/x"), fld(2, VARINT, r.choice([0, 2, (1 << 32) - 1])), *[fld(3, LEN, ep) for _ in range(r.choice([0, 1, 3]))])
            elif which == "Contribute":
                p = msg(fld(1, LEN, b"Wallet 3/x"), opt(r, fld(2, LEN, blob(r))), *[fld(3, LEN, blob(r)) for _ in range(r.choice([0, 1, 3]))])
            elif which == "Commit":
                p = msg(fld(1, LEN, b"Wallet 3/x"), opt(r, fld(2, LEN, blob(r))))
            else:
                p = msg(opt(r, fld(1, LEN, b"Wallet 3/x")))
        out.append((m, c, noise(r, p), k))
    return out


# regular-expression syntax a listing path can carry: unterminated quotes / groups / classes / repeats, escapes at the end,
# flags, named groups, unicode classes, nested repeats, things that are valid alone but not inside a group or anchors
REGEX_PAYLOADS = [b"\\Q", b"\\QAccount 1", b"\\Qa\\E\\Q", b"\\E", b"(", b")", b"(?:", b"(?i", b"(?i)", b"(?P<n>", b"(?P<n>a)", b"[", b"[a-", b"[[:alpha:]",
                  b"[[:alpha:]]", b"\\", b"a\\", b"\\p{Greek", b"\\pN", b"\\C", b"a{2,1}", b"a{1001}", b"a{1000}", b"(a*)*", b"a**", b"a*+", b"|", b"a||b",
                  b"^*", b"$^", b"(?s).*", b"\\z", b"\\A", b"\\b(", b".{0,999}{0,999}", b"(?-i)x", b"(?U)a+", b"\\x{110000}", b"\\x{41", b"\xff\\Q"]


def corpus():
    """hand-written messages (always first)"""
    out = []
    # a client that keeps presenting a wrong passphrase for one account, at a growing pace (0, 0, 1.1, 2.1, 5.1, 5.1 s, then at
    # once): whatever the daemon counts, limits or backs off on repeated failures, it keeps serving; the same for a wallet
    # (first of all, while the account has not been used yet — and locked again explicitly, in case it has)
    out.append(("/v1.AccountManager/Lock", "client-test01", msg(fld(1, LEN, b"Wallet 1/Account 3")), "repeated-bad-unlock"))
    for q_, w_ in enumerate([0, 0, 1100, 2100, 5100, 5100, 50, 50]):
        out.append(("wait:%d:/v1.AccountManager/Unlock" % w_, "client-test01", msg(fld(1, LEN, b"Wallet 1/Account 3"), fld(2, LEN, b"wrong %d" % q_)), "repeated-bad-unlock"))
    out.append(("/v1.AccountManager/Unlock", "client-test01", msg(fld(1, LEN, b"Wallet 1/Account 3"), fld(2, LEN, b"pass")), "repeated-bad-unlock"))
    for q_ in range(8):
        out.append(("/v1.WalletManager/Unlock", "client-test01", msg(fld(1, LEN, b"Wallet 1"), fld(2, LEN, b"wrong %d" % q_)), "repeated-bad-unlock"))
        out.append(("/v1.AccountManager/Unlock", "client-test01", msg(fld(1, LEN, b"Wallet 1/Account 2"), fld(2, LEN, b"wrong %d" % q_)), "repeated-bad-unlock"))
    # the allocation sized by a request field (peers.Suitable): participants = threshold = 2^32-1 on a distributed wallet
    out.append(("/v1.AccountManager/Generate", "client-test01", msg(fld(1, LEN, b"Wallet 3/Huge"), fld(2, LEN, b"pass"), fld(3, VARINT, (1 << 32) - 1), fld(4, VARINT, (1 << 32) - 1)), "generate-huge"))
    # single-participant / degenerate generation asked of the DISTRIBUTED wallet (and threshold/participant corner pairs)
    for pi, (np_, th_) in enumerate([(1, 1), (0, 0), (1, 0), (0, 1), (1, 2), (2, 1), (2, 2), (3, 2), (4, 3)]):
        for cl in ("client-test01", "client-test02"):
            out.append(("/v1.AccountManager/Generate", cl, msg(fld(1, LEN, b"Wallet 3/Single %d" % pi), fld(2, LEN, b"pass"), fld(3, VARINT, np_), fld(4, VARINT, th_)), "generate-dist-corner"))
    out.append(("/v1.AccountManager/Generate", "client-test01", msg(fld(1, LEN, b"Wallet 3/Single np"), fld(3, VARINT, 1), fld(4, VARINT, 1)), "generate-dist-corner"))
    # callers that give up after a few milliseconds, on batches large enough for the deadline to fall anywhere inside the
    # handling (valid requests, advancing epochs): whatever the daemon does with an abandoned request, it keeps serving
    dom_att = bytes([1, 0, 0, 0]) + bytes(28)
    for rnd, dl in enumerate([1, 2, 3, 5, 8, 12, 20, 1, 2, 3, 5, 8]):
        reqs = []
        for ai in range(16):
            data = msg(fld(1, VARINT, 1), fld(2, VARINT, 1), fld(3, LEN, bytes(32)), fld(4, LEN, msg(fld(1, VARINT, 70000 + rnd), fld(2, LEN, bytes(32)))),
                       fld(5, LEN, msg(fld(1, VARINT, 70001 + rnd), fld(2, LEN, bytes(32)))))
            reqs.append(fld(1, LEN, msg(fld(2, LEN, b"Wallet 1/Account %d" % ai), fld(3, LEN, dom_att), fld(4, LEN, data))))
        out.append(("dl:%d:/v1.Signer/SignBeaconAttestations" % dl, "client-test01", msg(*reqs), "abandoned-batch"))
    # batches of every size around the number of processors and its multiples (well-formed entries naming accounts that do not
    # exist): however a batch is split among workers, no worker may be given a range beyond the batch
    dom_r = bytes([2, 0, 0, 0]) + bytes(28)
    for nb in list(range(14, 36)) + [47, 48, 49, 50, 63, 64, 65, 66, 127, 129, 209]:
        ms_ = msg(*[fld(1, LEN, msg(fld(2, LEN, b"Wallet 1/No such %d" % q), fld(3, LEN, bytes(32)), fld(4, LEN, dom_r))) for q in range(nb)])
        out.append(("/v1.Signer/Multisign", "client-test01", ms_, "batch-size-sweep"))
        if nb % 3 == 0 or nb in (17, 33, 49):
            ad_ = msg(fld(1, VARINT, 1), fld(2, VARINT, 1), fld(3, LEN, bytes(32)), fld(4, LEN, msg(fld(1, VARINT, 1), fld(2, LEN, bytes(32)))), fld(5, LEN, msg(fld(1, VARINT, 2), fld(2, LEN, bytes(32)))))
            as_ = msg(*[fld(1, LEN, msg(fld(2, LEN, b"Wallet 1/No such %d" % q), fld(3, LEN, dom_att), fld(4, LEN, ad_))) for q in range(nb)])
            out.append(("/v1.Signer/SignBeaconAttestations", "client-test01", as_, "batch-size-sweep"))
    for rp in REGEX_PAYLOADS:
        for pre in (b"Wallet 1/", b"Nope/", b""):
            out.append(("/v1.Lister/ListAccounts", "client-test01" if pre != b"Nope/" else "client-test02", msg(fld(1, LEN, pre + rp)), "list-regex-syntax"))
        out.append(("/v1.Lister/ListAccounts", "client-test03", msg(fld(1, LEN, b"Wallet 1/Account 1"), fld(1, LEN, b"Wallet 2/" + rp + b"Account")), "list-regex-syntax"))
    out.append(("/v1.AccountManager/Generate", "client-test01", msg(fld(1, LEN, b"Wallet 3/Huge2"), fld(2, LEN, b"pass"), fld(3, VARINT, 1 << 31), fld(4, VARINT, (1 << 30) + 1)), "generate-huge"))
    # short domains (Domain[0:4] on a short slice)
    for n in (1, 2, 3):
        out.append(("/v1.Signer/Sign", "client-test01", msg(fld(2, LEN, b"Wallet 1/Account 0"), fld(3, LEN, bytes(32)), fld(4, LEN, bytes([1] * n))), "short-domain"))
        out.append(("/v1.Signer/SignBeaconProposal", "client-test01", msg(fld(2, LEN, b"Wallet 1/Account 0"), fld(3, LEN, bytes(n)), fld(4, LEN, msg(fld(1, VARINT, 5), fld(3, LEN, bytes(32)), fld(4, LEN, bytes(32)), fld(5, LEN, bytes(32))))), "short-domain"))
    # after an account has been created through dirk at run time, requests naming accounts that do not exist in that
    # wallet (and the new one) take the fetcher's dynamic-account path
    out.append(("/v1.AccountManager/Generate", "client-test01", msg(fld(1, LEN, b"Wallet 1/Fresh account"), fld(2, LEN, b"pass"), fld(3, VARINT, 1), fld(4, VARINT, 1)), "generate-valid"))
    dom4 = bytes([4, 0, 0, 0]) + bytes(28)
    for nm in (b"Wallet 1/Nope", b"Wallet 1/Fresh account", b"Wallet 1/", b"Wallet 1/Fresh"):
        one = msg(fld(2, LEN, nm), fld(3, LEN, bytes([7]) * 32), fld(4, LEN, dom4))
        out.append(("/v1.Signer/Sign", "client-test01", one, "after-generate"))
        out.append(("/v1.Signer/Multisign", "client-test01", msg(fld(1, LEN, one), fld(1, LEN, msg(fld(2, LEN, b"Wallet 1/Account 0"), fld(3, LEN, bytes(32)), fld(4, LEN, dom4)))), "after-generate"))
        ad = msg(fld(1, VARINT, 3), fld(2, VARINT, 1), fld(3, LEN, bytes(32)), fld(4, LEN, msg(fld(1, VARINT, 1), fld(2, LEN, bytes(32)))), fld(5, LEN, msg(fld(1, VARINT, 2), fld(2, LEN, bytes(32)))))
        areq = msg(fld(2, LEN, nm), fld(3, LEN, bytes([1, 0, 0, 0]) + bytes(28)), fld(4, LEN, ad))
        out.append(("/v1.Signer/SignBeaconAttestation", "client-test01", areq, "after-generate"))
        out.append(("/v1.Signer/SignBeaconAttestations", "client-test01", msg(fld(1, LEN, areq)), "after-generate"))
        out.append(("/v1.Signer/SignBeaconProposal", "client-test01", msg(fld(2, LEN, nm), fld(3, LEN, bytes(32)), fld(4, LEN, msg(fld(1, VARINT, 5), fld(3, LEN, bytes(32)), fld(4, LEN, bytes(32)), fld(5, LEN, bytes(32))))), "after-generate"))
        out.append(("/v1.AccountManager/Lock", "client-test01", msg(fld(1, LEN, nm)), "after-generate"))
        out.append(("/v1.AccountManager/Unlock", "client-test01", msg(fld(1, LEN, nm), fld(2, LEN, b"pass")), "after-generate"))
    out.append(("/v1.Lister/ListAccounts", "client-test01", msg(fld(1, LEN, b"Wallet 1/Nope|Fresh.*")), "after-generate"))
    out.append(("/v1.Signer/SignBeaconAttestations", "client-test01", b"", "empty"))
    out.append(("/v1.Signer/Multisign", "client-test01", msg(fld(1, LEN, b""), fld(1, LEN, b"")), "empty-entries"))
    return out


class Daemon:
    """a real daemon in a child process under an address-space limit"""

    def __init__(self, dh, wd, vlimit_kb=16 * 1024 * 1024):
        self.dir = os.path.join(wd, "wire-daemon-%d" % int(time.time() * 1e6))
        os.makedirs(self.dir, exist_ok=True)
        cmd = "ulimit -v %d; exec %s daemon %s" % (vlimit_kb, dh, self.dir)
        self.p = subprocess.Popen(["bash", "-c", cmd], stdin=subprocess.PIPE, stdout=subprocess.PIPE, stderr=subprocess.PIPE, env=GOENV, text=True)
        line = self.p.stdout.readline()
        if not line.startswith("PORT"):
            err = self.p.stderr.read()[-2000:]
            raise RuntimeError("daemon did not start: " + line + err)
        self.port = line.split()[1]

    def alive(self):
        return self.p.poll() is None

    def stop(self):
        try:
            self.p.stdin.close()
        except Exception:
            pass
        try:
            self.p.wait(timeout=5)
        except Exception:
            self.p.kill()
        try:
            err = self.p.stderr.read()
        except Exception:
            err = ""
        return err
