"""crash engine: kill the implementation at every hook point of a history, restart on the same storage
directory, and check that everything returned before the kill is still protected.  Serves C03."""
import os
import shutil
import subprocess

import conc
import hist
from common import GOENV, hx, run_model


def crash_config(keys):
    accts = [hist.Acct("Wallet 1", "Account %d" % i, keys[i]) for i in range(3)]
    perms = [("client1", "Wallet 1", ["All"])]
    return accts, hist.config_lines(accts, perms, [])


def gen_history(r, accts):
    ops = []
    hi = {a.pk: 1 for a in accts}
    slot = {a.pk: 1 for a in accts}
    for _ in range(5 + r.below(4)):
        k = r.weighted([("att", 4), ("atts", 4), ("prop", 3)])
        if k == "att":
            a = r.choice(accts)
            t = hi[a.pk] + r.below(2)
            hi[a.pk] = max(hi[a.pk], t) + (1 if r.chance(0.7) else 0)
            ops.append(conc.att_op(r.choice([conc.name(a), conc.key(a)]), 1, t, r.below(3)))
            if r.chance(0.25):      # the state write fails (not landed): nothing may be released
                ops[-1] = ops[-1][:-1] + "s"
        elif k == "atts":
            ys = r.shuffle(accts)[:2 + r.below(2)]
            items = []
            for y in ys:
                t = hi[y.pk] + r.below(2)
                hi[y.pk] = max(hi[y.pk], t) + 1
                items.append(conc.att_item(conc.name(y), 1, t, r.below(3)))
            ops.append(conc.atts_op(items))
            if r.chance(0.25):
                f_ = ops[-1].split(" ")
                f_[3] = "s"
                ops[-1] = " ".join(f_)
            elif r.chance(0.25):      # the state READ of one entry fails: the batch fails as a whole and nothing is written
                f_ = ops[-1].split(" ")
                f_[3] = "f%d" % r.below(len(items))
                ops[-1] = " ".join(f_)
        else:
            a = r.choice(accts)
            s = slot[a.pk] + r.below(2)
            slot[a.pk] = max(slot[a.pk], s) + 1
            ops.append(conc.prop_op(conc.name(a), s, r.below(3)))
            if r.chance(0.25):
                ops[-1] = ops[-1][:-1] + "s"
    return ops


def run_child(dh, d, lines, kill_at=None, points=True, mark=False, strace=None, timeout=120):
    env = dict(GOENV, DH_DIR=d)
    if points:
        env["DH_POINTS"] = "1"
    if kill_at is not None:
        env["DH_KILL_AT"] = str(kill_at)
    if mark:
        env["DH_MARK"] = "1"
    cmd = [dh, "run", os.path.dirname(d)]
    if strace:
        cmd = ["strace", "-f", "-y", "-e", "trace=openat,write,pwrite64,fdatasync,fsync,msync", "-o", strace] + cmd
    p = subprocess.run(cmd, input="\n".join(lines) + "\n", text=True, stdout=subprocess.PIPE, stderr=subprocess.PIPE,
                       env=env, timeout=timeout)
    return p.stdout.splitlines(), p.returncode, p.stderr


def probes_for(released, accts):
    """requests that conflict with what was released: same target / slot with another root, a surrounding
    and a surrounded vote"""
    out = []
    for (k, key, data, sig, i, j, st) in released:
        a = [x for x in accts if x.pk == key][0]
        f = data.split(",")
        longkey = "k:" + a.pk.hex() + "00"          # an over-long spelling of the same key (resolved by its first 48 bytes)
        if k == "att":
            s, t = int(f[4]), int(f[6])
            out.append(conc.att_op(conc.key(a), s, t, 3))
            if s > 0:
                out.append(conc.att_op(conc.name(a), s - 1, t + 5, 3))
            # the same conflict through the batch endpoint and under the over-long spelling
            out.append(conc.atts_op([conc.att_item(longkey, s, t, 3)]))
            out.append(conc.att_op(longkey, s, t, 3))
        elif k == "prop":
            out.append(conc.prop_op(conc.key(a), int(f[1]), 3))
            out.append(conc.prop_op(longkey, int(f[1]), 3))
    return out
