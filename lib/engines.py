"""Engine runners: generate, execute on implementation and model, diff, judge."""
import os

import hist
from common import Broken, Rng, hx, run_impl, run_model, sh, ddmin


class HistResult:
    def __init__(self):
        self.histories = []      # dicts: cfg(lines), ops, impl, model, bad, accts, opts
        self.crashed = None


def gen_histories(rng, keys, n_hist, n_ops, opts):
    hs = []
    for _ in range(n_hist):
        r = rng.fork()
        accts, perms, admins = hist.std_config(keys, nacct=opts.get("nacct", 5))
        if "admins" in opts:
            admins = r.choice(opts["admins"])
        raws = opts.get("raws", lambda r, accts: [])(r, accts)
        cfg = hist.config_lines(accts, perms, admins, raws)
        g = hist.HistGen(r, accts, opts)
        ops = [g.op() for _ in range(n_ops)]
        if opts.get("final_export", True):
            ops.append("export")
        hs.append({"cfg": cfg, "ops": ops, "accts": accts, "opts": opts})
    return hs


def _exec_chunk(dh, wd, hs, env):
    lines = []
    for h in hs:
        lines.append("reset")
        lines += h["cfg"]
        lines += h["ops"]
    impl, crashed, err = run_impl(dh, wd, lines, env=env)
    model = run_model(lines)
    pos = 0
    for h in hs:
        n = 1 + len(h["ops"])    # begin + ops
        h["impl"] = impl[pos + 1:pos + n]
        h["model"] = model[pos + 1:pos + n]
        h["begin"] = (impl[pos] if pos < len(impl) else "<missing>", model[pos] if pos < len(model) else "<missing>")
        pos += n
        h["bad"] = hist.compare_lines(h["ops"], h["impl"], h["model"])
        if h["begin"][0] != h["begin"][1]:
            h["bad"].insert(0, (-1, "begin", h["begin"][0], h["begin"][1]))
    return crashed, err


def exec_histories(dh, wd, hs, env=None, jobs=None):
    """Runs all histories through implementation and model (a few processes in parallel), fills
    impl/model/bad of each history."""
    from concurrent.futures import ThreadPoolExecutor
    jobs = jobs or min(12, max(1, len(hs) // 4))
    chunks = [hs[i::jobs] for i in range(jobs)]
    chunks = [c for c in chunks if c]
    crashed, err = False, ""
    # batch entries are spread over workers by GOMAXPROCS: vary it so that extents of more than one entry occur
    envs = []
    for k, ch in enumerate(chunks):
        e = dict(env or {})
        gmp = e.get("GOMAXPROCS") or [None, "1", "2", "3"][k % 4]
        if gmp:
            e["GOMAXPROCS"] = gmp
        for h in ch:
            h["env"] = e
        envs.append(e)
    with ThreadPoolExecutor(max_workers=jobs) as ex:
        for c, e in ex.map(lambda ke: _exec_chunk(dh, wd, ke[0], ke[1]), zip(chunks, envs)):
            if c:
                crashed, err = True, e
    return crashed, err


def run_one(dh, wd, cfg, ops, env=None):
    lines = ["reset"] + cfg + ops
    impl, crashed, err = run_impl(dh, wd, lines, env=env)
    model = run_model(lines)
    return impl[1:], model[1:], crashed, err


def shrink_history(dh, wd, h, predicate, env=None, max_trials=60):
    """ddmin over the op list keeping config; predicate(ops, impl, model, crashed) -> still failing?"""
    def fails(ops):
        impl, model, crashed, _ = run_one(dh, wd, h["cfg"], ops, env if env is not None else h.get("env"))
        return predicate(ops, impl, model, crashed)
    return ddmin(list(h["ops"]), fails, max_trials=max_trials)


def judge_slashing(hs, orderfree=False):
    """Evaluates the Lean Spec predicates on what the implementation released.
    Returns list of (history index, kind, key, line index) for violations."""
    lines = []
    index = []
    for hi, h in enumerate(hs):
        lines.append("reset")
        for (k, key, data, sig, i, j, st) in hist.released(h["ops"], h["impl"], h["accts"]):
            if key is None:
                continue
            if k == "att":
                lines.append("jatt %s %s" % (key.hex(), data))
                index.append((hi, "att", key, i, j, data))
            elif k == "prop":
                lines.append("%s %s %s" % ("jpropd" if orderfree else "jprop", key.hex(), data))
                index.append((hi, "prop", key, i, j, data))
    out = run_model(lines)
    bad = []
    for (meta, o) in zip(index, out):
        if o.strip() != "ok":
            bad.append(meta + (o.strip(),))
    return bad, len(index)


def sigcheck(dh, hs):
    """Every signature the implementation returned must verify under the addressed account's key over the signing root of
    THAT entry's data: the model's root where the model predicts success, otherwise the root the Lean model computes for the
    entry's own data (so a signature at a position the model would not have signed is still judged)."""
    lines, index = [], []
    need, need_at = [], []
    for hi, h in enumerate(hs):
        for (k, key, data, sig, i, j, st) in hist.released(h["ops"], h["impl"], h["accts"]):
            mp = hist.payloads_of(h["model"][i]) if i < len(h["model"]) else []
            root = mp[j] if j < len(mp) else None
            if key is None:
                continue
            if root is None:
                f = data.split(",")
                if k == "att" and len(f) == 8:
                    need.append("aroot " + data)
                elif k == "prop" and len(f) == 6:
                    need.append("proot " + data)
                elif k == "sign" and len(f) == 2 and len(f[0]) == 64 and len(f[1]) == 64:
                    need.append("sroot %s %s" % (f[1], f[0]))
                else:
                    continue
                need_at.append(len(lines))
            lines.append([key.hex(), root, sig])
            index.append((hi, i, j))
    if need:
        for at, o in zip(need_at, run_model(need)):
            lines[at][1] = o.strip() if len(o.strip()) == 64 else None
    keep = [q for q, l in enumerate(lines) if l[1]]
    lines, index = [" ".join(lines[q]) for q in keep], [index[q] for q in keep]
    if not lines:
        return [], 0
    rc, out, err = sh([dh, "sigcheck"], input="\n".join(lines) + "\n")
    if rc != 0:
        raise Broken("sigcheck-crash", err[-1000:])
    bad = [m for m, o in zip(index, out.splitlines()) if o.strip() != "ok"]
    return bad, len(lines)
