"""perms engine: permission configurations x probes against the real checker/static, the Lean model of
Check, and the Lean specification firstBearing (judge).  Serves C07 (and C18's access decisions)."""
from common import hx

OPS = ["Sign", "Sign beacon attestation", "Sign beacon proposal", "Access account", "Create account",
       "Lock wallet", "Unlock wallet", "Lock account", "Unlock account"]

WNAMES = ["Wallet1", "Wallet2", "Wallet10", "Val", "Wallet 1"]
ANAMES = ["Acc1", "Acc2", "Acc10", "Validator", "a b"]


def flipcase(s):
    return "".join(c.lower() if c.isupper() else c.upper() for c in s)


def gen_pattern(r, names, intended=None):
    """a pattern from the modelled RE2 fragment, built from the names it is meant to match"""
    n = r.choice(names)
    m = r.choice(names)
    if intended is not None:
        intended += [n, m]
    kind = r.weighted([("lit", 22), ("alt", 18), ("prefix", 8), ("suffix", 6), ("class", 8), ("negclass", 3),
                       ("digit", 6), ("digits", 4), ("opt", 5), ("group", 6), ("anchored", 5), ("anch_l", 4),
                       ("anch_r", 4), ("flag", 4), ("case", 6), ("dot", 4), ("alt3", 4), ("altanch", 4), ("esc", 2), ("clsesc", 8)])
    if kind == "lit":
        return n
    if kind == "alt":
        return n + "|" + m
    if kind == "alt3":
        return n + "|" + m + "|" + r.choice(names)
    if kind == "altanch":
        return r.choice(["^" + n + "|" + m, n + "|" + m + "$", "^" + n + "$|^" + m + "$", "^" + n + "|" + m + "$"])
    if kind == "prefix":
        return n[:max(1, len(n) - 1)] + ".*"
    if kind == "suffix":
        return ".*" + n[-1]
    if kind == "class":
        return n[:-1] + "[" + n[-1] + m[-1] + "]"
    if kind == "negclass":
        return "[^x]" + n[1:]
    if kind == "digit":
        return n.rstrip("0123456789") + "\\d"
    if kind == "digits":
        return n.rstrip("0123456789") + r.choice(["\\d+", "\\d*", "[0-9]+"])
    if kind == "clsesc":
        # Perl class escapes, lower and upper case (an upper-case escape is the complement of the lower-case one)
        stem = n.rstrip("0123456789")
        return r.choice([stem + "\\D", stem + "\\D*", "\\D+", "\\S+", stem + "\\S*", n[:3] + "\\w+", n[:3] + "\\W*" + n[3:],
                         n.replace(" ", "\\s"), n.replace(" ", "\\S"), stem + "\\d+|" + m, "\\w+\\s?\\d*", stem + "\\W?\\d+", "\\D+\\d"])
    if kind == "opt":
        return n + r.choice(["0?", "?", "x?"])
    if kind == "group":
        return "(" + n[:3] + "|" + m[:3] + ")" + r.choice([".*", n[3:], "\\w*"])
    if kind == "anchored":
        return "^" + n + "$"
    if kind == "anch_l":
        return "^" + n
    if kind == "anch_r":
        return n + "$"
    if kind == "flag":
        return "(?i)" + n.lower()
    if kind == "case":
        return flipcase(n)
    if kind == "dot":
        return n[:-1] + "."
    return n.replace(" ", "\\ ") if " " in n else n + "\\.x"


def gen_ops(r):
    n = r.weighted([(0, 1), (1, 6), (2, 6), (3, 4), (4, 1)])
    out = []
    for _ in range(n):
        k = r.weighted([("All", 5), ("None", 3), ("op", 8), ("anti", 6), ("junk", 1)])
        if k == "op":
            o = r.choice(OPS)
        elif k == "anti":
            o = "~" + r.choice(OPS)
        elif k == "junk":
            o = r.choice(["Everything", "~", "sign ", ""])
        else:
            o = k
        if r.chance(0.25):
            o = r.choice([o.lower(), o.upper(), flipcase(o)])
        out.append(o)
    return out


INTENDED = {}


def gen_config(r):
    INTENDED.clear()
    nclients = r.weighted([(1, 3), (2, 4), (3, 2)])
    clients = ["client%d" % (i + 1) for i in range(nclients)]
    cfg = []
    bad = False
    for c in clients:
        for _ in range(r.weighted([(1, 3), (2, 4), (3, 3), (4, 2), (5, 1)])):
            wi, ai = [], []
            w = gen_pattern(r, WNAMES, wi)
            INTENDED.setdefault(c, []).append((wi, ai))
            k = r.weighted([("full", 12), ("walletonly", 3), ("trailing", 2)])
            if k == "full":
                path = w + "/" + gen_pattern(r, ANAMES, ai)
            elif k == "walletonly":
                path = w
            else:
                path = w + "/"
            cfg.append((c, path, gen_ops(r)))
    if r.chance(0.04):
        # a configuration the checker must refuse to build
        which = r.choice(["badre", "emptypath", "slashfirst", "noperm"])
        bad = True
        if which == "badre":
            cfg.append((clients[0], r.choice(["Wallet(", "Wallet1/**", "[", "Wallet1/Acc[", "*x"]), ["All"]))
        elif which == "emptypath":
            cfg.append((clients[0], "", ["All"]))
        elif which == "slashfirst":
            cfg.append((clients[0], "/Acc1", ["All"]))
        else:
            cfg.append(("clientempty", None, None))
    return clients, cfg, bad


def config_lines(cfg):
    out = []
    for (c, path, ops) in cfg:
        if path is None:
            out.append("permclient %s" % hx(c))
        else:
            out.append("perm %s %s %s" % (hx(c), hx(path), ",".join(hx(o) for o in ops) if ops else "-"))
    out.append("begin")
    return out


def probe_names(r, cfg):
    ws, as_ = set(WNAMES), set(ANAMES)
    for n in list(ws):
        ws.update([n + "0", "x" + n, flipcase(n), n.lower(), n[:-1]])
    for n in list(as_):
        as_.update([n + "0", "x" + n, flipcase(n), n.upper(), n[:-1]])
    as_.add("")
    return sorted(ws), sorted(as_)


def gen_probes(r, clients, cfg, n):
    ws, as_ = probe_names(r, cfg)
    out = []
    for _ in range(n):
        c = r.weighted([(r.choice(clients), 10), ("nobody", 1), ("", 1), (r.choice(clients).upper(), 1)])
        w = r.choice(ws)
        a = r.choice(as_)
        if c in INTENDED and r.chance(0.7):
            wi, ai = r.choice(INTENDED[c])
            w = r.choice(wi)
            a = r.choice(ai) if ai else r.choice(ANAMES)
            if r.chance(0.3):
                w = r.choice([w + "0", "x" + w, flipcase(w), w.lower(), w[:-1]])
            if r.chance(0.3):
                a = r.choice([a + "0", "x" + a, flipcase(a), a.upper(), a[:-1], ""])
        acct = r.weighted([(w + "/" + a, 12), (w, 1), ("/" + a, 1), ("", 1)]) if True else ""
        op = r.choice(OPS) if not r.chance(0.05) else r.choice(["Nope", "", "all", "None"])
        out.append("check %s %s %s" % (hx(c), hx(acct), hx(op)))
    return out
