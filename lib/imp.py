"""imp engine: the built dirk binary's --import/--export-slashing-protection on real storage directories,
against the Lean model of the command-level import (Dirk.Model.Import).  Serves C10 and C11."""
from common import hx

G = "0x" + "00" * 31 + "01"
KEYS = [bytes([0x10 + i]) * 48 for i in range(4)]

ODD_NUMS = ["-1", "-5", "+7", "007", "", "1_0", "9223372036854775807", "9223372036854775808", "abc", " 5",
            "18446744073709551615", "0x10", "1e3", "-0", "+0"]


def num(r, lo=0, hi=30):
    if r.chance(0.06):
        return r.choice(ODD_NUMS)
    return str(lo + r.below(hi - lo + 1))


def pk_text(r, k):
    form = r.weighted([("0x", 12), ("plain", 3), ("upper", 2), ("short", 1), ("long", 1), ("bad", 1), ("odd", 1), ("empty", 1)])
    h = k.hex()
    if form == "0x":
        return "0x" + h
    if form == "plain":
        return h
    if form == "upper":
        return "0x" + h.upper()
    if form == "short":
        return "0x" + h[:20]
    if form == "long":
        return "0x" + h + "abcdef0102"
    if form == "bad":
        return "0xzz" + h[4:]
    if form == "odd":
        return "0x" + h[:-1]
    return ""


def hs(s):
    return hx(s) if s else "."


def gen_import(r, good_only=False):
    gvr_flag = G
    meta = ("5", G)
    if not good_only and r.chance(0.12):
        k = r.choice(["flag_empty", "flag_nothex", "flag_short", "mismatch", "version", "nometa", "no0x_both", "case"])
        if k == "flag_empty":
            gvr_flag = ""
        elif k == "flag_nothex":
            gvr_flag = "0xnothex"
            meta = ("5", gvr_flag)
        elif k == "flag_short":
            gvr_flag = "0x" + "00" * 31
            meta = ("5", gvr_flag)
        elif k == "mismatch":
            meta = ("5", "0x" + "00" * 31 + "02")
        elif k == "version":
            meta = (r.choice(["4", "", "5.0", "05", "6"]), G)
        elif k == "nometa":
            meta = None
        elif k == "no0x_both":
            gvr_flag = G[2:]
            meta = ("5", G[2:])
        else:
            meta = ("5", G.upper().replace("0X", "0x") if False else "0x" + "00" * 31 + "01".upper())
    entries = []
    for _ in range(r.weighted([(0, 1), (1, 6), (2, 6), (3, 4), (5, 2)])):
        k = r.choice(KEYS)
        pk = pk_text(r, k) if not good_only else "0x" + k.hex()
        blocks = [num(r) if not good_only else str(r.below(30)) for _ in range(r.weighted([(0, 4), (1, 5), (2, 2), (3, 1)]))]
        atts = [((num(r), num(r)) if not good_only else (str(r.below(30)), str(r.below(30))))
                for _ in range(r.weighted([(0, 4), (1, 5), (2, 2), (3, 1)]))]
        entries.append((pk, blocks, atts))
    return gvr_flag, meta, entries


def import_line(gvr_flag, meta, entries):
    m = "-" if meta is None else "%s,%s" % (hs(meta[0]), hs(meta[1]))
    if entries:
        es = ";".join("%s,%s,%s" % (hs(pk), ":".join(hs(b) for b in bl) if bl else "-",
                                    ":".join("%s~%s" % (hs(a), hs(b)) for a, b in at) if at else "-")
                      for pk, bl, at in entries)
    else:
        es = "-"
    return "import %s %s %s" % (hs(gvr_flag), m, es)


def gen_scenario(r, good_only=False):
    """ops of one scenario; every import is surrounded by exports"""
    raws = []
    for k in KEYS:
        if r.chance(0.3):
            s = r.below(20)
            raws.append("raw %s %s" % ((k + b"\x02").hex(), (bytes([1]) + s.to_bytes(8, "little") + (s + 1 + r.below(5)).to_bytes(8, "little")).hex()))
        if r.chance(0.3):
            raws.append("raw %s %s" % ((k + b"\x03").hex(), (bytes([1]) + r.below(20).to_bytes(8, "little")).hex()))
    ops = ["export"]
    for _ in range(r.weighted([(1, 2), (2, 4), (3, 3), (4, 2)])):
        kind = r.weighted([("import", 7), ("probeatt", 2), ("probeprop", 2)])
        if kind == "import":
            ops.append(import_line(*gen_import(r, good_only)))
        elif kind == "probeatt":
            s = r.below(25)
            ops.append("probeatt %s %d %d" % (r.choice(KEYS).hex(), s, s + 1 + r.below(4)))
        else:
            ops.append("probeprop %s %d" % (r.choice(KEYS).hex(), r.below(30)))
        ops.append("export")
    # final probes around the watermark are added by the caller from the model's export
    return raws + ["begin"], ops


def big_keys(n):
    return [i.to_bytes(2, "big") + bytes([0x55]) * 46 for i in range(n)]


def big_store_raws(n, step=10):
    """a store of 2n records (n keys, each with an attestation and a proposal record) whose values fall as the key
    grows: whatever aliases a record with one further along the store's key order shows as a lowered value"""
    raws = []
    ks = big_keys(n)
    for i, k in enumerate(ks):
        s = 100000 - step * i
        raws.append("raw %s %s" % ((k + b"\x02").hex(), (bytes([1]) + s.to_bytes(8, "little") + (s + 1).to_bytes(8, "little")).hex()))
        raws.append("raw %s %s" % ((k + b"\x03").hex(), (bytes([1]) + (s + 7).to_bytes(8, "little")).hex()))
    return raws, ks


def parse_export(line):
    out = {}
    if not line.startswith("E"):
        return None
    for tok in line.split()[1:]:
        k, a, b, c = tok.split(":")
        out[k] = (a, b, c)
    return out
