"""conc engine: lock-call traces, steered concurrent schedules with a linearizability judge, soak and
watchdog runs.  Serves C04 and C15."""
import hist
from common import hx
from hist import DOM_ATT, DOM_PROP


def att_item(adr, s, t, tag):
    r = bytes([0xA0 + tag]) * 32
    return "%s,%s,0,0,%s,%d,%s,%d,%s" % (adr, (DOM_ATT + bytes(28)).hex(), r.hex(), s, r.hex(), t, r.hex())


def att_item3(adr, s, t, bbr, sr, tr):
    """attestation item with the three roots chosen separately"""
    rb, rs, rt = (bytes([0xA0 + x]) * 32 for x in (bbr, sr, tr))
    return "%s,%s,0,0,%s,%d,%s,%d,%s" % (adr, (DOM_ATT + bytes(28)).hex(), rb.hex(), s, rs.hex(), t, rt.hex())


def att_op3(adr, s, t, bbr, sr, tr, client="client1"):
    return "att %s - %s %s -" % (hx(client), adr, att_item3(adr, s, t, bbr, sr, tr).split(",", 1)[1])


def att_op(adr, s, t, tag, client="client1"):
    return "att %s - %s %s -" % (hx(client), adr, att_item(adr, s, t, tag).split(",", 1)[1])


def atts_op(items, client="client1"):
    return "atts %s - - %s" % (hx(client), ";".join(items))


def prop_op(adr, slot, tag, client="client1"):
    r = bytes([0xA0 + tag]) * 32
    return "prop %s - %s %s,%d,1,%s,%s,%s -" % (hx(client), adr, (DOM_PROP + bytes(28)).hex(), slot, r.hex(), r.hex(), r.hex())


def name(a):
    return "n:" + hx(a.path)


def key(a):
    return "k:" + a.pk.hex()


def steered(r, accts, kinds=None):
    """one steered scenario: (prefix ops, parks, [(delay ms, op)], workers)"""
    good = [a for a in accts if a.unlockable and a.wallet == "Wallet 1"]
    a, b, c = good[0], good[1], good[2]
    base = 3 + r.below(5)
    prefix = [att_op(name(x), 1, base, 0) for x in (a, b, c)] + [prop_op(name(a), base, 0)]
    kind = r.weighted([("single-pair", 4), ("batch-vs-single", 5), ("opposite-batches", 4), ("prop-pair", 3), ("mixed", 5),
                       ("batch-vs-batch-overlap", 4), ("deadline-rollback-att", 3), ("deadline-rollback-prop", 3), ("near-identical-singles", 9),
                       ("refused-entry-vs-single", 5)])
    if kinds:
        kind = r.choice(kinds)
    t = base + 1 + r.below(3)
    park_ms = 40 + r.below(40)
    if kind == "single-pair":
        cops = [(0, att_op(r.choice([name(a), key(a)]), 1, t, 1)), (5, att_op(r.choice([name(a), key(a)]), 1, t, 2))]
        parks = "%s:%d" % (a.pk.hex()[:16], park_ms)
    elif kind == "batch-vs-single":
        cops = [(0, atts_op([att_item(name(a), 1, t, 1), att_item(name(b), 1, t, 1)])),
                (8, att_op(name(b), 1, t, 2)), (8, att_op(key(a), 2, t, 3))]
        parks = "%s:%d" % (a.pk.hex()[:16], park_ms)
    elif kind == "opposite-batches":
        cops = [(0, atts_op([att_item(name(a), 1, t, 1), att_item(name(b), 1, t, 1)])),
                (2, atts_op([att_item(name(b), 1, t, 2), att_item(name(a), 1, t, 2)]))]
        parks = "%s:%d,%s:%d" % (a.pk.hex()[:16], park_ms, b.pk.hex()[:16], park_ms)
    elif kind == "batch-vs-batch-overlap":
        cops = [(0, atts_op([att_item(name(a), 1, t, 1), att_item(name(b), 1, t, 1), att_item(name(c), 1, t, 1)])),
                (3, atts_op([att_item(name(c), 1, t, 2), att_item(name(b), 2, t + 1, 2)])),
                (6, att_op(name(b), 1, t + 2, 3))]
        parks = "%s:%d" % (r.choice([a, b, c]).pk.hex()[:16], park_ms)
    elif kind in ("deadline-rollback-att", "deadline-rollback-prop"):
        # request A's state write stalls (slow disk) and its client gives up meanwhile; B, for the same key and further
        # on, is issued while A stalls; C conflicts with B and comes after everything has settled.  Whatever the order
        # in which A and B take effect, B and C must not both be signed.
        stall = 180 + r.below(80)
        dl = 30 + r.below(40)
        if kind.endswith("att"):
            A = att_op(r.choice([name(a), key(a)]), 1, t, 1)
            B = att_op(r.choice([name(a), key(a)]), 2, t + 3, 2)
            C = att_op(r.choice([name(a), key(a)]), 2, t + 3, 3)
        else:
            A = prop_op(r.choice([name(a), key(a)]), base + 1, 1)
            B = prop_op(r.choice([name(a), key(a)]), base + 4, 2)
            C = prop_op(r.choice([name(a), key(a)]), base + 4, 3)
        cops = [("0@%d" % dl, A), (dl + 20 + r.below(30), B), (stall + 150, C)]
        parks = "%s:%d" % (a.pk.hex()[:16], stall)
    elif kind == "near-identical-singles":
        # single requests for one key that differ in ONE root only (same slot, committee, epochs and the other roots),
        # in flight together: at most one of them may be signed
        which = r.weighted([(0, 1), (1, 2), (2, 2)])
        cops = []
        for q in range(2 + r.below(2)):
            roots = [0, 0, 0]
            roots[which] = q
            cops.append((q * 3, att_op3(r.choice([name(a), key(a)]), 1, t, roots[0], roots[1], roots[2])))
        parks = "%s:%d" % (a.pk.hex()[:16], park_ms)
    elif kind == "refused-entry-vs-single":
        # a batch in which key a's entry is refused WITHOUT looking at its record (target below source / not an attester
        # domain / epoch beyond int64) beside an entry that advances, while single requests for a repeat the target the
        # prefix signed, with other roots: whatever the batch writes back for its refused entry, those stay refused
        bad = r.choice([att_item(name(a), t + 2, t + 1, 1), att_item(key(a), hist.TWO63 + 1, hist.TWO63 + 2, 1),
                        att_item(name(a), 1, t, 1).replace((DOM_ATT + bytes(28)).hex(), (bytes([7, 0, 0, 0]) + bytes(28)).hex(), 1)])
        items = [bad, att_item(name(b), 1, t, 1)]
        if r.chance(0.5):
            items.reverse()
        cops = [(0, atts_op(items)), (6 + r.below(6), att_op(r.choice([name(a), key(a)]), 1, base, 2)), (70 + r.below(30), att_op(key(a), 1, base, 3)),
                (75 + r.below(30), att_op(name(a), 0, base + 1, 3))]
        parks = "%s:%d" % (r.choice([a, b]).pk.hex()[:16], park_ms)
    elif kind == "prop-pair":
        s = base + 1
        cops = [(0, prop_op(name(a), s, 1)), (4, prop_op(key(a), s, 2)), (4, prop_op(name(a), s + 1, 3))]
        parks = "%s:%d" % (a.pk.hex()[:16], park_ms)
    else:
        cops = []
        for _ in range(3 + r.below(3)):
            x = r.choice(good[:3])
            k = r.weighted([("att", 5), ("atts", 3), ("prop", 2)])
            if k == "att":
                cops.append((r.below(10), att_op(r.choice([name(x), key(x)]), r.below(2) + 1, t + r.below(2), r.below(4))))
            elif k == "atts":
                ys = r.shuffle(good[:3])[:2 + r.below(2)]
                cops.append((r.below(10), atts_op([att_item(name(y), 1, t + r.below(2), r.below(4)) for y in ys])))
            else:
                cops.append((r.below(10), prop_op(name(x), base + 1 + r.below(2), r.below(4))))
        parks = "%s:%d" % (r.choice(good[:3]).pk.hex()[:16], park_ms) if r.chance(0.8) else "-"
    return kind, prefix, parks, cops, 0


def scenario_lines(prefix, parks, cops, workers):
    lines = list(prefix)
    lines.append("conc %s" % parks)
    for d, op in cops:
        if isinstance(d, str):          # "delay@deadline": the request carries a context deadline (0 = already cancelled)
            lines.append("copd %s %s %s" % (d.split("@")[0], d.split("@")[1], op))
        else:
            lines.append("cop %d %s" % (d, op))
    lines.append("go %d" % workers)
    lines.append("export")
    return lines


def parse_go(line):
    """-> list of (tinv, tres, result string with spaces)"""
    out = []
    for part in line.split(" ; "):
        ti, tr, res = part.strip().split(",", 2)
        out.append((int(ti), int(tr), res.replace("+", " ")))
    return out


def soak(r, accts, n):
    good = [a for a in accts if a.unlockable and a.wallet == "Wallet 1"]
    hi = {a.pk: 2 for a in good}
    cops = []
    for _ in range(n):
        k = r.weighted([("att", 5), ("atts", 4), ("prop", 2)])
        if k == "att":
            x = r.choice(good)
            t = hi[x.pk] + r.below(3)
            hi[x.pk] = max(hi[x.pk], t)
            cops.append((0, att_op(r.choice([name(x), key(x)]), 1, t, r.below(4))))
        elif k == "atts":
            ys = r.shuffle(good)[:2 + r.below(3)]
            items = []
            for y in ys:
                t = hi[y.pk] + r.below(3)
                hi[y.pk] = max(hi[y.pk], t)
                items.append(att_item(r.choice([name(y), key(y)]), 1, t, r.below(4)))
            cops.append((0, atts_op(items)))
        else:
            x = r.choice(good)
            cops.append((0, prop_op(name(x), 2 + r.below(len(cops) // 4 + 3), r.below(4))))
    return cops


def cross_soak(r, accts, n, kind=None):
    """victims with high watermarks are asked again and again for what they already signed (other roots) while other
    keys with low watermarks advance: whatever lets one key's request see another key's record shows as a second
    signature at a signed slot / target.  -> (prefix ops run sequentially first, concurrent ops)"""
    good = [a for a in accts if a.unlockable and a.wallet == "Wallet 1"]
    kind = kind or r.choice(["prop", "att", "mixed"])
    victims = r.shuffle(good)[:1 + r.below(2)]
    others = [a for a in good if a not in victims] or good
    prefix = []
    HI = 1000000
    for v in victims:
        prefix.append(prop_op(name(v), HI, 0))
        prefix.append(att_op(name(v), HI - 1, HI, 0))
    lo = {a.pk: 2 for a in others}
    cops = []
    for _ in range(n):
        if r.chance(0.4):
            v = r.choice(victims)
            adr = r.choice([name(v), key(v)])
            if kind == "prop" or (kind == "mixed" and r.chance(0.5)):
                cops.append((0, prop_op(adr, r.choice([HI, HI, HI - 1, 5]), 1 + r.below(3))))
            else:
                cops.append((0, r.choice([att_op(adr, HI - 1, HI, 1 + r.below(3)), att_op(adr, HI - 2, HI + 1, 1), att_op(adr, 3, HI, 2)])))
        else:
            o = r.choice(others)
            lo[o.pk] += 1
            adr = r.choice([name(o), key(o)])
            if kind == "prop" or (kind == "mixed" and r.chance(0.5)):
                cops.append((0, prop_op(adr, lo[o.pk], r.below(4))))
            else:
                cops.append((0, att_op(adr, 1, lo[o.pk], r.below(4))))
    return prefix, cops


def deadline_soak(r, accts, n):
    """requests whose context is already cancelled or runs out while they queue (a client that gave up), mixed with
    ordinary ones on shared keys, one key parked: every request must still return, and so must those after it"""
    good = [a for a in accts if a.unlockable and a.wallet == "Wallet 1"]
    hi = {a.pk: 2 for a in good}
    cops = []
    for i in range(n):
        ys = r.shuffle(good)[:1 + r.below(3)]
        items = []
        for y in ys:
            hi[y.pk] += 1
            items.append(att_item(r.choice([name(y), key(y)]), 1, hi[y.pk], r.below(4)))
        op = atts_op(items) if len(items) > 1 or r.chance(0.3) else "att %s - %s %s -" % (hx("client1"), items[0].split(",", 1)[0], items[0].split(",", 1)[1])
        k = r.weighted([("plain", 5), ("cancelled", 2), ("short", 3), ("long", 1)])
        d = r.below(30)
        if k == "plain":
            cops.append((d, op))
        elif k == "cancelled":
            cops.append(("%d@0" % d, op))
        elif k == "short":
            cops.append(("%d@%d" % (d, 1 + r.below(20)), op))
        else:
            cops.append(("%d@%d" % (d, 200 + r.below(200)), op))
    parks = "%s:%d" % (r.choice(good).pk.hex()[:16], 60 + r.below(60))
    return parks, cops


def dyn_soak(r, accts, n):
    """accounts created through dirk at run time, then signing requests that address them BY PUBLIC KEY ("d:" addresses)
    while further accounts are being created: every request must return"""
    names = ["Wallet 1/Dyn%d" % i for i in range(3)]
    prefix = ["create %s %s" % (hx("client1"), hx(nm)) for nm in names]
    hi = {nm: 2 for nm in names}
    cops = []
    extra = 0
    # a dense stream of by-key look-ups that end right after the account fetch (the client has no permission), so that
    # account registrations land while look-ups are in flight
    dom = (hist.DOM_RANDAO + bytes(28)).hex()
    for i in range(12):
        cops.append((0, "spin 450 sign %s - d:%s %s,%s -" % (hx("client2"), hx(r.choice(names)), dom, "ab" * 32)))
    for i in range(n):
        if r.chance(0.25):
            extra += 1
            cops.append((r.below(300), "create %s %s" % (hx("client1"), hx("Wallet 1/DynX%d" % extra))))
        else:
            nm = r.choice(names)
            hi[nm] += 1
            adr = "d:" + hx(nm)
            if r.chance(0.5):
                cops.append((r.below(20), att_op(adr, 1, hi[nm], r.below(4))))
            else:
                cops.append((r.below(20), atts_op([att_item(adr, 1, hi[nm], r.below(4))])))
    return prefix, cops
