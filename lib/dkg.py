"""dkg engine: n real process/standard instances joined by a routing sender (through the real receiver
handlers).  Serves C12, C13, C14, C16, C17."""
import itertools

from common import hx

TWO64 = 1 << 64


def idsets(n, r=None):
    base = list(range(1, n + 1))
    sparse = [3, 17, 1000, 65537, 1 << 32, (1 << 40) + 7, 12345678901][:n]
    high = [TWO64 - 1 - i for i in range(n)]
    mixed = ([1, TWO64 - 1, 5, 1 << 63, 2, (1 << 63) + 1, 77])[:n]
    return {"small": base, "sparse": sparse, "near2^64": high, "mixed": mixed}


def cluster_line(ids, timeout=0):
    return "cluster %s %d" % (",".join(str(i) for i in ids), timeout)


def cluster_line_grpc(ids, timeout=0):
    """the instances talk through dirk's own gRPC sender over mutual TLS on loopback (ids 1..n, n <= 5: one test
    certificate per instance)"""
    return "cluster %s %d grpc" % (",".join(str(i) for i in ids), timeout)


def gen_line(ini, acct, t, n, fault="-", client="client1"):
    return "gen %d %s %s %d %d %s" % (ini, hx(client), hx(acct), t, n, fault)


def peer_name(ids, i):
    return "signer-test%02d" % (ids.index(i) + 1)


def c12_scenarios(r, tier):
    """(tag, lines) — success grid incl. every t outside the permitted range"""
    out = []
    ns = [2, 3, 4, 5] if tier != "thorough" else [2, 3, 4, 5, 6, 7]
    k = 0
    for n in ns:
        sets = idsets(n)
        for t in range(0, n + 2):
            kinds = ["small"] if tier != "thorough" and not (2 * t > n and t <= n) else list(sets)
            if tier != "thorough" and 2 * t > n and t <= n:
                kinds = [["small", "sparse", "near2^64", "mixed"][(k + j) % 4] for j in range(2)]
            for kind in kinds:
                ids = sets[kind]
                inits = [ids[0], ids[-1]] if tier != "thorough" else ids
                ini = inits[k % len(inits)]
                k += 1
                acct = "DW/a%d" % k
                lines = [cluster_line(ids), gen_line(ini, acct, t, n), "holds %s" % hx(acct)]
                ok = n != 0 and t <= n and not (t <= n // 2)
                if ok:
                    lines += ["relations %s" % hx(acct), "recover %s" % hx(acct), "use %s" % hx(acct), "shares %s" % hx(acct)]
                    # a second generation under the same name must be refused; a different name works
                    lines += [gen_line(ini, acct, t, n), gen_line(ids[0], acct + "b", t, n, "delay:commit:0:%d:40" % ids[0]), "holds %s" % hx(acct + "b"),
                              "relations %s" % hx(acct + "b")]
                    # the FIRST account again, now that another one has been generated into the same wallet on the same
                    # running instances: still held under its name, consistent and usable
                    lines += ["holds %s" % hx(acct), "relations %s" % hx(acct), "use %s" % hx(acct)]
                out.append(("n=%d t=%d ids=%s" % (n, t, kind), lines))
    # every instance has its OWN view of how the other peers are reached (same ids and names, other ports — forwarded ports,
    # alternative listeners): the participant list every participant stores is the ONE the initiator selected and returns
    for n_, t_, ids_ in ((3, 2, [1, 2, 3]), (4, 3, [1, 2, 3, 4]), (3, 3, [7, 8, 9])):
        for ini_ in (ids_[0], ids_[-1]):
            k += 1
            acct = "DW/v%d" % k
            out.append(("peer-views n=%d t=%d ini=%d" % (n_, t_, ini_), ["cluster %s 0 views" % ",".join(str(i) for i in ids_), gen_line(ini_, acct, t_, n_), "holds %s" % hx(acct),
                                                                      "relations %s" % hx(acct), "use %s" % hx(acct), "recover %s" % hx(acct)]))
    # other refusals: unknown / forbidden client, nd wallet, more participants than peers, tampered commit replies
    ids = [1, 2, 3]
    out.append(("forbidden-client", [cluster_line(ids), gen_line(1, "DW/x1", 2, 3, client="client2"), "holds %s" % hx("DW/x1"),
                                     gen_line(1, "DW/x1", 2, 3, client="nobody"), "holds %s" % hx("DW/x1")]))
    out.append(("nd-wallet", [cluster_line(ids), gen_line(1, "NW/x2", 2, 3), "holds %s" % hx("NW/x2"),
                              gen_line(2, "NW/solo", 1, 1), "holds %s" % hx("NW/solo"), gen_line(2, "DW/solo", 1, 1), "holds %s" % hx("DW/solo")]))
    out.append(("too-many-participants", [cluster_line(ids), gen_line(1, "DW/x3", 3, 4), "holds %s" % hx("DW/x3"),
                                          gen_line(1, "DW/x4", 4, 5), gen_line(1, "DW/x5", 3, 5)]))
    # several successive generations into one wallet, each from another initiator; after each, EVERY account generated so far
    ids3 = [11, 1 << 40, (1 << 64) - 1]
    ls = [cluster_line(ids3)]
    for q, (t_, ini) in enumerate([(2, ids3[0]), (3, ids3[1]), (2, ids3[2])]):
        ls.append(gen_line(ini, "DW/succ%d" % q, t_, 3))
        for q2 in range(q + 1):
            ls += ["holds %s" % hx("DW/succ%d" % q2), "relations %s" % hx("DW/succ%d" % q2), "use %s" % hx("DW/succ%d" % q2)]
    out.append(("successive-generations", ls))
    # more configured peers than requested participants: the threshold is bounded by the PARTICIPANTS (n/2 < t <= n), not by
    # the number of peers
    ids5 = [1, 2, 3, 4, 5]
    ls = [cluster_line(ids5)]
    for q, (n_, t_) in enumerate([(3, 4), (3, 5), (2, 3), (4, 5), (2, 1), (4, 2), (3, 1), (3, 0), (4, 6)]):
        a_ = "DW/pn%d" % q
        ls += [gen_line(ids5[q % 5], a_, t_, n_), "holds %s" % hx(a_)]
    out.append(("threshold-vs-peers", ls))
    # generations for different names of one wallet started at the same moment through different initiators: each reports
    # success and EVERY participant ends holding every one of the accounts (held, consistent, usable)
    for rnd in range(2 if tier != "thorough" else 8):
        ids_c = [1, 2, 3]
        names_c = ["DW/cc%d_%d" % (rnd, q) for q in range(3)]
        ls = [cluster_line(ids_c), "gensp %s 2 3 %s" % (hx("client1"), " ".join("%d:%s" % (ids_c[q], hx(names_c[q])) for q in range(3)))]
        for nm_ in names_c:
            ls += ["holds %s" % hx(nm_), "relations %s" % hx(nm_), "use %s" % hx(nm_)]
        out.append(("concurrent-generations-%d" % rnd, ls))
    for f in ("commitpub:commit:0:2", "commitsig:commit:0:3"):
        out.append(("tampered-commit-reply " + f, [cluster_line(ids), gen_line(1, "DW/x6", 2, 3, f)]))
    # the same over the real transport (dirk's gRPC sender, mutual TLS, the receiver handlers behind the client-info interceptor)
    for (n_, t_) in [(2, 2), (3, 2), (3, 3), (4, 3), (5, 3)] + ([(4, 4), (5, 4), (5, 5)] if tier == "thorough" else []):
        ids_ = list(range(1, n_ + 1))
        acct = "DW/rpc%d_%d" % (n_, t_)
        out.append(("grpc n=%d t=%d" % (n_, t_), [cluster_line_grpc(ids_), gen_line(ids_[(n_ + t_) % n_], acct, t_, n_), "holds %s" % hx(acct), "relations %s" % hx(acct),
                                                 "recover %s" % hx(acct), "use %s" % hx(acct), "shares %s" % hx(acct), gen_line(ids_[0], acct, t_, n_)]))
    # the client leaves the passphrase out (the instances' configured generation passphrase applies): the account must be
    # just as usable
    for (n_, t_, ids_) in [(3, 2, [1, 2, 3]), (2, 2, [1, 2])]:
        acct = "DW/np%d_%d" % (n_, t_)
        out.append(("no-client-passphrase n=%d t=%d" % (n_, t_), [cluster_line(ids_), gen_line(ids_[-1], acct, t_, n_, "nopass"), "holds %s" % hx(acct),
                                                                   "relations %s" % hx(acct), "recover %s" % hx(acct), "use %s" % hx(acct)]))
    # equivocation: one participant hands another a contribution from a different polynomial with the same constant
    # term (it verifies, and the composite key is unchanged): only the final threshold-signature check can notice;
    # whatever is then reported as success must still be one consistent key
    for (n_, t_, ids_) in [(2, 2, [1, 2]), (3, 2, [1, 2, 3]), (3, 3, [2, 9, 400])] + ([(4, 3, [1, 2, 3, 4]), (5, 3, [1, 2, 3, 4, 5])] if tier == "thorough" else []):
        for a_ in ids_:
            for b_ in ids_:
                if a_ < b_:
                    acct = "DW/eq%d_%d_%d_%d" % (n_, t_, a_, b_)
                    out.append(("equivocation n=%d t=%d %d>%d" % (n_, t_, a_, b_),
                                [cluster_line(ids_), gen_line(ids_[0], acct, t_, n_, "equiv:contribute:%d:%d" % (a_, b_)), "holds %s" % hx(acct),
                                 "relations %s" % hx(acct), "recover %s" % hx(acct)]))
    # an earlier attempt committed on one participant only (the others were aborted); a retry under the same name
    # through another instance must not report success, and whatever is reported as success must be one consistent key
    for keep in ([3] if tier != "thorough" else [1, 2, 3]):
        p_ = peer_name(ids, ids[0])
        acct = "DW/retry%d" % keep
        others = [i for i in ids if i != keep]
        lines = [cluster_line(ids)] + [hline("hprepare", i, p_, acct, 2, ids) for i in ids] + [hline("hexecute", i, p_, acct) for i in ids]
        lines += [hline("hcommit", keep, p_, acct)] + [hline("habort", i, p_, acct) for i in others] + ["holds %s" % hx(acct)]
        lines += [gen_line(others[0], acct, 2, 3), "holds %s" % hx(acct), "relations %s" % hx(acct)]
        out.append(("retry-after-partial-commit keep=%d" % keep, lines))
    return out


def c13_scenarios(tier):
    """every fault kind at every message position for small (n, t): must end in an error, no account anywhere"""
    out = []
    nts = [(2, 2), (3, 2), (3, 3)] + ([(4, 3), (4, 4), (5, 3), (5, 4), (5, 5), (6, 4)] if tier == "thorough" else [])
    k = 0
    for (n, t) in nts:
        ids = list(range(1, n + 1)) if (n, t) != (3, 3) else [2, 9, 400]
        ini = ids[0]
        faults = []
        for to in ids:
            faults += ["drop:prepare:0:%d" % to, "err:execute:0:%d" % to]
        for a, b in itertools.combinations(ids, 2):
            for kind in ("drop", "share", "vvecalter", "vvecshort", "vvecempty", "vvecone", "vveclong", "vveclongzero", "replyshare", "replyvvecshort",
                         "replyvvecempty", "replyvveclong", "dupalter", "dupalter0", "dup"):
                faults.append("%s:contribute:%d:%d" % (kind, a, b))
        for f in faults:
            k += 1
            acct = "DW/f%d" % k
            out.append(("n=%d t=%d %s" % (n, t, f), f, [cluster_line(ids), gen_line(ini, acct, t, n, f), "holds %s" % hx(acct),
                                                          # the cluster must still work afterwards
                                                          gen_line(ids[-1], acct + "ok", t, n), "holds %s" % hx(acct + "ok")]))
        # two overlapping generations for one name (a second client / a retry while the first is between its execute
        # phase and its commit requests): the second must fail without effect and the first complete — or, whatever
        # happens, if every generation under the name ended with an error, no instance may hold an account
        if n >= 3:
            k += 1
            acct = "DW/o%d" % k
            out.append(("n=%d t=%d overlap" % (n, t), "overlap", [cluster_line(ids), "gens %d %s %s %d %d 360 %d %d %d" % (ids[0], hx("client1"), hx(acct), t, n, ids[1], max(2, (n - 1) // 2 + 1), n - 1),
                                                                   "holds %s" % hx(acct)]))
        # over the real transport: a request or a reply replaced by a gRPC status (what a proxy, a server-side timeout or
        # a dying peer produces), for every message kind, recipient and a range of codes
        if ids == list(range(1, n + 1)) and n <= 5:
            for kind_ in ("statusreply", "statusreq"):
                for m_ in ("prepare", "execute", "contribute"):
                    # contributions only travel from a lower to a higher id: the lowest id never receives one
                    for to in (ids[1:] if m_ == "contribute" else ids):
                        for code in (["DeadlineExceeded", "Canceled", "Unavailable"] if tier != "thorough" else ["DeadlineExceeded", "Canceled", "Unavailable", "Internal", "ResourceExhausted"]):
                            k += 1
                            acct = "DW/r%d" % k
                            f = "%s:%s:0:%d:%s" % (kind_, m_, to, code)
                            out.append(("grpc n=%d t=%d %s" % (n, t, f), f, [cluster_line_grpc(ids), gen_line(ini, acct, t, n, f), "holds %s" % hx(acct),
                                                                              gen_line(ids[-1], acct + "ok", t, n), "holds %s" % hx(acct + "ok")]))
        # duplicate delivery is harmless
        a, b = ids[0], ids[1]
        k += 1
        out.append(("n=%d t=%d dup" % (n, t), "dup", [cluster_line(ids), gen_line(ini, "DW/d%d" % k, t, n, "dup:contribute:%d:%d" % (a, b)),
                                                        "holds %s" % hx("DW/d%d" % k), "relations %s" % hx("DW/d%d" % k)]))
    return out


MSGS = ["hprepare", "hexecute", "hcontribute", "hcommit", "habort"]


def hline(msg, inst, caller, acct, t=2, parts=None):
    c = hx(caller) if caller else "."
    if msg == "hprepare":
        return "hprepare %d %s %s %d %s" % (inst, c, hx(acct), t, ",".join(str(p) for p in parts))
    return "%s %d %s %s" % (msg, inst, c, hx(acct))


def full_generation(ids, acct, t):
    """a complete generation driven message by message from peer identities"""
    p = peer_name(ids, ids[0])
    lines = [hline("hprepare", i, p, acct, t, ids) for i in ids]
    lines += [hline("hexecute", i, p, acct) for i in ids]
    lines += [hline("hcommit", i, p, acct) for i in ids]
    return lines


def c16_scenarios(tier):
    out = []
    ids = [1, 2, 3]
    t = 2
    callers = ["client1", "", "unknown", "SIGNER-TEST01", "signer-test04", "signer-test1"]
    k = 0
    for state in ("none", "prepared", "executed", "committed"):
        for caller in callers:
            k += 1
            acct = "DW/h%d" % k
            p = peer_name(ids, 1)
            lines = [cluster_line(ids)]
            if state in ("prepared", "executed", "committed"):
                lines += [hline("hprepare", i, p, acct, t, ids) for i in ids]
            if state in ("executed", "committed"):
                lines += [hline("hexecute", i, p, acct) for i in ids]
            if state == "committed":
                lines += [hline("hcommit", i, p, acct) for i in ids]
            for m in MSGS:
                for inst in ids:
                    lines.append(hline(m, inst, caller, acct, t, ids))
            # the messages above must have changed nothing: drive (or re-check) the generation as a peer
            if state == "none":
                lines += full_generation(ids, acct, t)
            elif state == "prepared":
                lines += [hline("hexecute", i, p, acct) for i in ids] + [hline("hcommit", i, p, acct) for i in ids]
            elif state == "executed":
                lines += [hline("hcommit", i, p, acct) for i in ids]
            lines += ["holds %s" % hx(acct), "relations %s" % hx(acct)]
            out.append(("state=%s caller=%r" % (state, caller), lines))
    # the peer table itself: a name under two ids must be refused wherever the two entries stand (adjacent ids or not, first/last,
    # among 2..6 peers, same or different ports), tables with distinct names accepted
    tl = [cluster_line(ids)]
    for n_ in (2, 3, 4, 6):
        base_ = ["signer-test%02d:%d" % (q_ + 1, 8881 + q_) for q_ in range(n_)]
        tl.append("peerscfg " + ",".join(hx(e_) for e_ in base_))
        for a_ in range(n_):
            for b_ in range(a_ + 1, n_):
                for port_ in (None, 9000 + a_):
                    tab_ = list(base_)
                    tab_[b_] = tab_[a_].split(":")[0] + ":" + (str(port_) if port_ else tab_[a_].split(":")[1])
                    tl.append("peerscfg " + ",".join(hx(e_) for e_ in tab_))
    tl += ["peerscfg " + ",".join(hx(e_) for e_ in x_) for x_ in (["a:1", "b:1"], ["a:1", "A:1"], ["a:1", "a :1"], ["host:8881"], ["a:1", "b:2", "c:3", "b:4", "d:5"])]
    out.append(("peer-table-validation", tl))
    # peers are honoured
    for caller_id in ids:
        k += 1
        acct = "DW/p%d" % k
        p = peer_name(ids, caller_id)
        lines = [cluster_line(ids)] + [hline("hprepare", i, p, acct, t, ids) for i in ids] + [hline("hexecute", i, p, acct) for i in ids] + \
                [hline("hcommit", i, p, acct) for i in ids] + ["holds %s" % hx(acct)]
        out.append(("peer %s drives" % p, lines))
    # a participant id this instance has no peer for (configuration skew) while a peer with a higher id exists: the share
    # computed for that id must not be sent to anybody else
    for (idset_, parts_) in [([1, 2, 3, 5], [1, 2, 4]), ([1, 2, 3, 5], [1, 4, 5]), ([2, 3, 7, 9], [2, 5, 9])]:
        k += 1
        acct = "DW/sk%d" % k
        p = peer_name(idset_, idset_[0])
        lines = [cluster_line(idset_)] + [hline("hprepare", i, p, acct, 2, parts_) for i in parts_ if i in idset_] + \
                [hline("hexecute", parts_[0], p, acct), "msglog", "parts %s" % ",".join(str(x) for x in parts_)]
        out.append(("skewed participants %s on %s" % (parts_, idset_), lines))
    # two Execute requests for one account overlapping in time (the peer's is in flight — its contribution exchanges take a while
    # — when the other arrives, and the other way round): the non-peer's is refused, the peer's is answered as if alone
    for (inst_, order_) in ((1, "peer-first"), (2, "peer-first"), (1, "nonpeer-first")):
        for other_ in ("client1", "signer-test04", ""):
            k += 1
            acct = "DW/hx%d" % k
            p = peer_name(ids, 1)
            a_, b_ = (p, other_) if order_ == "peer-first" else (other_, p)
            out.append(("overlapping execute at %d %s other=%r" % (inst_, order_, other_),
                        [cluster_line(ids)] + [hline("hprepare", i, p, acct, t, ids) for i in ids] +
                        ["hexecute2 %d %s %s %s 240" % (inst_, hx(acct), hx(a_) if a_ else ".", hx(b_) if b_ else "."),
                         hline("hexecute", 3, p, acct), hline("hexecute", 2 if inst_ == 1 else 1, p, acct)] + [hline("hcommit", i, p, acct) for i in ids] + ["holds %s" % hx(acct)]))
    # every lower participant's contribution handled one after the other by the highest participant, the replies examined
    # only afterwards (as the gRPC server encodes a reply after the handler has returned, while other calls are handled):
    # each reply must still carry the share of ITS caller
    for idset in ([1, 2, 3], [1, 2, 3, 4, 5], [5, 6, 900, 70000]):
        k += 1
        acct = "DW/so%d" % k
        p = peer_name(idset, idset[0])
        out.append(("share owners at %d" % idset[-1], [cluster_line(idset), hline("hprepare", idset[-1], p, acct, len(idset) // 2 + 1, idset),
                                                     "shareowners %d %s" % (idset[-1], hx(acct))]))
    # what a participant SENDS: the lowest participant executes with every send failing in transit; every share handed to the
    # transport (first attempts and whatever the process does about failures) must be the addressee's own
    for idset in ([1, 2, 3], [1, 2, 3, 4, 5], [5, 6, 900, 70000]):
        for rep_ in range(2):
            k += 1
            acct = "DW/sn%d" % k
            out.append(("sent shares from %d (%d)" % (idset[0], rep_), [cluster_line(idset), "sendowners %d %s" % (idset[0], hx(acct))]))
    # share ownership for all ordered pairs asker < owner
    for idset in ([1, 2, 3], [5, 6, 900, 70000]):
        for owner in idset:
            for asker in idset:
                if asker < owner:
                    k += 1
                    acct = "DW/s%d" % k
                    p = peer_name(idset, idset[0])
                    tt = len(idset) // 2 + 1
                    lines = [cluster_line(idset), hline("hprepare", owner, p, acct, tt, idset), "shareowner %d %d %s" % (owner, asker, hx(acct))]
                    out.append(("share owner=%d asker=%d" % (owner, asker), lines))
                    # the same with a participant list that pairs the asker's endpoint with ANOTHER participant's id:
                    # the share in the reply must still be the one for the authenticated caller's own id
                    for other in idset:
                        if other not in (owner, asker):
                            k += 1
                            acct = "DW/s%d" % k
                            lines = [cluster_line(idset), "hprepares %d %s %s %d %s %d %d" % (owner, hx(p), hx(acct), tt, ",".join(str(x) for x in idset), asker, other),
                                     "shareowner %d %d %s" % (owner, asker, hx(acct))]
                            out.append(("share owner=%d asker=%d listed-as=%d" % (owner, asker, other), lines))
    return out


def c17_scenarios(r, tier):
    out = []
    n_rand = 10 if tier != "thorough" else 120
    ids = [1, 2, 3]
    t = 2
    p = "signer-test02"
    A, B = "DW/la", "DW/lb"
    TO = 3000
    # templates
    T = []
    T.append(("full", [hline("hprepare", i, p, A, t, ids) for i in ids] + [hline("hprepare", 2, p, A, t, ids)] +
              [hline("hexecute", i, p, A) for i in (3, 1, 2)] + [hline("hexecute", 3, p, A), hline("hexecute", 1, p, A)] +
              [hline("hcommit", i, p, A) for i in (2, 1, 3)] + [hline("hcommit", 1, p, A), hline("hexecute", 1, p, A), hline("habort", 2, p, A),
               "holds %s" % hx(A), hline("hprepare", 1, p, A, t, ids), hline("hcommit", 1, p, A), hline("habort", 1, p, A)]))
    T.append(("early-commit-abort", [hline("hcommit", 1, p, A), hline("hexecute", 1, p, A), hline("habort", 1, p, A), hline("hcontribute", 1, p, A),
                                     hline("hprepare", 1, p, A, t, ids), hline("hprepare", 2, p, A, t, ids), hline("hcommit", 1, p, A), hline("hcommit", 2, p, A),
                                     hline("habort", 1, p, A), hline("habort", 1, p, A), hline("hcommit", 1, p, A), hline("habort", 2, p, A), "holds %s" % hx(A)] +
              full_generation(ids, A, t) + ["holds %s" % hx(A)]))
    T.append(("expiry", [hline("hprepare", i, p, A, t, ids) for i in ids] + ["sleep 60", hline("hprepare", 1, p, A, t, ids), "sleep 3600",
                         hline("hexecute", 1, p, A), hline("hcommit", 2, p, A), hline("habort", 3, p, A), "holds %s" % hx(A)] +
              full_generation(ids, A, t) + ["holds %s" % hx(A)]))
    # a VALID contribution from a listed participant, delivered before / after the generation has run out of time with nothing
    # else touching the name in between: accepted while it lives, refused once it is gone (whoever looks the generation up)
    for own_, ask_ in ((3, 1), (2, 1), (3, 2)):
        C_ = "DW/lc%d%d" % (own_, ask_)
        T.append(("contribute-after-expiry-%d-%d" % (own_, ask_), [hline("hprepare", own_, p, C_, t, ids), "hcontributev %d %d %s" % (own_, ask_, hx(C_)), "sleep 3600",
                                                                   "hcontributev %d %d %s" % (own_, ask_, hx(C_)), hline("hexecute", own_, p, C_), hline("hprepare", own_, p, C_, t, ids),
                                                                   "hcontributev %d %d %s" % (own_, ask_, hx(C_)), hline("habort", own_, p, C_), "hcontributev %d %d %s" % (own_, ask_, hx(C_)), "holds %s" % hx(C_)]))
    T.append(("two-names-interleaved", [hline("hprepare", 1, p, A, t, ids), hline("hprepare", 1, p, B, t, ids), hline("hprepare", 2, p, B, t, ids),
                                        hline("hprepare", 2, p, A, t, ids), hline("hprepare", 3, p, A, t, ids), hline("habort", 1, p, B), hline("hprepare", 3, p, B, t, ids),
                                        hline("hexecute", 1, p, A), hline("hexecute", 2, p, A), hline("hexecute", 3, p, A), hline("hcommit", 2, p, B), hline("hcommit", 1, p, A),
                                        hline("hcommit", 2, p, A), hline("hcommit", 3, p, A), hline("habort", 2, p, B), hline("habort", 3, p, B), hline("habort", 3, p, B),
                                        "holds %s" % hx(A), "holds %s" % hx(B)]))
    # staggered expiry: the first name runs out of time while the second, started later on the same instance, is
    # still inside its own timeout; whatever then touches the expired name must leave the other one alone
    for k in range(3 if tier != "thorough" else 12):
        rr = r.fork()
        i = rr.choice(ids)
        X, Y = (A, B) if rr.below(2) == 0 else (B, A)
        touch = rr.choice(["hprepare", "hexecute", "hcommit", "habort", "hcontribute"])
        tl = hline(touch, i, p, X, t, ids) if touch == "hprepare" else hline(touch, i, p, X)
        probe = rr.choice([[hline("hprepare", i, p, Y, t, ids), hline("habort", i, p, Y)], [hline("habort", i, p, Y), hline("habort", i, p, Y)],
                           [hline("hcommit", i, p, Y), hline("hprepare", i, p, Y, t, ids)]])
        T.append(("staggered-expiry-%d" % k, [hline("hprepare", i, p, X, t, ids), "sleep 1500", hline("hprepare", i, p, Y, t, ids), "sleep 2000", tl] + probe +
                  ["sleep 1600", hline("habort", i, p, Y), hline("habort", i, p, X), "holds %s" % hx(A), "holds %s" % hx(B)]))
    # a commit that is refused although every participant has contributed (the key cannot be stored: the name exists
    # already / the wallet cannot hold distributed accounts) leaves the generation active
    N = "NW/keep"
    T.append(("refused-commit-repeated-name", full_generation(ids, A, t) + [hline("hprepare", i, p, A, t, ids) for i in ids] + [hline("hexecute", i, p, A) for i in ids] +
              [hline("hcommit", 1, p, A), hline("hprepare", 1, p, A, t, ids), hline("hcommit", 1, p, A), hline("habort", 1, p, A), hline("habort", 1, p, A),
               hline("hcommit", 2, p, A), hline("habort", 2, p, A), hline("habort", 3, p, A), "holds %s" % hx(A)]))
    T.append(("refused-commit-wallet", [hline("hprepare", i, p, N, t, ids) for i in ids] + [hline("hexecute", i, p, N) for i in ids] +
              [hline("hcommit", 2, p, N), hline("hprepare", 2, p, N, t, ids), hline("habort", 2, p, N), hline("habort", 2, p, N),
               hline("hcommit", 1, p, N), hline("hcommit", 1, p, N), hline("habort", 1, p, N), hline("habort", 3, p, N), "holds %s" % hx(N)]))
    # a participant list naming an id this instance has no peer for: nobody can contribute for it, so no commit may succeed
    U = "DW/unk"
    # an execute whose exchange with the (only) higher participant fails because that one never prepared; the commit that
    # follows must be refused: nobody else has contributed
    for (pa, pb_) in ((1, 2), (2, 3), (1, 3)):
        F = "DW/lf%d%d" % (pa, pb_)
        T.append(("failed-execute-then-commit-%d-%d" % (pa, pb_), [hline("hprepare", pa, p, F, 2, [pa, pb_]), hline("hexecute", pa, p, F), hline("hcommit", pa, p, F),
                                                                  hline("hexecute", pa, p, F), hline("hcommit", pa, p, F), "holds %s" % hx(F),
                                                                  hline("habort", pa, p, F), hline("hprepare", pa, p, F, 2, [pa, pb_]), hline("hcommit", pa, p, F), "holds %s" % hx(F)]))
    # a generation that ended early (abort / commit) and was started again under the same name: the NEW generation lives for
    # the full timeout from ITS start, whatever was scheduled for the old one (3 s timeout: old one started at 0, new one at
    # 1.5 s; at 3.5 s the new one is 2 s old — active; at 5 s it is gone)
    for (i_, how) in ((1, "habort"), (2, "habort"), (3, "habort")):
        R = "DW/lr%d" % i_
        T.append(("restarted-generation-keeps-its-timeout-%d" % i_, [hline("hprepare", i_, p, R, t, ids), hline(how, i_, p, R), "sleep 1500", hline("hprepare", i_, p, R, t, ids),
                                                                     "sleep 2000", hline("hprepare", i_, p, R, t, ids), hline("hexecute", i_, p, R) if False else hline("hprepare", i_, p, R, t, ids),
                                                                     hline("habort", i_, p, R), hline("habort", i_, p, R)]))
    # many names prepared and abandoned (an initiator that died after Prepare); once the timeout has passed they are all
    # gone: any of them, and a name never seen, can be prepared again
    for i_ in (1, 3):
        nm_ = ["DW/lm%d_%d" % (i_, q) for q in range(12)]
        T.append(("many-abandoned-generations-%d" % i_, [hline("hprepare", i_, p, x_, t, ids) for x_ in nm_[:11]] + ["sleep 3600"] +
                  [hline("hprepare", i_, p, nm_[0], t, ids), hline("hprepare", i_, p, nm_[11], t, ids), hline("habort", i_, p, nm_[5]),
                   hline("hprepare", i_, p, nm_[5], t, ids), hline("habort", i_, p, nm_[0]), hline("habort", i_, p, nm_[11])]))
    T.append(("unknown-participant", [hline("hprepare", i, p, U, 3, [1, 2, 3, 4]) for i in ids] + [hline("hexecute", 1, p, U), hline("hcommit", 1, p, U), hline("hcommit", 2, p, U),
                                      hline("hcommit", 3, p, U), "holds %s" % hx(U), hline("habort", 1, p, U), hline("habort", 2, p, U), hline("habort", 3, p, U)]))
    # prepares for one name arriving at the same moment: exactly one may be accepted (a wide participant list makes
    # building the own contribution take long enough for the requests to overlap)
    for k in range(2 if tier != "thorough" else 10):
        rr = r.fork()
        i = rr.choice(ids)
        wide = list(range(1, 30 + rr.below(30)))
        tw = len(wide) // 2 + 1
        T.append(("concurrent-prepare-%d" % k, ["cprepare %d %s %s %d %d %s" % (i, hx(p), hx(A), 6 + rr.below(8), tw, ",".join(str(x) for x in wide)),
                                                 hline("hprepare", i, p, A, t, ids), hline("habort", i, p, A), hline("habort", i, p, A),
                                                 "cprepare %d %s %s %d %d %s" % (i, hx(p), hx(B), 4, t, ",".join(str(x) for x in ids)),
                                                 hline("habort", i, p, B), "holds %s" % hx(A), "holds %s" % hx(B)]))
    ids4 = [1, 2, 3, 5]
    q = "signer-test01"
    T.append(("unlisted-contributor", "ids4", [hline("hprepare", 3, q, A, 2, [1, 3, 5]), hline("hprepare", 1, q, A, 2, [1, 3, 5]), hline("hprepare", 5, q, A, 2, [1, 3, 5]),
                                               hline("hprepare", 2, q, A, 2, [2, 3]), hline("hexecute", 2, q, A), hline("hexecute", 1, q, A), hline("hcommit", 3, q, A),
                                               "holds %s" % hx(A)]))
    for tpl in T:
        if len(tpl) == 3:
            tag, _, lines = tpl
            out.append((tag, [cluster_line(ids4, TO)] + lines))
        else:
            tag, lines = tpl
            out.append((tag, [cluster_line(ids, TO)] + lines))
            # the same lifecycle with callers whose requests carry a deadline (far beyond / well inside the generation
            # timeout): the configured timeout alone decides how long a generation lives
            if any(l.startswith("sleep") for l in lines):
                out.append((tag + "+ctxdl-long", [cluster_line(ids, TO), "ctxdl 60000"] + lines))
                out.append((tag + "+ctxdl-short", [cluster_line(ids, TO), "ctxdl 1500"] + lines))
    # random sequences whose outcome does not depend on map iteration order: executes only when every participant
    # is prepared (or none of the higher ones is), sleeps bounded
    for s in range(n_rand):
        rr = r.fork()
        lines = [cluster_line(ids, TO)]
        if rr.chance(0.3):
            lines.append("ctxdl %d" % rr.choice([60000, 1500]))
        prepared = {A: set(), B: set()}
        executed = {A: set(), B: set()}
        dirty = {A: False, B: False}
        short_sleeps = 0
        long_used = False
        for _ in range(14 + rr.below(10)):
            acct = rr.choice([A, B])
            i = rr.choice(ids)
            ev = rr.weighted([("hprepare", 6), ("hexecute", 5), ("hcommit", 5), ("habort", 3), ("hcontribute", 1), ("sleep", 2), ("holds", 1)])
            if dirty[acct] and ev in ("hexecute", "hcommit", "hprepare"):
                ev = "habort"
            if ev == "hexecute":
                higher = [j for j in ids if j > i]
                ready = all(j in prepared[acct] for j in higher) and i in prepared[acct]
                if not ready and any(j in prepared[acct] for j in higher) and i in prepared[acct]:
                    continue        # outcome would depend on the iteration order
                lines.append(hline("hexecute", i, p, acct))
                if ready and i not in executed[acct]:
                    executed[acct].add(i)
                elif ready:
                    pass
            elif ev == "hprepare":
                lines.append(hline("hprepare", i, p, acct, t, ids))
                prepared[acct].add(i)
            elif ev == "hcommit":
                lines.append(hline("hcommit", i, p, acct))
                # a successful commit removes that instance's session: from here on only aborts / commits for this
                # name, so that no later exchange can fail half-way (which would depend on map iteration order)
                dirty[acct] = True
            elif ev == "habort":
                lines.append(hline("habort", i, p, acct))
                prepared[acct].discard(i)
                executed[acct].discard(i)
                if dirty[acct] and not prepared[acct]:
                    dirty[acct] = False
            elif ev == "hcontribute":
                lines.append(hline("hcontribute", i, p, acct))
            elif ev == "sleep":
                if not long_used and rr.chance(0.3):
                    lines.append("sleep 3600")
                    long_used = True
                    prepared = {A: set(), B: set()}
                    executed = {A: set(), B: set()}
                    dirty = {A: False, B: False}
                    short_sleeps = 0
                elif short_sleeps < 4:
                    lines.append("sleep 50")
                    short_sleeps += 1
            else:
                lines.append("holds %s" % hx(acct))
        lines += ["holds %s" % hx(A), "holds %s" % hx(B)]
        out.append(("random-%d" % s, lines))
    return out


def att9(s, t, tag):
    r = bytes([0xA0 + tag]) * 32
    dom = bytes([1, 0, 0, 0]) + bytes(28)
    return "%s,0,0,%s,%d,%s,%d,%s" % (dom.hex(), r.hex(), s, r.hex(), t, r.hex())


def prop6(slot, tag):
    r = bytes([0xA0 + tag]) * 32
    return "%s,%d,1,%s,%s,%s" % (bytes(32).hex(), slot, r.hex(), r.hex(), r.hex())


def c14_scenarios(r, tier):
    """(tag, n, t, lines, pairs) — pairs: list of (kind, duty1 fields, duty2 fields, [line indices of d1], [line indices of d2])"""
    out = []
    nts = [(3, 2), (4, 3), (5, 3)] if tier != "thorough" else [(n, t) for n in range(2, 8) for t in range(n // 2 + 1, n + 1)]
    npairs = 6 if tier != "thorough" else 14
    for (n, t) in nts:
        ids = list(range(1, n + 1)) if (n + t) % 2 == 0 else [3 * i + 2 for i in range(n)]
        acct = "DW/q%d_%d" % (n, t)
        acct2 = acct + "b"
        lines = [cluster_line(ids), gen_line(ids[r.below(n)], acct, t, n), gen_line(ids[r.below(n)], acct2, t, n)]
        low = {i: 0 for i in ids}      # the second account attests low epochs, advancing per instance
        pairs = []
        for j in range(npairs):
            base = 10 * (j + 1)
            # (every kind at least once per cluster, then at random)
            kinds_ = ["proposal", "double", "double-head", "surround", "surrounded", "double-one-root"]
            kind = kinds_[j] if j < len(kinds_) else r.choice(kinds_)
            if kind == "double":
                d1, d2 = ("iatt", att9(base, base + 5, 0)), ("iatt", att9(base, base + 5, 1))
            elif kind in ("double-head", "double-one-root"):
                # the two votes differ in ONE root only: the head vote (beacon block root), or the source / target root
                a1 = att9(base, base + 5, 0)
                f_ = a1.split(",")
                pos_ = 3 if kind == "double-head" else r.choice([5, 7])
                f_[pos_] = (bytes([0xB7]) * 32).hex()
                d1, d2 = ("iatt", a1), ("iatt", ",".join(f_))
            elif kind == "surround":
                d1, d2 = ("iatt", att9(base + 1, base + 6, 0)), ("iatt", att9(base, base + 7, 1))
            elif kind == "surrounded":
                d1, d2 = ("iatt", att9(base, base + 7, 0)), ("iatt", att9(base + 1, base + 6, 1))
            else:
                d1, d2 = ("iprop", prop6(base, 0)), ("iprop", prop6(base, 1))
            events = []
            for which, d in ((1, d1), (2, d2)):
                k = 1 + r.below(n)
                sub = r.shuffle(ids)[:max(k, t if r.chance(0.7) else k)]
                for i in sub:
                    events.append((which, i, d))
                    if r.chance(0.25):
                        events.append((which, i, d))      # repeated delivery
            # stale requests in between (a lower slot / lower epochs than the pair's): refused or not, they must not
            # disturb what protects the pair
            stale = ("iprop", prop6(max(base - 3, 1), 2)) if kind == "proposal" else ("iatt", att9(max(base - 6, 0), max(base - 4, 1), 2))
            for i in ids:
                for _ in range(r.below(3)):
                    events.append((0, i, stale))
            # a duty that arrives as the FIRST entry of a batch of two, addressed to an account that does not exist, followed by a
            # harmless later attestation of the real account: nothing of that batch may end in a signature over the duty
            if kind != "proposal":
                for which, d in ((1, d1), (2, d2)):
                    for i in r.shuffle(ids)[:r.below(3)]:
                        events.append((3, i, (d, att9(base + 8, base + 9, 2))))
            events = r.shuffle(events)
            # and once in this very order on one instance: first duty, stale request, conflicting duty
            if kind == "proposal" or r.chance(0.7):
                ix = r.choice(ids)
                events += [(1, ix, d1), (0, ix, stale), (2, ix, d2)] if r.chance(0.5) else [(2, ix, d2), (0, ix, stale), (1, ix, d1)]
            if kind != "proposal":
                # and once through the plain single-attestation endpoint, back to back on one instance
                ix = r.choice(ids)
                events += [(1, ix, d1, "iatt"), (2, ix, d2, "iatt")] if r.chance(0.5) else [(2, ix, d2, "iatt"), (1, ix, d1, "iatt")]
            i1, i2 = [], []
            w0 = len(lines)
            for ev_ in events:
                which, i, d = ev_[0], ev_[1], ev_[2]
                if which == 0:
                    lines.append("%s %d %s %s" % (d[0], i, hx(acct), d[1]))
                    continue
                if which == 3:
                    lines.append("iattsu %d %s %s %s %s" % (i, hx("DW/Nobody"), d[0][1], hx(acct), d[1]))
                    continue
                (i1 if which == 1 else i2).append(len(lines))
                # attestations reach an instance through either endpoint (single, or a batch of one)
                opn = "iatts" if d[0] == "iatt" and r.chance(0.5) else d[0]
                if d[0] == "iatt" and which == 1 and r.chance(0.25):
                    opn = "iattb"      # that instance's store refuses the write: nothing recorded, nothing released
                if len(ev_) > 3:
                    opn = ev_[3]
                if opn == "iatts" and r.chance(0.5):
                    # the duty shares its batch with another account's attestation at much lower epochs
                    low[i] += 1
                    lines.append("iatts2 %d %s %s %s %s" % (i, hx(acct), d[1], hx(acct2), att9(low[i], low[i] + 1, 2)))
                else:
                    lines.append("%s %d %s %s" % (opn, i, hx(acct), d[1]))
            pairs.append((kind, d1, d2, i1, i2, (w0, len(lines))))
        # a request whose write stalls while its client gives up (X), a duty further on (A) while X stalls, and — after X's
        # write has landed — the conflicting duty (B): one instance must not sign both A and B
        ix = r.choice(ids)
        bx = 10 * (npairs + 2)
        dA, dB = ("iatt", att9(bx + 4, bx + 5, 0)), ("iatt", att9(bx + 4, bx + 5, 1))
        lines.append("iattx %d %s %s 40 220" % (ix, hx(acct), att9(bx, bx + 1, 2)))
        ia = len(lines); lines.append("iatt %d %s %s" % (ix, hx(acct), dA[1]))
        lines.append("sleep 320")
        ib = len(lines); lines.append("iatt %d %s %s" % (ix, hx(acct), dB[1]))
        pairs.append(("stalled-write", dA, dB, [ia], [ib], (ia - 1, len(lines))))
        lines.append("sharepubs %s" % hx(acct))
        out.append(("n=%d t=%d" % (n, t), n, t, acct, lines, pairs))
    return out
