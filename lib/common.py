"""Shared plumbing of the dirk verification checks: building, running the model driver and the
implementation harness, diffing, evidence, known findings, violation reports."""
import fcntl
import hashlib
import json
import os
import re
import shutil
import subprocess
import sys
import time
import threading

VERIF = os.path.dirname(os.path.dirname(os.path.abspath(__file__)))
REPO = os.environ.get("DIRK_REPO", "/repo")
LEAN = os.path.join(VERIF, "lean")
HARNESS = os.path.join(VERIF, "harness")
WORK = os.path.join(VERIF, ".work")
MODEL_BIN = os.path.join(LEAN, ".lake", "build", "bin", "dirkmodel")

GOENV = dict(os.environ, GOFLAGS="-mod=mod", GOPROXY="off", GOSUMDB="off", GOTOOLCHAIN="local",
             CGO_ENABLED="1", DH_WALLET_CACHE=os.path.join(VERIF, ".work", "wallet-cache"))

ACCEPTED_AXIOMS = {"propext", "Classical.choice", "Quot.sound"}


class Broken(Exception):
    """A tie or proof obligation no longer checks (not by itself a violation)."""

    def __init__(self, what, detail=""):
        super().__init__(what)
        self.what = what
        self.detail = detail


def hx(b):
    if isinstance(b, str):
        b = b.encode()
    return b.hex() if len(b) else "."


def sh(cmd, cwd=None, env=None, timeout=None, input=None):
    p = subprocess.run(cmd, cwd=cwd, env=env, timeout=timeout, input=input, text=True,
                       stdout=subprocess.PIPE, stderr=subprocess.PIPE)
    return p.returncode, p.stdout, p.stderr


class Lock:
    def __init__(self, path):
        self.path = path

    def __enter__(self):
        os.makedirs(os.path.dirname(self.path), exist_ok=True)
        self.f = open(self.path, "w")
        fcntl.flock(self.f, fcntl.LOCK_EX)

    def __exit__(self, *a):
        fcntl.flock(self.f, fcntl.LOCK_UN)
        self.f.close()


# ---------------------------------------------------------------------------------------------
# Builds


def regenerate_facts():
    """factx: regenerate lean/Dirk/Gen/Facts.lean from /repo's current source (rewritten only when it changes)."""
    fx = os.path.join(WORK, "factx-bin")
    rc, o, e = sh(["go", "build", "-o", fx, "."], cwd=os.path.join(VERIF, "factx"), env=GOENV, timeout=600)
    if rc != 0:
        raise Broken("factx-build", (o + e)[-2000:])
    rc, o, e = sh([fx, REPO, os.path.join(LEAN, "Dirk", "Gen", "Facts.lean")], timeout=120)
    if rc != 0:
        raise Broken("factx-run", (o + e)[-2000:])


def build_lean(targets=None):
    """regenerate the facts, then lake build under a lock; raises Broken with the compiler output on failure."""
    with Lock(os.path.join(LEAN, ".lake", "verif.lock")):
        os.makedirs(WORK, exist_ok=True)
        regenerate_facts()
        cmd = ["lake", "build"] + (targets or [])
        rc, out, err = sh(cmd, cwd=LEAN, timeout=3600)
        if rc != 0:
            raise Broken("lean-build", (out + err)[-4000:])
    return True


_harness_bin = None


def build_harness(workdir):
    """go build -tags verif of the harness against /repo's working tree."""
    global _harness_bin
    if _harness_bin and os.path.exists(_harness_bin):
        return _harness_bin
    with Lock(os.path.join(WORK, "harness.lock")):
        shutil.copyfile(os.path.join(REPO, "go.sum"), os.path.join(HARNESS, "go.sum"))
        out = os.path.join(workdir, "dh")
        cmd = ["go", "build", "-tags", "verif", "-o", out]
        if os.path.realpath(REPO) != "/repo":
            # DIRK_REPO names another checkout (background sweeps on a snapshot): same module file, other path
            alt = os.path.join(workdir, "go.alt.mod")
            with open(os.path.join(HARNESS, "go.mod")) as f:
                mod = f.read().replace("=> /repo", "=> " + os.path.realpath(REPO))
            with open(alt, "w") as f:
                f.write(mod)
            shutil.copyfile(os.path.join(REPO, "go.sum"), os.path.join(workdir, "go.alt.sum"))
            cmd.append("-modfile=" + alt)
        rc, o, e = sh(cmd + ["./cmd/dh"], cwd=HARNESS, env=GOENV, timeout=1800)
        if rc != 0:
            raise Broken("harness-build", (o + e)[-4000:])
    _harness_bin = out
    return out


def build_harness_race(workdir):
    """the harness (and with it dirk's packages) built with Go's race detector, for the concurrent burst of C20"""
    out = os.path.join(workdir, "dh-race")
    if os.path.exists(out):
        return out
    with Lock(os.path.join(WORK, "harness.lock")):
        cmd = ["go", "build", "-race", "-tags", "verif", "-o", out]
        if os.path.realpath(REPO) != "/repo":
            alt = os.path.join(workdir, "go.alt.mod")
            if os.path.exists(alt):
                cmd.append("-modfile=" + alt)
        rc, o, e = sh(cmd + ["./cmd/dh"], cwd=HARNESS, env=GOENV, timeout=1800)
        if rc != 0:
            raise Broken("harness-race-build", (o + e)[-3000:])
    return out


_dirk_bin = None


def build_dirk(workdir):
    """go build of the dirk binary itself (package main) from /repo's working tree."""
    global _dirk_bin
    if _dirk_bin and os.path.exists(_dirk_bin):
        return _dirk_bin
    out = os.path.join(workdir, "dirk")
    rc, o, e = sh(["go", "build", "-o", out, "."], cwd=REPO, env=GOENV, timeout=1800)
    if rc != 0:
        raise Broken("dirk-build", (o + e)[-4000:])
    _dirk_bin = out
    return out


def workdir(pid_tag):
    d = os.path.join(WORK, pid_tag + "-" + str(os.getpid()))
    shutil.rmtree(d, ignore_errors=True)
    os.makedirs(d)
    return d


# ---------------------------------------------------------------------------------------------
# Running both sides


def run_model(lines, timeout=600):
    p = subprocess.run([MODEL_BIN], input="\n".join(lines) + "\n", text=True, stdout=subprocess.PIPE,
                       stderr=subprocess.PIPE, timeout=timeout)
    if p.returncode != 0:
        raise Broken("model-driver-crash", p.stderr[-2000:])
    return p.stdout.splitlines()


def run_impl(dh, wd, lines, timeout=900, env=None, engine="run", extra_args=None):
    """Runs the harness in a child process. Returns (output lines, crashed?, stderr tail)."""
    rd = os.path.join(wd, "impl-%d-%d" % (int(time.time() * 1e6), threading.get_ident()))
    os.makedirs(rd, exist_ok=True)
    e = dict(GOENV)
    if env:
        e.update(env)
    cmd = [dh, engine, rd] + (extra_args or [])
    try:
        p = subprocess.run(cmd, input="\n".join(lines) + "\n", text=True, stdout=subprocess.PIPE,
                           stderr=subprocess.PIPE, timeout=timeout, env=e)
        out, rc, err = p.stdout.splitlines(), p.returncode, p.stderr
    except subprocess.TimeoutExpired as ex:
        out = (ex.stdout or b"").decode(errors="replace").splitlines() if isinstance(ex.stdout, bytes) else (ex.stdout or "").splitlines()
        rc, err = -9, "timeout"
    shutil.rmtree(rd, ignore_errors=True)
    return out, rc != 0, err[-3000:]


# ---------------------------------------------------------------------------------------------
# Proof audit


def audit(prop_module, theorems):
    """Checks that each named theorem exists in the built library and depends only on accepted
    axioms. Returns (obligations, discharged, details). Raises Broken if something fails."""
    src = "import %s\n" % prop_module + "".join("#print axioms %s\n" % t for t in theorems)
    path = os.path.join(LEAN, ".lake", "audit-%d-%s.lean" % (os.getpid(), prop_module.replace(".", "_")))
    with open(path, "w") as f:
        f.write(src)
    rc, out, err = sh(["lake", "env", "lean", path], cwd=LEAN, timeout=1800)
    os.unlink(path)
    text = out + err
    details = {}
    ok = 0
    # parse: "'X' depends on axioms: [a, b]" or "'X' does not depend on any axioms"
    for t in theorems:
        m = re.search(r"'%s' depends on axioms: \[([^\]]*)\]" % re.escape(t), text, re.S)
        if m:
            axs = [a.strip() for a in m.group(1).replace("\n", " ").split(",") if a.strip()]
            details[t] = axs
            if set(axs) <= ACCEPTED_AXIOMS:
                ok += 1
        elif re.search(r"'%s' does not depend on any axioms" % re.escape(t), text):
            details[t] = []
            ok += 1
        else:
            details[t] = ["<missing or failed: %s>" % text[-300:]]
    if ok != len(theorems):
        raise Broken("proof-audit", json.dumps(details)[:3000])
    return len(theorems), ok, details


def grep_forbidden():
    """No sorry/admit/axiom/native_decide/… in the Lean sources (comments stripped)."""
    bad = []
    pat = re.compile(r"\b(sorry|admit|native_decide|bv_decide|implemented_by|unsafe)\b|^axiom\s|maxHeartbeats 0")
    for root, _, files in os.walk(LEAN):
        if ".lake" in root:
            continue
        for fn in files:
            if not fn.endswith(".lean"):
                continue
            txt = open(os.path.join(root, fn)).read()
            txt = re.sub(r"/-.*?-/", "", txt, flags=re.S)
            for i, line in enumerate(txt.splitlines()):
                line = line.split("--")[0]
                if pat.search(line):
                    bad.append("%s:%d:%s" % (fn, i + 1, line.strip()))
    if bad:
        raise Broken("forbidden-construct", "\n".join(bad)[:2000])


# ---------------------------------------------------------------------------------------------
# Known findings


def load_known():
    path = os.path.join(VERIF, "known_findings.txt")
    found = []
    if os.path.exists(path):
        for line in open(path):
            line = line.strip()
            m = re.match(r"finding:\s+property=(\S+)\s+key=(\S+)\s+(.*)", line)
            if m:
                found.append((m.group(1), m.group(2), m.group(3)))
    return found


# ---------------------------------------------------------------------------------------------
# Evidence and reports


class Report:
    def __init__(self, pid, tier, seed):
        self.pid, self.tier, self.seed = pid, tier, seed
        self.t0 = time.time()
        self.cov = {"evaluations": 0, "distinct_nontrivial": 0, "rule": "", "samples": [],
                    "obligations": 0, "discharged": 0, "checker_cmd": "", "trusted_base": []}
        self.assumptions = []
        self.violations = []   # (key, description, replay dict)
        self.broken = []       # (what, detail)
        self.distinct = set()
        self.replay_of = None  # path of the replay file being re-executed (./check --replay)

    def add_proof(self, n, ok, details, cmd):
        self.cov["obligations"] += n
        self.cov["discharged"] += ok
        self.cov["checker_cmd"] = cmd
        self.cov.setdefault("theorems", {}).update(details)

    def count(self, key, nontrivial=True):
        self.cov["evaluations"] += 1
        if nontrivial:
            h = hashlib.sha1(key.encode()).hexdigest()[:16]
            self.distinct.add(h)

    def sample(self, s, limit=6):
        if len(self.cov["samples"]) < limit:
            self.cov["samples"].append(s)

    def dist(self, name, key, n=1):
        d = self.cov.setdefault("distribution", {}).setdefault(name, {})
        d[key] = d.get(key, 0) + n

    def violation(self, key, desc, replay):
        if any(k == key for k, _, _ in self.violations):
            return
        self.violations.append((key, desc, replay))

    def finish(self):
        self.cov["distinct_nontrivial"] = len(self.distinct)
        known = [k for k in load_known() if k[0] == self.pid]
        rc = 0
        os.makedirs(os.path.join(VERIF, "replays"), exist_ok=True)
        reported = 0
        lines = []
        for key, desc, replay in self.violations:
            hit = [k for k in known if k[1] == key]
            if hit:
                lines.append("KNOWN-FINDING: property=%s %s" % (self.pid, hit[0][2]))
                continue
            reported += 1
            path = os.path.join(VERIF, "replays", "%s-%s-%d%s.json" % (self.pid, re.sub(r"[^A-Za-z0-9_.-]", "_", key)[:60], self.seed,
                                                                        ".replayed" if self.replay_of else ""))
            with open(path, "w") as f:
                json.dump({"property": self.pid, "seed": self.seed, "tier": self.tier, "key": key,
                           "description": desc, "replay": replay}, f, indent=1)
            lines.append("VIOLATION property=%s replay=%s" % (self.pid, path))
            rc = 1
        seen_broken = set()
        concrete = reported > 0
        self.cov["broken_ties"] = [w for w, _, _ in self.broken]
        for what, detail, found in self.broken:
            # a tie or proof that no longer checks is reported on its own only when the violation search
            # found no concrete failing input
            if found or concrete or what in seen_broken:
                continue
            seen_broken.add(what)
            reported += 1
            path = os.path.join(VERIF, "replays", "%s-broken-%s-%d%s.json" % (self.pid, re.sub(r"[^A-Za-z0-9_.-]", "_", what)[:60], self.seed,
                                                                               ".replayed" if self.replay_of else ""))
            with open(path, "w") as f:
                json.dump({"property": self.pid, "seed": self.seed, "tier": self.tier,
                           "no_longer_checks": what, "detail": detail,
                           "note": "the theorem / correspondence named here no longer checks against /repo; "
                                   "the violation search found no concrete failing input"}, f, indent=1)
            lines.append("VIOLATION property=%s replay=%s no-failing-input-found" % (self.pid, path))
            rc = 1
        ev = {"property_id": self.pid, "tier": self.tier, "seed": self.seed, "level": "proof",
              "coverage": self.cov, "assumptions": self.assumptions,
              "wall_s": round(time.time() - self.t0, 2), "violations": reported}
        os.makedirs(os.path.join(VERIF, "evidence"), exist_ok=True)
        if self.replay_of:
            ev["replay_of"] = self.replay_of
        # a replay run describes one input, not the check's coverage: it does not overwrite the evidence file
        # VERIF_SCRATCH=1 (runs against a deliberately changed tree: seeded changes): do not touch the evidence of record
        suffix = ".replay.json" if self.replay_of else (".scratch.json" if os.environ.get("VERIF_SCRATCH") else ".json")
        with open(os.path.join(VERIF, "evidence", self.pid + suffix), "w") as f:
            json.dump(ev, f, indent=1, default=str)
        for l in lines:
            print(l)
        if self.replay_of:
            print("REPLAY property=%s file=%s %s" % (self.pid, self.replay_of, "REPRODUCED" if rc else "not-reproduced"))
        sys.stdout.flush()
        return rc


class Rng:
    """splitmix64; every random choice of a check derives from one state."""

    def __init__(self, seed):
        self.s = seed & 0xFFFFFFFFFFFFFFFF

    def next(self):
        self.s = (self.s + 0x9E3779B97F4A7C15) & 0xFFFFFFFFFFFFFFFF
        z = self.s
        z = ((z ^ (z >> 30)) * 0xBF58476D1CE4E5B9) & 0xFFFFFFFFFFFFFFFF
        z = ((z ^ (z >> 27)) * 0x94D049BB133111EB) & 0xFFFFFFFFFFFFFFFF
        return z ^ (z >> 31)

    def below(self, n):
        return self.next() % n

    def chance(self, p):
        return (self.next() % 1000000) < p * 1000000

    def choice(self, xs):
        return xs[self.below(len(xs))]

    def weighted(self, pairs):
        tot = sum(w for _, w in pairs)
        r = self.below(tot)
        for x, w in pairs:
            if r < w:
                return x
            r -= w
        return pairs[-1][0]

    def shuffle(self, xs):
        xs = list(xs)
        for i in range(len(xs) - 1, 0, -1):
            j = self.below(i + 1)
            xs[i], xs[j] = xs[j], xs[i]
        return xs

    def fork(self):
        return Rng(self.next())


def ddmin(ops, fails, max_trials=200):
    """delta-debugging over an op list; `fails(sub)` returns True if the sub-list still fails."""
    n = 2
    trials = 0
    while len(ops) >= 2 and trials < max_trials:
        chunk = max(1, len(ops) // n)
        reduced = False
        for i in range(0, len(ops), chunk):
            cand = ops[:i] + ops[i + chunk:]
            trials += 1
            if cand and fails(cand):
                ops = cand
                n = max(n - 1, 2)
                reduced = True
                break
            if trials >= max_trials:
                break
        if not reduced:
            if chunk == 1:
                break
            n = min(n * 2, len(ops))
    return ops
