"""list engine: wallet/account populations x permission tables x requested paths, before and after accounts
created through dirk; result sets compared with the Lean lister model and judged sound/complete by the Lean
specification (whole-name matching).  Serves C18."""
import hist
import perms as permsmod
from common import hx

WALLETS = ["Wallet 1", "Wallet 2", "Vault"]
ANAMES = ["Acc1", "Acc2", "Acc10", "Validator", "val 7", "acc1", "Deposit", "X"]


ENDPOINTS = ["signer-test01:8881", "signer-test02:8882", "signer-test01:8881", "[2001:db8::2]:8882", "bare-host", "host:notaport",
             "host:99999999999", "a:b:c", ":", "host:"]


def hs(s):
    return hx(s) if s else "."


def gen_scenario(r, keys):
    nw = 1 + r.below(3)
    wallets = WALLETS[:nw]
    accts = []
    ki = 0
    lines = ["nocache"]
    # some scenarios are listed through the real gRPC API (TLS, interceptors, the ListAccounts handler), and some wallets
    # are DISTRIBUTED wallets whose accounts carry participant endpoints of every spelling an imported account can have
    if r.chance(0.4):
        lines.append("viagrpc")
    # sometimes the last wallet lives in a SECOND wallet store of the same type
    store2 = set()
    if len(wallets) > 1 and r.chance(0.12):
        lines.append("store2 %s" % hx(wallets[-1]))
        store2.add(wallets[-1])
    dist_wallets = set()
    for w in wallets:
        n = r.weighted([(0, 1), (1, 2), (3, 4), (6, 3), (8, 1)])
        names = r.shuffle(ANAMES)[:n]
        if not names:
            lines.append("wallet %s" % hx(w))
        isdist = bool(names) and r.chance(0.3)
        if isdist:
            dist_wallets.add(w)
        for nm in names:
            dist = None
            if isdist:
                eps = [r.choice(ENDPOINTS) for _ in range(1 + r.below(3))]
                dist = ";".join("%d=%s" % (i + 1, e) for i, e in enumerate(eps))
            accts.append(hist.Acct(w, nm, keys[ki], dist=dist))
            ki += 1
    # permissions: per-account tables
    pl = []
    for c in ("client1", "client2"):
        for _ in range(1 + r.below(4)):
            w = r.choice(wallets + ["Wallet.*", "Wallet 1|Vault", ".*"])
            a = r.choice(["", "Acc.*", "Acc1", "Acc1|Acc2", "[vV]al.*", ".*1", "Deposit|X", "acc1"])
            ops = r.choice([["All"], ["Access account"], ["~Access account", "All"], ["None"], ["Sign", "Access account"], ["~Sign", "All"],
                            ["Create account", "Access account"], ["Sign"], ["Lock wallet", "Unlock wallet", "Access account"], ["~Lock account", "All"]])
            pl.append((c, w + ("/" + a if a else ""), ops))
        # often a broad last entry, so that many listings are non-empty and creations are permitted (earlier entries
        # still decide first)
        if r.chance(0.6 if c == "client1" else 0.3):
            pl.append((c, r.choice([".*", r.choice(wallets), "Wallet.*|Vault"]), r.choice([["All"], ["Access account", "Create account"], ["~Sign", "All"]])))
    # sometimes: patterns that differ ONLY in the letter case of a class escape (\\w / \\W, \\d / \\D, \\S / \\s) — opposite
    # meanings under any case folding — in one client's table and across the two clients
    if r.chance(0.25):
        w = r.choice(wallets)
        lo, up = r.choice([("\\w+", "\\W+"), ("Acc\\d+", "Acc\\D+"), ("\\S+", "\\s+"), ("[a-z]+\\d*", "[a-z]+\\D*")])
        form = r.below(3)
        if form == 0:
            pl = [("client1", w + "/" + up, ["None"]), ("client1", w + "/" + lo, ["All"])] + pl
        elif form == 1:
            pl = [("client1", w + "/" + lo, ["Access account"]), ("client2", w + "/" + up, ["Access account"])] + pl
        else:
            pl = [("client2", w + "/" + up, ["Access account", "Create account"]), ("client2", w + "/" + lo, ["None"]), ("client1", w + "/" + lo, ["All"])] + pl
    cfg = lines + [l for l in hist.config_lines(accts, pl, [])]
    ops = []

    def paths():
        out = []
        for _ in range(r.weighted([(0, 1), (1, 5), (2, 4), (3, 2)])):
            w = r.choice(wallets * 3 + ["Nope", "wallet 1", ""])
            k = r.weighted([("wallet", 4), ("regex", 6), ("trailing", 1), ("bad", 1), ("dup", 1)])
            if k == "wallet":
                out.append(w)
            elif k == "regex":
                out.append(w + "/" + r.choice(["Acc.*", "Acc1", "Acc1|Acc2", "Acc\\d", "Acc\\d+", ".*", "[vV]al.*", "^Acc1$", "acc1", "Acc1|X", "Deposit", ".*1", "Acc1?0?"]))
            elif k == "trailing":
                out.append(w + "/")
            elif k == "bad":
                out.append(r.choice(["/Acc1", w + "/Acc(", w + "/**", ""]))
            else:
                out += [w, w]
        return out
    for _ in range(6 + r.below(6)):
        c = r.weighted([("client1", 6), ("client2", 3), ("nobody", 1), ("", 1)])
        ps = paths()
        ops.append("list %s %s" % (hs(c), ",".join(hs(p) for p in ps) if ps else "-"))
        # an earlier listing once more (whatever a listing left behind must not change what the same listing shows later,
        # in particular after accounts were created in between)
        earlier = [o for o in ops[:-1] if o.startswith("list ")]
        if earlier and r.chance(0.35):
            ops.append(r.choice(earlier))
        if r.chance(0.2):
            # other request types in between must not disturb what later listings show
            ops.append("%s %s %s" % (r.choice(["lockwallet", "lockwallet", "unlockwallet"]), hx(r.choice(["client1", "client2"])), hx(r.choice(wallets + ["Nope"]))))
        creatable = [x for x in wallets if x not in dist_wallets and x not in store2]
        if r.chance(0.25) and creatable:
            # (a distributed wallet creates accounts by key generation only; dirk's generate opens the wallet in the FIRST
            #  configured store only — services/process/standard/generate.go — so a wallet of the second store is no target)
            w = r.choice(creatable)
            nm = r.choice(["New1", "Acc77", "Acc1", "Validator2", "acc9"])
            ops.append("create %s %s" % (hx(r.choice(["client1", "client2"])), hx(w + "/" + nm)))
    return cfg, ops, accts
