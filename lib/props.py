"""Per-property checks."""
import json
import os

import engines
import hist
from common import (Broken, Rng, VERIF, build_harness, build_lean, audit, grep_forbidden, hx)
from hist import TWO63, TWO64, DOM_ATT, DOM_PROP, DOM_EXIT, DOM_RANDAO

TRUSTED = [
    "Lean 4.33.0 kernel (lake build); axioms limited to propext, Classical.choice, Quot.sound (audited with #print axioms)",
    "hand-written Lean model Dirk/Model/*.lean tied to /repo by the differential correspondence check (Go harness dh + compiled Lean driver dirkmodel)",
    "Lean compiler for the executable model; Python orchestration (generators, diff, shrink)",
]

THEOREMS = {}


def prove(rep, pid):
    """Re-check the Lean side: build, forbid sorry & co, audit axioms of the property's theorems."""
    build_lean()
    grep_forbidden()
    mod, thms = THEOREMS[pid]
    n, ok, details = audit(mod, thms)
    rep.add_proof(n, ok, details, "cd lean && lake build && lake env lean <#print axioms of %s>" % mod)
    rep.cov["trusted_base"] = TRUSTED


def att_line(client, adr, s, t, tag=0, dom=None, faults="-", slot=0):
    dom = hist.DOM_ATT + bytes(28) if dom is None else dom
    r = bytes([0xA0 + tag]) * 32
    return "att %s - %s %s,%d,0,%s,%d,%s,%d,%s %s" % (hx(client), adr, hist.optbytes(dom), slot, r.hex(), s, r.hex(), t, r.hex(), faults)


def att_item(adr, s, t, tag=0, dom=None):
    dom = hist.DOM_ATT + bytes(28) if dom is None else dom
    r = bytes([0xA0 + tag]) * 32
    return "%s,%s,0,0,%s,%d,%s,%d,%s" % (adr, hist.optbytes(dom), r.hex(), s, r.hex(), t, r.hex())


def prop_line(client, adr, slot, tag=0, dom=None, faults="-"):
    dom = hist.DOM_PROP + bytes(28) if dom is None else dom
    r = bytes([0xA0 + tag]) * 32
    return "prop %s - %s %s,%d,1,%s,%s,%s %s" % (hx(client), adr, hist.optbytes(dom), slot, r.hex(), r.hex(), r.hex(), faults)


def corpus_histories(keys, which):
    """Hand-written witness histories (always run first)."""
    accts, perms, admins = hist.std_config(keys, nacct=5)
    cfg = hist.config_lines(accts, perms, admins)
    a0, a1, a2 = accts[0], accts[1], accts[2]
    n0, k0 = "n:" + hx(a0.path), "k:" + a0.pk.hex()
    n1, k1 = "n:" + hx(a1.path), "k:" + a1.pk.hex()
    n2 = "n:" + hx(a2.path)
    H = []
    if which in ("C01", "all"):
        big = [TWO63 - 1, TWO63, TWO63 + 1, TWO64 - 1]
        for t in big:
            # double vote at a huge target, by name then by key, different roots
            H.append([att_line("client1", n0, 5, t, 0), att_line("client1", k0, 5, t, 1), "export"])
            # surround around a huge source
            H.append([att_line("client1", n0, min(t, TWO64 - 2), TWO64 - 1, 0), att_line("client1", n0, 3, 7, 1), "export"])
        H.append([att_line("client1", n0, 0, 0, 0), att_line("client1", k0, 0, 0, 1), "export"])      # genesis double vote
        H.append([att_line("client1", n0, 2, 9, 0), "restart", att_line("client1", k0, 3, 8, 1), att_line("client1", n0, 1, 10, 2)])  # surrounded / surrounding
        H.append(["atts %s - - %s" % (hx("client1"), ";".join([att_item(n0, 1, 4, 0), att_item(k0, 1, 4, 1)])), "export"])  # same key twice in a batch
        H.append(["atts %s - - %s" % (hx("client1"), ";".join([att_item(n0, 1, 4, 0), att_item(n1, 1, 4, 0)])),
                  "atts %s - - %s" % (hx("client1"), ";".join([att_item(k1, 1, 4, 1), att_item(n2, 1, 4, 0)])),
                  att_line("client1", k0, 0, 4, 2), "export"])
        H.append([att_line("client1", n0, 3, 6, 0, faults="S"), att_line("client1", n0, 3, 6, 1), "export"])
        H.append(["atts %s - S %s" % (hx("client1"), ";".join([att_item(n0, 3, 6, 0), att_item(n1, 3, 6, 0)])),
                  att_line("client1", n0, 3, 6, 1), "export"])
    if which in ("C02", "all"):
        for s in [0, 1, TWO63 - 1, TWO63, TWO63 + 1, TWO64 - 1]:
            H.append([prop_line("client1", n0, s, 0), prop_line("client1", k0, s, 1), "export"])
        H.append([prop_line("client1", n0, 10, 0), "restart", prop_line("client1", k0, 9, 1), prop_line("client1", n0, 11, 1), "export"])
        H.append([prop_line("client1", n0, 5, 0, faults="S"), prop_line("client1", n0, 5, 1), "export"])
    return [{"cfg": cfg, "ops": ops, "accts": accts, "opts": {}} for ops in H]


def tier_sizes(tier, quick, thorough):
    return thorough if tier == "thorough" else quick


def run_hist_property(rep, tier, seed, wd, pid, kinds, opts, sizes, judge=True, sig=True, extra_hist=None,
                      nontrivial=None):
    """Common flow of the hist-engine properties. `kinds` = op kinds whose disagreement matters here."""
    dh = build_harness(wd)
    keys = hist.interop_keys(dh)
    rng = Rng(seed * 1000003 + sum(ord(c) for c in pid))
    n_hist, n_ops = sizes
    hs = corpus_histories(keys, pid)
    if extra_hist:
        hs += extra_hist(keys, rng)
    hs += engines.gen_histories(rng, keys, n_hist, n_ops, opts)
    procs = opts.get("gomaxprocs", [None])
    all_h = []
    for p in procs:
        env = {"GOMAXPROCS": str(p)} if p else None
        import copy
        cur = [dict(h) for h in hs]
        crashed, err = engines.exec_histories(dh, wd, cur, env=env)
        if crashed:
            rep.broken.append(("implementation-crash:hist", "the harness process died: " + err, False))
        for h in cur:
            h["gomaxprocs"] = p
        all_h += cur
    rep.cov["traces_validated_against_impl"] = len(all_h)
    # correspondence
    first_bad = None
    for hi, h in enumerate(all_h):
        rel = [b for b in h["bad"] if b[1].split()[0] in kinds or b[0] == -1]
        if rel and first_bad is None:
            first_bad = (hi, rel[0])
        for op in h["ops"]:
            k = op.split()[0]
            rep.dist("op", k)
        for i, op in enumerate(h["ops"]):
            if i < len(h["impl"]) and op.split()[0] in kinds and op.split()[0] in ("att", "atts", "atts0", "prop", "sign", "msign"):
                for s in hist.states_of(h["impl"][i]):
                    rep.dist("state", s)
        nt = nontrivial(h) if nontrivial else True
        rep.count(json.dumps(h["ops"]), nt)
    if all_h:
        rep.sample({"ops": all_h[-1]["ops"][:6], "impl": all_h[-1]["impl"][:6], "model": all_h[-1]["model"][:6]})
    found_violation = False
    if judge:
        bad, nrel = engines.judge_slashing(all_h)
        rep.cov["released_signatures_judged"] = nrel
        want = {"C01": "att", "C02": "prop"}.get(pid)
        for (hi, kind, key, i, j, data, verdict) in bad:
            if want and kind != want:
                continue
            found_violation = True
            h = all_h[hi]
            # shrink: keep failing = judge still flags something of this kind
            def pred(ops, impl, model, crashed, h=h, kind=kind):
                hh = dict(h, ops=ops, impl=impl, model=model)
                b, _ = engines.judge_slashing([hh])
                return any(x[1] == kind for x in b)
            small = engines.shrink_history(dh, wd, h, pred) if len(h["ops"]) > 3 else h["ops"]
            fields = data.split(",")
            key_desc = ("%s-%s" % (kind, "epoch>=2^63" if any(int(x) >= TWO63 for x in ([fields[4], fields[6]] if kind == "att" else [fields[1]])) else "general"))
            rep.violation(key_desc,
                          "implementation released %s signatures judged %s by the Lean Spec predicate" % (kind, verdict),
                          {"config": h["cfg"], "ops": small, "gomaxprocs": h.get("gomaxprocs"),
                           "run": "./check %s --replay <this file>" % pid})
            break
    if sig:
        badsig, nsig = engines.sigcheck(dh, all_h)
        rep.cov["signatures_verified_against_model_root"] = nsig
        if badsig and pid in ("C08",):
            hi, i, j = badsig[0]
            found_violation = True
            rep.violation("bad-signature", "signature does not verify under the addressed key over the model's signing root",
                          {"config": all_h[hi]["cfg"], "ops": all_h[hi]["ops"][:i + 1], "position": j})
    if first_bad is not None:
        hi, (i, op, il, ml) = first_bad
        rep.broken.append(("correspondence:hist(model %s vs implementation)" % pid,
                           json.dumps({"first_disagreement": {"op_index": i, "op": op, "impl": il, "model": ml},
                                       "config": all_h[hi]["cfg"], "ops": all_h[hi]["ops"][:i + 1]}), found_violation))
    return all_h


def c01(rep, tier, seed, wd, replay):
    rep.cov["rule"] = ("histories of single/batch attestation requests (by name/key, duplicate keys, boundary epochs incl. >=2^63, "
                       "restarts, injected store faults) over 5-6 accounts; non-trivial = releases >=2 signatures for one key or "
                       "contains a refused request")
    rep.assumptions += ["badger: Update/WriteBatch.Flush atomic; a failed write either landed or did not (both proved)",
                        "account resolution by name and by key agree (checked by the engine)"]
    prove(rep, "C01")
    sizes = tier_sizes(tier, (40, 40), (400, 120))
    opts = {"faults": True, "huge": True}
    if tier == "thorough":
        opts["gomaxprocs"] = [1, 2, 16]

    def nontriv(h):
        rel = hist.released(h["ops"], h["impl"], h["accts"])
        ks = [r[1] for r in rel if r[0] == "att"]
        return len(ks) != len(set(ks)) or any("D" in hist.states_of(l) for l in h["impl"] if l)
    run_hist_property(rep, tier, seed, wd, "C01", ("att", "atts", "atts0", "export", "restart"), opts, sizes,
                      nontrivial=nontriv)


def c02(rep, tier, seed, wd, replay):
    rep.cov["rule"] = ("histories of proposal requests mixed with other traffic (by name/key, boundary slots incl. >=2^63, restarts, "
                       "store faults); non-trivial = >=2 proposal signatures for one key or a refused proposal")
    rep.assumptions += ["badger: Update atomic; a failed write either landed or did not (both proved)"]
    prove(rep, "C02")
    sizes = tier_sizes(tier, (40, 40), (400, 120))
    opts = {"faults": True, "huge": True}

    def nontriv(h):
        rel = hist.released(h["ops"], h["impl"], h["accts"])
        ks = [r[1] for r in rel if r[0] == "prop"]
        return len(ks) != len(set(ks)) or any(op.startswith("prop") and "D" in hist.states_of(l)
                                              for op, l in zip(h["ops"], h["impl"]))
    run_hist_property(rep, tier, seed, wd, "C02", ("prop", "export", "restart"), opts, sizes, nontrivial=nontriv)


THEOREMS.update({
    "C01": ("Dirk.Props.C01", ["Dirk.C01_monotone", "Dirk.C01", "Dirk.C01_legacy_counterexample"]),
    "C02": ("Dirk.Props.C02", ["Dirk.C02_increasing", "Dirk.C02", "Dirk.C02_legacy_counterexample"]),
})

CHECKS = {"C01": c01, "C02": c02}
